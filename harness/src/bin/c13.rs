//! C13 — tiered whitelist stages (plain / flex / Merkle): the REAL contracts under cw-multi-test vs `LP.Tiered` (Lean).
//!
//! Protocol: see /verif/lean/LaunchpadModel/Driver/C13.lean. Every line carries `now=` (block time, ns) and is
//! executable from its text alone. `inst` instantiates a fresh contract which becomes the current one when it succeeds.
//!
//! Output lines are `primary ## drift` (see the driver): only what C13 constrains is compared.
//!
//! Where the monitors take their truth from (never from the query that is being judged):
//! * the stage list and the member map are read from the contract's STORAGE through the crates' own typed
//!   `state::{CONFIG, WHITELIST_STAGES, MERKLE_ROOTS}` constants (no key layout, no JSON field defaults); if that is
//!   impossible the stage/member queries are used instead and the run says so (`snap-ok:query` + note); if even that fails the
//!   class `snap:none` + a note record it and the coverage floor (`snap-ok:`) fails the run when it never worked — never silently off;
//! * a GHOST built only from the message lines the harness sent and the accept/reject it got back (which stages it
//!   configured, which addresses it put into which stage) — membership answers are judged against the ghost, and the
//!   storage itself is cross-checked against it after every message;
//! * the message surface is enumerated at RUN TIME from `schema_for!(ExecuteMsg)` of each crate.
use cosmwasm_std::{Addr, Coin, Order, Timestamp};
use cw_multi_test::{BankSudo, Executor, SudoMsg};
use lp_harness::boxes::{self, App};
use lp_harness::world::*;
use lp_harness::*;
use rs_merkle::{Hasher, MerkleTree};
use serde_json::{json, Value};
use std::collections::{BTreeMap, BTreeSet};

const T0: u64 = 1_700_000_000_000_000_000;

#[derive(Clone, Copy, PartialEq, Eq, Debug)]
enum V {
    Plain,
    Flex,
    Merkle,
}
impl V {
    fn name(self) -> &'static str {
        match self {
            V::Plain => "plain",
            V::Flex => "flex",
            V::Merkle => "merkle",
        }
    }
    fn parse(s: &str) -> V {
        match s {
            "flex" => V::Flex,
            "merkle" => V::Merkle,
            _ => V::Plain,
        }
    }
}

// ------------------------------------------------------------------------------------------------ names

/// address id -> string; 0 is a string `addr_validate` rejects
fn name(id: u64) -> String {
    if id == 0 {
        "X".to_string()
    } else {
        addr(id)
    }
}
fn name_id(s: &str) -> u64 {
    if s == "X" {
        0
    } else if let Some(n) = s.strip_prefix("acct").and_then(|k| k.parse::<u64>().ok()) {
        n
    } else {
        addr_id(s)
    }
}
fn stage_name(k: u64) -> String {
    format!("n{k}")
}
fn stage_name_id(s: &str) -> u64 {
    s.strip_prefix('n').and_then(|x| x.parse().ok()).unwrap_or(999_999)
}

// ------------------------------------------------------------------------------------------------ stages

#[derive(Clone, Debug, PartialEq)]
struct St {
    name: u64,
    start: u64,
    stop: u64,
    denom: u64,
    price: u128,
    pal: u64,
    mcl: Option<u64>,
}
impl St {
    fn line(&self) -> String {
        format!("{}:{}:{}:{}:{}:{}:{}", self.name, self.start, self.stop, self.denom, self.price, self.pal, fmt_opt(&self.mcl))
    }
    fn parse(s: &str) -> Option<St> {
        let p: Vec<&str> = s.split(':').collect();
        if p.len() != 7 {
            return None;
        }
        Some(St {
            name: p[0].parse().ok()?,
            start: p[1].parse().ok()?,
            stop: p[2].parse().ok()?,
            denom: p[3].parse().ok()?,
            price: p[4].parse().ok()?,
            pal: p[5].parse().ok()?,
            mcl: if p[6] == "-" { None } else { Some(p[6].parse().ok()?) },
        })
    }
    fn json(&self, v: V) -> Value {
        let mut o = json!({
            "name": stage_name(self.name),
            "start_time": self.start.to_string(),
            "end_time": self.stop.to_string(),
            "mint_price": {"denom": denom(self.denom), "amount": self.price.to_string()},
            "mint_count_limit": self.mcl,
        });
        if v != V::Flex {
            o["per_address_limit"] = json!(self.pal);
        }
        o
    }
    /// a stage out of a query answer / a serialised `state::Stage`. STRICT on what C13 is about (window, price): a stage
    /// whose window or price cannot be read is `None` (never a silent 0); name / limits are optional.
    fn from_json(j: &Value) -> Option<St> {
        Some(St {
            name: stage_name_id(j["name"].as_str().unwrap_or("")),
            start: j["start_time"].as_str()?.parse().ok()?,
            stop: j["end_time"].as_str()?.parse().ok()?,
            denom: denom_id(j["mint_price"]["denom"].as_str()?),
            price: j["mint_price"]["amount"].as_str()?.parse().ok()?,
            pal: j["per_address_limit"].as_u64().unwrap_or(0),
            mcl: j["mint_count_limit"].as_u64(),
        })
    }
    /// primary projection: window, mint price, per-address limit
    fn p(&self) -> String {
        format!("{}:{}:{}:{}:{}", self.start, self.stop, self.denom, self.price, self.pal)
    }
    /// drift part: name, mint-count limit
    fn x(&self) -> String {
        format!("{}:{}", self.name, fmt_opt(&self.mcl))
    }
    fn same_p(&self, o: &St) -> bool {
        self.p() == o.p()
    }
    fn contains(&self, t: u64) -> bool {
        self.start <= t && t <= self.stop
    }
}
fn stages_line(l: &[St]) -> String {
    if l.is_empty() {
        "-".into()
    } else {
        l.iter().map(|s| s.line()).collect::<Vec<_>>().join(";")
    }
}
fn parse_stages(s: &str) -> Vec<St> {
    if s == "-" || s.is_empty() {
        vec![]
    } else {
        s.split(';').filter_map(St::parse).collect()
    }
}
fn members_json(v: V, l: &[(u128, u128)]) -> Value {
    match v {
        V::Flex => Value::Array(l.iter().map(|(a, c)| json!({"address": name(*a as u64), "mint_count": *c as u64})).collect()),
        _ => Value::Array(l.iter().map(|(a, _)| json!(name(*a as u64))).collect()),
    }
}
fn parse_pairs(s: &str) -> Vec<(u128, u128)> {
    if s == "-" || s.is_empty() {
        return vec![];
    }
    s.split(',').filter_map(|p| p.split_once(':').and_then(|(a, b)| Some((a.parse().ok()?, b.parse().ok()?)))).collect()
}
fn parse_member_lists(s: &str) -> Vec<Vec<(u128, u128)>> {
    if s == "none" || s.is_empty() {
        vec![]
    } else {
        s.split('/').map(parse_pairs).collect()
    }
}
fn member_lists_line(l: &[Vec<(u128, u128)>]) -> String {
    if l.is_empty() {
        "none".into()
    } else {
        l.iter().map(|x| fmt_pairs(x)).collect::<Vec<_>>().join("/")
    }
}

// ------------------------------------------------------------------------------------------------ merkle (blake3, 16 bytes, sorted pairs)

#[derive(Clone)]
struct SortingBlake16 {}
fn blake16(data: &[u8]) -> [u8; 16] {
    blake3::hash(data).as_bytes()[..16].try_into().unwrap()
}
impl Hasher for SortingBlake16 {
    type Hash = [u8; 16];
    fn concat_and_hash(left: &Self::Hash, right: Option<&Self::Hash>) -> Self::Hash {
        match right {
            Some(r) => {
                let mut both = [*left, *r];
                both.sort_unstable();
                blake16(&both.concat())
            }
            None => *left,
        }
    }
    fn hash(data: &[u8]) -> Self::Hash {
        blake16(data)
    }
    fn hash_size() -> usize {
        16
    }
}
/// tree over member strings, exactly as the repo's merkle tests build theirs (leaf = hash of the string)
fn build_tree(members: &[u64]) -> MerkleTree<SortingBlake16> {
    let leaves: Vec<[u8; 16]> = members.iter().map(|m| blake16(name(*m).as_bytes())).collect();
    MerkleTree::<SortingBlake16>::from_leaves(&leaves)
}
fn tree_root_hex(t: &MerkleTree<SortingBlake16>) -> String {
    hex::encode(t.root().unwrap_or([0u8; 16]))
}
fn tree_proof_hex(t: &MerkleTree<SortingBlake16>, idx: usize) -> Vec<String> {
    t.proof(&[idx]).proof_hashes().iter().map(hex::encode).collect()
}
/// independent re-computation of the contract's fold: None = some proof element is not 16-byte hex
fn fold_proof(member: &str, proof: &[String]) -> Option<u128> {
    let mut acc = blake16(member.as_bytes());
    for p in proof {
        let bytes = hex::decode(p).ok()?;
        let arr: [u8; 16] = bytes.try_into().ok()?;
        let mut both = [acc, arr];
        both.sort_unstable();
        acc = blake16(&both.concat());
    }
    Some(u128::from_be_bytes(acc))
}
fn root_to_nat(hexs: &str) -> Option<u128> {
    let b = hex::decode(hexs).ok()?;
    let arr: [u8; 16] = b.try_into().ok()?;
    Some(u128::from_be_bytes(arr))
}

// ------------------------------------------------------------------------------------------------ the message surface (run time)

/// the `ExecuteMsg` variants of one crate as enumerated from its JSON schema at run time
struct Surface {
    /// (variant name, schema of its payload or Null for a unit variant)
    variants: Vec<(String, Value)>,
    defs: Value,
}

/// variant names this harness has a protocol op for
fn known_variants(v: V) -> &'static [(&'static str, &'static str)] {
    match v {
        V::Merkle => &[("update_stage_config", "update_stage"), ("update_admins", "update_admins"), ("freeze", "freeze")],
        _ => &[
            ("add_stage", "add_stage"),
            ("remove_stage", "remove_stage"),
            ("add_members", "add_members"),
            ("remove_members", "remove_members"),
            ("update_stage_config", "update_stage"),
            ("increase_member_limit", "increase_limit"),
            ("update_admins", "update_admins"),
            ("freeze", "freeze"),
        ],
    }
}

fn surface_of(v: V) -> Surface {
    let root = match v {
        V::Plain => serde_json::to_value(cosmwasm_schema::schema_for!(sg_tiered_whitelist::msg::ExecuteMsg)),
        V::Flex => serde_json::to_value(cosmwasm_schema::schema_for!(sg_tiered_whitelist_flex::msg::ExecuteMsg)),
        V::Merkle => serde_json::to_value(cosmwasm_schema::schema_for!(tiered_whitelist_merkletree::msg::ExecuteMsg)),
    }
    .unwrap_or(Value::Null);
    let mut variants = vec![];
    for alt in root["oneOf"].as_array().or(root["anyOf"].as_array()).cloned().unwrap_or_default() {
        if let Some(names) = alt["enum"].as_array() {
            for n in names {
                if let Some(n) = n.as_str() {
                    variants.push((n.to_string(), Value::Null));
                }
            }
        } else if let Some(props) = alt["properties"].as_object() {
            for (k, sch) in props {
                variants.push((k.clone(), sch.clone()));
            }
        }
    }
    Surface { variants, defs: root["definitions"].clone() }
}

/// smallest JSON value the schema admits: required fields only, integers = `int`, strings = `text`, options = null
fn minimal(schema: &Value, defs: &Value, int: u64, text: &str, depth: u32) -> Value {
    if depth > 10 {
        return Value::Null;
    }
    if let Some(r) = schema["$ref"].as_str() {
        let name = r.rsplit('/').next().unwrap_or("");
        return minimal(&defs[name], defs, int, text, depth + 1);
    }
    for key in ["allOf", "anyOf", "oneOf"] {
        if let Some(a) = schema[key].as_array() {
            if key != "allOf" && a.iter().any(|x| x["type"] == "null") {
                return Value::Null;
            }
            if let Some(first) = a.first() {
                return minimal(first, defs, int, text, depth + 1);
            }
        }
    }
    if let Some(e) = schema["enum"].as_array() {
        return e.first().cloned().unwrap_or(Value::Null);
    }
    let ty = match &schema["type"] {
        Value::String(s) => s.clone(),
        Value::Array(a) => {
            if a.iter().any(|x| x == "null") {
                return Value::Null;
            }
            a.first().and_then(|x| x.as_str()).unwrap_or("object").to_string()
        }
        _ => "object".to_string(),
    };
    match ty.as_str() {
        "object" => {
            let mut o = serde_json::Map::new();
            for r in schema["required"].as_array().cloned().unwrap_or_default() {
                if let Some(k) = r.as_str() {
                    o.insert(k.to_string(), minimal(&schema["properties"][k], defs, int, text, depth + 1));
                }
            }
            Value::Object(o)
        }
        "array" => json!([]),
        "string" => json!(text),
        "integer" | "number" => json!(int),
        "boolean" => json!(false),
        _ => Value::Null,
    }
}

// ------------------------------------------------------------------------------------------------ the system under test

/// what the contract has STORED (typed `state::` read) — or, second best, what its stage / member queries say
#[derive(Clone, Debug, Default, PartialEq)]
struct Snap {
    stages: Vec<St>,
    num: u64,
    /// (stage id, address) -> value (`true` = 1 on plain, `mint_count` on flex); list-based only
    members: BTreeMap<(u64, u64), u64>,
    roots: Vec<String>,
    typed: bool,
}
impl Snap {
    fn of_stage(&self, k: u64) -> Vec<(u64, u64)> {
        self.members.range((k, 0)..(k + 1, 0)).map(|((_, a), c)| (*a, *c)).collect()
    }
    fn count_from(&self, k: u64) -> u64 {
        self.members.range((k, 0)..).count() as u64
    }
}

/// what the harness itself configured: built ONLY from the lines it sent and the accept/reject it got back
#[derive(Clone, Debug, Default)]
struct Ghost {
    stages: Vec<St>,
    /// per stage: address -> count given when it was first added
    members: Vec<BTreeMap<u64, u64>>,
}

struct S {
    app: App,
    code: [u64; 3],
    v: V,
    wl: Option<Addr>,
    /// successful message lines of the current case (to rebuild the world after a panic)
    log: Vec<String>,
    pre: Option<Snap>,
    ghost: Ghost,
    pending: Option<(String, String)>,
    surface: [Surface; 3],
    /// classes / notes for the session (drained by `step`)
    marks: Vec<String>,
    notes: BTreeSet<String>,
    page_flip: bool,
}

const MIGRATOR: u64 = 6;

fn fresh_app() -> (App, [u64; 3]) {
    let mut app = boxes::custom_mock_app();
    let c0 = app.store_code(boxes::tiered_whitelist());
    let c1 = app.store_code(boxes::tiered_whitelist_flex());
    let c2 = app.store_code(boxes::tiered_whitelist_mtree());
    (app, [c0, c1, c2])
}

fn canon_stages_line(now: u64, n: usize) -> String {
    (0..n as u64).map(|k| format!("{k}:{}:{}:0:0:1:-", now + 10 + 20 * k, now + 20 + 20 * k)).collect::<Vec<_>>().join(";")
}

fn replace_kv(line: &str, key: &str, val: &str) -> String {
    line.split_whitespace().map(|w| if w.starts_with(&format!("{key}=")) { format!("{key}={val}") } else { w.to_string() }).collect::<Vec<_>>().join(" ")
}

impl S {
    fn new() -> S {
        let (app, code) = fresh_app();
        S {
            app,
            code,
            v: V::Plain,
            wl: None,
            log: vec![],
            pre: None,
            ghost: Ghost::default(),
            pending: None,
            surface: [surface_of(V::Plain), surface_of(V::Flex), surface_of(V::Merkle)],
            marks: vec![],
            notes: BTreeSet::new(),
            page_flip: false,
        }
    }
    fn reset(&mut self) {
        let (app, code) = fresh_app();
        self.app = app;
        self.code = code;
        self.wl = None;
        self.log.clear();
        self.pre = None;
        self.ghost = Ghost::default();
        self.pending = None;
    }
    fn set_time(&mut self, now: u64) {
        self.app.update_block(|b| {
            b.time = Timestamp::from_nanos(now);
            b.height += 1;
        });
    }
    fn fund(&mut self, who: &Addr, funds: &[Coin]) {
        for c in funds {
            if !c.amount.is_zero() {
                let _ = self.app.sudo(SudoMsg::Bank(BankSudo::Mint { to_address: who.to_string(), amount: vec![c.clone()] }));
            }
        }
    }
    fn q(&self, msg: Value) -> Option<Value> {
        let wl = self.wl.clone()?;
        match catch(|| self.app.wrap().query_wasm_smart::<Value>(wl, &msg)) {
            Ok(Ok(v)) => Some(v),
            _ => None,
        }
    }
    fn unknown_variants(&self, v: V) -> Vec<String> {
        let known: Vec<&str> = known_variants(v).iter().map(|(n, _)| *n).collect();
        self.surface[v as usize].variants.iter().map(|(n, _)| n.clone()).filter(|n| !known.contains(&n.as_str())).collect()
    }

    /// `Members{stage_id}` paged to exhaustion (alternating the default page size and `limit: 100`, until an empty page)
    fn members_paged(&mut self, k: u64) -> Option<Vec<(u64, u64)>> {
        self.page_flip = !self.page_flip;
        let limit: Option<u32> = if self.page_flip { None } else { Some(100) };
        let mut out: Vec<(u64, u64)> = vec![];
        let mut after: Option<String> = None;
        for _ in 0..4000 {
            let r = self.q(json!({"members": {"start_after": after, "limit": limit, "stage_id": k}}))?;
            let arr = r["members"].as_array()?.clone();
            if arr.is_empty() {
                return Some(out);
            }
            for m in &arr {
                let (s, c) = match m {
                    Value::String(s) => (s.clone(), 1),
                    o => (o["address"].as_str().unwrap_or("").to_string(), o["mint_count"].as_u64().unwrap_or(0)),
                };
                out.push((name_id(&s), c));
                after = Some(s);
            }
        }
        None
    }

    /// the contract's storage through the crate's own typed constants
    fn typed_snap(&self) -> Option<Snap> {
        let wl = self.wl.clone()?;
        let v = self.v;
        let app = &self.app;
        catch(|| -> Option<Snap> {
            let st = app.contract_storage(&wl);
            let mut members = BTreeMap::new();
            let mut roots = vec![];
            let cfg: Value = match v {
                V::Plain => {
                    use sg_tiered_whitelist::state::{CONFIG, WHITELIST_STAGES};
                    for r in WHITELIST_STAGES.range(&*st, None, None, Order::Ascending) {
                        let ((k, a), _) = r.ok()?;
                        members.insert((k as u64, name_id(a.as_ref())), 1u64);
                    }
                    serde_json::to_value(CONFIG.may_load(&*st).ok()??).ok()?
                }
                V::Flex => {
                    use sg_tiered_whitelist_flex::state::{CONFIG, WHITELIST_STAGES};
                    for r in WHITELIST_STAGES.range(&*st, None, None, Order::Ascending) {
                        let ((k, a), c) = r.ok()?;
                        members.insert((k as u64, name_id(a.as_ref())), c as u64);
                    }
                    serde_json::to_value(CONFIG.may_load(&*st).ok()??).ok()?
                }
                V::Merkle => {
                    use tiered_whitelist_merkletree::state::{CONFIG, MERKLE_ROOTS};
                    roots = MERKLE_ROOTS.may_load(&*st).ok()?.unwrap_or_default();
                    serde_json::to_value(CONFIG.may_load(&*st).ok()??).ok()?
                }
            };
            let stages: Option<Vec<St>> = cfg["stages"].as_array()?.iter().map(St::from_json).collect();
            Some(Snap { stages: stages?, num: cfg["num_members"].as_u64().unwrap_or(0), members, roots, typed: true })
        })
        .ok()
        .flatten()
    }

    /// second best: the stage / member / root QUERIES (used only when the typed read is impossible; the run says so)
    fn query_snap(&mut self) -> Option<Snap> {
        self.wl.as_ref()?;
        // one consistent answer (`Stages`); it fails when the list is empty — told apart by what the harness itself configured
        let stages: Vec<St> = match self.q(json!({"stages": {}})) {
            Some(r) => r["stages"].as_array()?.iter().map(|x| St::from_json(&x["stage"])).collect::<Option<Vec<St>>>()?,
            None if self.ghost.stages.is_empty() => vec![],
            None => return None,
        };
        let cfg = self.q(json!({"config": {}}))?;
        let mut members = BTreeMap::new();
        let mut roots = vec![];
        if self.v != V::Merkle {
            for k in 0..4u64 {
                for (a, c) in self.members_paged(k).unwrap_or_default() {
                    members.insert((k, a), c);
                }
            }
        } else if let Some(r) = self.q(json!({"merkle_roots": {}})) {
            roots = r["merkle_roots"].as_array().map(|a| a.iter().filter_map(|x| x.as_str().map(String::from)).collect()).unwrap_or_default();
        }
        Some(Snap { stages, num: cfg["num_members"].as_u64().unwrap_or(0), members, roots, typed: false })
    }

    fn snap(&mut self) -> Option<Snap> {
        self.wl.as_ref()?;
        // (self-test hook: C13_FORCE_QUERY_SNAP=1 exercises the fallback path)
        let typed = if std::env::var("C13_FORCE_QUERY_SNAP").is_ok() { None } else { self.typed_snap() };
        if let Some(s) = typed {
            self.marks.push("snap-ok:typed".into());
            return Some(s);
        }
        let s = self.query_snap();
        if s.is_some() {
            self.marks.push("snap-ok:query".into());
            self.notes.insert("storage could not be read through the crates' typed state constants: monitors use the stage/member QUERIES as truth (weaker)".into());
        } else {
            self.marks.push("snap:none".into());
            self.notes.insert("neither the typed storage nor the stage queries could be read for an instantiated contract: stage monitors had no truth for some steps".into());
        }
        s
    }

    /// `Stage{k}`: (primary, drift)
    fn stage_q(&self, id: u64) -> (String, String) {
        match self.q(json!({"stage": {"stage_id": id}})) {
            Some(r) => match St::from_json(&r["stage"]) {
                Some(st) => {
                    if self.v == V::Merkle {
                        (format!("{}@{}", st.p(), root_to_nat(r["merkle_root"].as_str().unwrap_or("")).map(|x| x.to_string()).unwrap_or("?".into())), st.x())
                    } else {
                        (st.p(), format!("{}@{}", st.x(), r["member_count"].as_u64().unwrap_or(0)))
                    }
                }
                None => ("?".into(), "?".into()),
            },
            None => ("e".into(), "e".into()),
        }
    }
    fn admin_str(&self) -> String {
        match self.q(json!({"admin_list": {}})) {
            Some(r) => {
                let ids: Vec<u64> = r["admins"].as_array().map(|a| a.iter().map(|x| name_id(x.as_str().unwrap_or(""))).collect()).unwrap_or_default();
                format!("{}:{}", fmt_list(&ids), if r["mutable"].as_bool().unwrap_or(false) { 1 } else { 0 })
            }
            None => "e".into(),
        }
    }
    /// (primary, drift)
    fn summary(&self) -> (String, String) {
        let qs: Vec<(String, String)> = (0..4).map(|i| self.stage_q(i)).collect();
        let cfg = self.q(json!({"config": {}})).unwrap_or(Value::Null);
        (
            format!("st={} n={}", qs.iter().map(|x| x.0.clone()).collect::<Vec<_>>().join(";"), cfg["num_members"].as_u64().unwrap_or(0)),
            format!(
                "sx={} lim={} whale={} adm={}",
                qs.iter().map(|x| x.1.clone()).collect::<Vec<_>>().join(";"),
                cfg["member_limit"].as_u64().unwrap_or(0),
                fmt_opt(&cfg["whale_cap"].as_u64()),
                self.admin_str()
            ),
        )
    }

    /// run one message line on the real contracts. Ok(true) = accepted, Ok(false) = rejected, Err = panicked.
    fn apply(&mut self, line: &str) -> Result<bool, String> {
        let op = line.split_whitespace().next().unwrap_or("");
        let now = kv_u64(line, "now").unwrap_or(T0);
        let sender = Addr::unchecked(name(kv_u64(line, "sender").unwrap_or(9)));
        self.set_time(now);
        let v = self.v;
        if op == "inst" {
            let funds = coins_of(&kv_pairs(line, "funds").unwrap_or_default());
            self.fund(&sender, &funds);
            let stages = parse_stages(kv(line, "stages").unwrap_or("-"));
            let admins: Vec<String> = kv_list(line, "admins").unwrap_or_default().iter().map(|a| name(*a as u64)).collect();
            let mutable = kv_bool(line, "mutable").unwrap_or(true);
            let limit = kv_u64(line, "limit").unwrap_or(0);
            let msg = match v {
                V::Merkle => {
                    let roots: Vec<String> = match kv(line, "roots").unwrap_or("-") {
                        "-" => vec![],
                        r => r.split(',').map(String::from).collect(),
                    };
                    let uris = if kv_bool(line, "uribad").unwrap_or(false) {
                        json!(["not a url"])
                    } else if limit % 2 == 1 {
                        json!(["ipfs://tree"])
                    } else {
                        Value::Null
                    };
                    json!({"stages": stages.iter().map(|s| s.json(v)).collect::<Vec<_>>(), "merkle_roots": roots,
                           "merkle_tree_uris": uris, "admins": admins, "admins_mutable": mutable})
                }
                _ => {
                    let lists = parse_member_lists(kv(line, "members").unwrap_or("none"));
                    let mut m = json!({"members": lists.iter().map(|l| members_json(v, l)).collect::<Vec<_>>(),
                           "stages": stages.iter().map(|s| s.json(v)).collect::<Vec<_>>(),
                           "member_limit": limit, "admins": admins, "admins_mutable": mutable});
                    if v == V::Flex {
                        m["whale_cap"] = json!(kv_opt_u64(line, "whale").unwrap_or(None));
                    }
                    m
                }
            };
            let code = self.code[v as usize];
            let app = &mut self.app;
            // the chain-level admin (who may migrate) is a fixed account: it is not part of the whitelist's own admin list
            let r = catch(|| app.instantiate_contract(code, sender.clone(), &msg, &funds, "tiered-wl", Some(name(MIGRATOR))))?;
            return Ok(match r {
                Ok(a) => {
                    self.wl = Some(a);
                    true
                }
                Err(_) => false,
            });
        }
        let Some(wl) = self.wl.clone() else { return Ok(false) };
        if op == "migrate" {
            let code = self.code[v as usize];
            let app = &mut self.app;
            let r = catch(|| app.migrate_contract(sender.clone(), wl, &json!({}), code))?;
            return Ok(r.is_ok());
        }
        let mut funds: Vec<Coin> = vec![];
        let id = kv_u64(line, "id").unwrap_or(0);
        let msg = match op {
            "add_stage" => {
                let st = St::parse(kv(line, "stage").unwrap_or("")).ok_or("bad stage")?;
                json!({"add_stage": {"stage": st.json(v), "members": members_json(v, &kv_pairs(line, "members").unwrap_or_default())}})
            }
            "remove_stage" => json!({"remove_stage": {"stage_id": id}}),
            "update_stage" => {
                let mut m = json!({
                    "stage_id": id,
                    "name": kv_opt_u64(line, "name").unwrap_or(None).map(stage_name),
                    "start_time": kv_opt_u64(line, "start").unwrap_or(None).map(|x| x.to_string()),
                    "end_time": kv_opt_u64(line, "stop").unwrap_or(None).map(|x| x.to_string()),
                    "mint_price": match kv(line, "price").unwrap_or("-") {
                        "-" => Value::Null,
                        p => { let (d, a) = parse_pairs(p)[0]; json!({"denom": denom(d as u64), "amount": a.to_string()}) }
                    },
                    "mint_count_limit": match kv(line, "mcl").unwrap_or("-") { "-" | "none" => Value::Null, x => json!(x.parse::<u64>().unwrap_or(0)) },
                });
                if v != V::Flex {
                    m["per_address_limit"] = json!(kv_opt_u64(line, "pal").unwrap_or(None));
                }
                json!({ "update_stage_config": m })
            }
            "add_members" => json!({"add_members": {"to_add": members_json(v, &kv_pairs(line, "members").unwrap_or_default()), "stage_id": id}}),
            "remove_members" => {
                let l: Vec<String> = kv_list(line, "addrs").unwrap_or_default().iter().map(|a| name(*a as u64)).collect();
                json!({"remove_members": {"to_remove": l, "stage_id": id}})
            }
            "increase_limit" => {
                funds = coins_of(&kv_pairs(line, "funds").unwrap_or_default());
                json!({"increase_member_limit": kv_u64(line, "limit").unwrap_or(0)})
            }
            "update_admins" => {
                let l: Vec<String> = kv_list(line, "admins").unwrap_or_default().iter().map(|a| name(*a as u64)).collect();
                json!({"update_admins": {"admins": l}})
            }
            "freeze" => json!({"freeze": {}}),
            "unk" => {
                // a message outside the known surface: raw JSON, minimal arguments derived from the crate's own schema
                let vname = kv(line, "name").unwrap_or("c13_no_such_message").to_string();
                let arg = kv_u64(line, "arg").unwrap_or(0);
                let text = if arg >= 4 { name(ADMIN) } else { "0".to_string() };
                let sf = &self.surface[v as usize];
                match sf.variants.iter().find(|(n, _)| *n == vname) {
                    Some((_, Value::Null)) => json!(vname),
                    Some((_, sch)) => json!({ vname: minimal(sch, &sf.defs, arg % 4, &text, 0) }),
                    None => json!({ vname: {} }),
                }
            }
            _ => return Err("bad-op".into()),
        };
        self.fund(&sender, &funds);
        let app = &mut self.app;
        let r = catch(|| app.execute_contract(sender.clone(), wl, &msg, &funds))?;
        Ok(r.is_ok())
    }

    fn rebuild(&mut self) {
        let log = self.log.clone();
        let (app, code) = fresh_app();
        self.app = app;
        self.code = code;
        self.wl = None;
        for l in &log {
            let _ = self.apply(l);
        }
    }

    fn viol(&mut self, op: &str, pred: &str, what: String) {
        if self.pending.is_none() {
            self.pending = Some((format!("tiered-{}/{}/{}", self.v.name(), op, pred), what));
        }
    }

    /// would this instantiate pass every check that is NOT about the schedule? (same message, canonical valid schedule)
    fn probe_inst_env(&mut self, line: &str) -> bool {
        let now = kv_u64(line, "now").unwrap_or(T0);
        let n = parse_stages(kv(line, "stages").unwrap_or("-")).len();
        let line2 = replace_kv(line, "stages", &canon_stages_line(now, n));
        let saved = self.wl.clone();
        let r = match self.apply(&line2) {
            Ok(b) => b,
            Err(_) => {
                self.rebuild();
                false
            }
        };
        self.wl = saved;
        r
    }

    /// was a failed add_stage rejected because of its MEMBER LIST? (the same stage with no members is accepted; undone at once)
    fn probe_add_stage_members(&mut self, line: &str) -> bool {
        if kv(line, "members").unwrap_or("-") == "-" {
            return false;
        }
        let line2 = replace_kv(line, "members", "-");
        match self.apply(&line2) {
            Ok(true) => {
                let n = self.snap().map(|s| s.stages.len()).unwrap_or(0);
                let undo = format!("remove_stage now={} sender={} id={}", kv_u64(line, "now").unwrap_or(T0), kv_u64(line, "sender").unwrap_or(ADMIN), n.saturating_sub(1));
                if !matches!(self.apply(&undo), Ok(true)) {
                    self.rebuild();
                }
                true
            }
            Ok(false) => false,
            Err(_) => {
                self.rebuild();
                false
            }
        }
    }

    /// clause 1: never more than three stages, start < end, a stage never starts before the previous one ends
    fn check_chain(&mut self, op: &str, post: &Snap) {
        let s = &post.stages;
        if s.len() > 3 {
            self.viol(op, "more-than-three-stages", format!("{} stages stored", s.len()));
        }
        for i in 0..s.len() {
            if !(s[i].start < s[i].stop) {
                self.viol(op, "start-not-before-end", format!("stage {i}: start {} end {}", s[i].start, s[i].stop));
            }
            for j in i + 1..s.len() {
                if s[j].start < s[i].stop {
                    self.viol(op, "stage-starts-before-previous-ends", format!("stage {j} starts {} before stage {i} ends {}", s[j].start, s[i].stop));
                }
            }
        }
    }

    /// the ghost: what the accepted line configured (nothing else)
    fn ghost_apply(&mut self, op: &str, line: &str) {
        let v = self.v;
        let norm = |mut st: St| {
            if v == V::Flex {
                st.pal = 0;
            }
            st
        };
        let add = |m: &mut BTreeMap<u64, u64>, l: &[(u128, u128)]| {
            for (a, c) in l {
                m.entry(*a as u64).or_insert(if v == V::Flex { *c as u64 } else { 1 });
            }
        };
        let id = kv_u64(line, "id").unwrap_or(0) as usize;
        match op {
            "inst" => {
                let stages: Vec<St> = parse_stages(kv(line, "stages").unwrap_or("-")).into_iter().map(norm).collect();
                let lists = parse_member_lists(kv(line, "members").unwrap_or("none"));
                let mut members = vec![BTreeMap::new(); stages.len()];
                if v != V::Merkle {
                    for (k, l) in lists.iter().enumerate().take(stages.len()) {
                        add(&mut members[k], l);
                    }
                }
                self.ghost = Ghost { stages, members };
            }
            "add_stage" => {
                if let Some(st) = St::parse(kv(line, "stage").unwrap_or("")) {
                    self.ghost.stages.push(norm(st));
                    let mut m = BTreeMap::new();
                    add(&mut m, &kv_pairs(line, "members").unwrap_or_default());
                    self.ghost.members.push(m);
                }
            }
            "remove_stage" => {
                self.ghost.stages.truncate(id);
                self.ghost.members.truncate(id);
            }
            "update_stage" => {
                if let Some(st) = self.ghost.stages.get_mut(id) {
                    if let Some(Some(x)) = kv_opt_u64(line, "name") {
                        st.name = x;
                    }
                    if let Some(Some(x)) = kv_opt_u64(line, "start") {
                        st.start = x;
                    }
                    if let Some(Some(x)) = kv_opt_u64(line, "stop") {
                        st.stop = x;
                    }
                    if let Some(p) = kv(line, "price").filter(|p| *p != "-") {
                        if let Some((d, a)) = parse_pairs(p).first() {
                            st.denom = *d as u64;
                            st.price = *a;
                        }
                    }
                    if v != V::Flex {
                        if let Some(Some(x)) = kv_opt_u64(line, "pal") {
                            st.pal = x;
                        }
                    }
                    if let Some(m) = kv(line, "mcl").filter(|m| *m != "-" && *m != "none") {
                        st.mcl = m.parse().ok();
                    }
                }
            }
            "add_members" => {
                if let Some(m) = self.ghost.members.get_mut(id) {
                    add(m, &kv_pairs(line, "members").unwrap_or_default());
                }
            }
            "remove_members" => {
                if let Some(m) = self.ghost.members.get_mut(id) {
                    for a in kv_list(line, "addrs").unwrap_or_default() {
                        m.remove(&(a as u64));
                    }
                }
            }
            _ => {}
        }
    }
    fn ghost_resync(&mut self, post: &Snap) {
        let mut members = vec![BTreeMap::new(); post.stages.len()];
        for ((k, a), c) in &post.members {
            if let Some(m) = members.get_mut(*k as usize) {
                m.insert(*a, *c);
            }
        }
        self.ghost = Ghost { stages: post.stages.clone(), members };
    }

    fn exec_msg(&mut self, line: &str) -> (String, String) {
        let op = line.split_whitespace().next().unwrap_or("").to_string();
        let now = kv_u64(line, "now").unwrap_or(T0);
        let v = self.v;
        let had_contract = self.wl.is_some();
        let pre = if op == "inst" { None } else { self.pre.clone() };
        let ok = match self.apply(line) {
            Ok(b) => b,
            Err(_) => {
                self.rebuild();
                false
            }
        };
        if ok {
            self.log.push(line.to_string());
        }
        // ---- witnesses: what the implementation decided in areas C13 does not own
        let mut model_line = line.to_string();
        let mut extra = String::new();
        match op.as_str() {
            "inst" => {
                let n = parse_stages(kv(line, "stages").unwrap_or("-")).len();
                if ok {
                    extra = " env=1".into();
                } else if (1..=3).contains(&n) {
                    let env = self.probe_inst_env(line);
                    if !env {
                        model_line.push_str(" envok=0");
                    }
                    extra = format!(" env={}", env as u8);
                    self.marks.push(format!("{}:inst-rejected:{}", v.name(), if env { "schedule" } else { "other-rule" }));
                } else {
                    extra = " env=-".into();
                }
            }
            "add_stage" => {
                if ok {
                    extra = " menv=1".into();
                } else if had_contract && self.probe_add_stage_members(line) {
                    model_line.push_str(" menv=0");
                    extra = " menv=0".into();
                    self.marks.push(format!("{}:add_stage-rejected:member-list", v.name()));
                } else {
                    extra = " menv=-".into();
                }
            }
            "add_members" | "remove_members" | "increase_limit" | "update_admins" | "freeze" => {
                model_line.push_str(&format!(" res={}", ok as u8));
                extra = format!(" res={}", ok as u8);
            }
            "migrate" | "unk" => extra = format!(" res={}", ok as u8),
            _ => {}
        }

        let known_op = !matches!(op.as_str(), "migrate" | "unk");
        if ok && known_op {
            self.ghost_apply(&op, line);
        }
        let post = self.snap();
        if let Some(post) = &post {
            self.check_chain(&op, post);
            let grew = pre.as_ref().map(|p| post.stages.len() > p.stages.len()).unwrap_or(false);
            if (ok && (op == "inst" || op == "add_stage")) || grew {
                // "created with one to three stages … the first stage starts in the future whenever stages are created or added"
                if post.stages.is_empty() || post.stages.len() > 3 {
                    self.viol(&op, "stage-count-not-1-to-3", format!("{} stages after `{line}`", post.stages.len()));
                } else if !(post.stages[0].start > now) {
                    self.viol(&op, "first-stage-not-in-future", format!("first stage starts {} at now {now}", post.stages[0].start));
                }
            }
            // every stored member entry belongs to an existing stage (nothing of a removed stage is left behind)
            if let Some(((k, a), _)) = post.members.range((post.stages.len() as u64, 0)..).next() {
                self.viol(&op, "members-of-nonexistent-stage", format!("entry (stage {k}, address {a}) stored while only {} stages exist ({} such entries)", post.stages.len(), post.count_from(post.stages.len() as u64)));
            }
            if let Some(pre) = &pre {
                // "A stage can be removed only before it starts, and removing it removes every later stage together with all their
                // members." — judged on what ANY message (known, unknown, migrate) did to the stored stage list
                let (n0, n1) = (pre.stages.len(), post.stages.len());
                if n1 < n0 {
                    for j in n1..n0 {
                        if !(now < pre.stages[j].start) {
                            self.viol(&op, "removed-after-start", format!("stage {j} (start {}) disappeared at now {now} by `{}`", pre.stages[j].start, line.chars().take(120).collect::<String>()));
                        }
                    }
                    if post.stages[..] != pre.stages[..n1] {
                        self.viol(&op, "kept-stages-changed-by-removal", format!("stages {} -> {}", stages_line(&pre.stages), stages_line(&post.stages)));
                    }
                    let gone = pre.count_from(n1 as u64);
                    if post.count_from(n1 as u64) > 0 {
                        self.viol(&op, "members-of-removed-stage-remain", format!("{} of {gone} entries of the removed stages are still stored", post.count_from(n1 as u64)));
                    }
                    for k in 0..n1 as u64 {
                        if post.of_stage(k) != pre.of_stage(k) {
                            self.viol(&op, "members-of-kept-stage-changed", format!("stage {k}"));
                        }
                    }
                    if v != V::Merkle && post.num + gone != pre.num {
                        self.viol(&op, "num-members-not-reduced-exactly", format!("num_members {} -> {}, {gone} entries removed", pre.num, post.num));
                    }
                    if op == "remove_stage" {
                        let id = kv_u64(line, "id").unwrap_or(0) as usize;
                        if n1 != id {
                            self.viol(&op, "later-stages-not-removed", format!("remove_stage {id} left {n1} of {n0} stages: {}", stages_line(&post.stages)));
                        }
                        let biggest = (n1..n0).map(|k| pre.of_stage(k as u64).len()).max().unwrap_or(0);
                        self.marks.push(format!("{}:remove-ok:largest-stage:{}", v.name(), if biggest > 100 { ">100" } else if biggest > 25 { ">25" } else { "<=25" }));
                    }
                } else if ok && op == "remove_stage" {
                    self.viol(&op, "removed-nonexistent-stage", format!("`{line}` accepted, stage list unchanged"));
                }
            }
            if known_op {
                // what is stored = what was sent (stage windows / price / limit; member ADDRESS sets per stage)
                let gs = &self.ghost.stages;
                if gs.len() != post.stages.len() || gs.iter().zip(post.stages.iter()).any(|(a, b)| !a.same_p(b)) {
                    let w = format!("sent {} stored {}", stages_line(gs), stages_line(&post.stages));
                    self.viol(&op, "stored-stages-ne-sent", w);
                } else if v != V::Merkle {
                    for k in 0..post.stages.len().max(self.ghost.members.len()) {
                        let sent: Vec<u64> = self.ghost.members.get(k).map(|m| m.keys().copied().collect()).unwrap_or_default();
                        let stored: Vec<u64> = post.of_stage(k as u64).iter().map(|(a, _)| *a).collect();
                        if sent != stored {
                            let w = format!("stage {k}: {} addresses sent, {} stored; first difference {:?}", sent.len(), stored.len(), sent.iter().zip(stored.iter()).find(|(a, b)| a != b));
                            self.viol(&op, "stored-members-ne-sent", w);
                            break;
                        }
                    }
                }
            } else if ok {
                self.ghost_resync(post);
            }
        }
        self.pre = post;
        let out = match op.as_str() {
            "migrate" | "unk" => {
                if self.wl.is_some() {
                    let (p, d) = self.summary();
                    format!("fr {p} ## {d}{extra}")
                } else {
                    "err".into()
                }
            }
            _ => {
                if ok {
                    let (p, d) = self.summary();
                    format!("ok {p} ## {d}{extra}")
                } else if extra.is_empty() {
                    "err".into()
                } else {
                    format!("err ##{extra}")
                }
            }
        };
        (model_line, out)
    }

    fn exec_query(&mut self, line: &str) -> (String, String) {
        let now = kv_u64(line, "now").unwrap_or(T0);
        if self.wl.is_none() {
            return (line.to_string(), "err".into());
        }
        self.set_time(now);
        let v = self.v;
        let lb = v != V::Merkle;
        let probes: Vec<u64> = kv_list(line, "probes").unwrap_or_default().iter().map(|x| *x as u64).collect();
        let b01 = |b: bool| if b { "1" } else { "0" };
        let join = |l: Vec<String>, sep: &str| if l.is_empty() { "-".to_string() } else { l.join(sep) };
        let snap = self.snap();
        let nst = snap.as_ref().map(|s| s.stages.len()).unwrap_or(0) as u64;

        let act = self.q(json!({"active_stage_id": {}})).and_then(|x| x.as_u64());
        let is = self.q(json!({"is_active": {}})).and_then(|x| x["is_active"].as_bool());
        let hs = self.q(json!({"has_started": {}})).and_then(|x| x["has_started"].as_bool());
        let he = self.q(json!({"has_ended": {}})).and_then(|x| x["has_ended"].as_bool());
        let cfg = self.q(json!({"config": {}}));
        let asg = self.q(json!({"active_stage": {}}));
        let ob = |o: Option<bool>| o.map(|b| b01(b).to_string()).unwrap_or("e".into());
        let cfg_active = cfg.as_ref().and_then(|c| c["is_active"].as_bool());
        let cfg_p = match &cfg {
            Some(c) if cfg_active == Some(true) => format!(
                "1:{}:{}:{}:{}:{}",
                c["start_time"].as_str().unwrap_or("?"),
                c["end_time"].as_str().unwrap_or("?"),
                denom_id(c["mint_price"]["denom"].as_str().unwrap_or("")),
                c["mint_price"]["amount"].as_str().unwrap_or("?"),
                c["per_address_limit"].as_u64().unwrap_or(0)
            ),
            Some(_) => "0".into(),
            None => "e".into(),
        };
        let cfg_x = match &cfg {
            Some(c) => format!(
                "{}:{}:{}:{}:{}:{}:{}:{}:{}",
                c["num_members"].as_u64().unwrap_or(0),
                c["per_address_limit"].as_u64().unwrap_or(0),
                c["member_limit"].as_u64().unwrap_or(0),
                c["start_time"].as_str().unwrap_or("?"),
                c["end_time"].as_str().unwrap_or("?"),
                denom_id(c["mint_price"]["denom"].as_str().unwrap_or("")),
                c["mint_price"]["amount"].as_str().unwrap_or("?"),
                b01(c["is_active"].as_bool().unwrap_or(false)),
                fmt_opt(&c["whale_cap"].as_u64())
            ),
            None => "e".into(),
        };
        let as_st: Option<Option<St>> = match &asg {
            Some(Value::Null) => Some(None),
            Some(j) => St::from_json(j).map(Some),
            None => None,
        };
        let (as_p, as_x) = match &as_st {
            Some(None) => ("-".to_string(), "-".to_string()),
            Some(Some(st)) => (st.p(), st.x()),
            None => ("e".into(), "e".into()),
        };
        let (sl_p, sl_x) = match self.q(json!({"stages": {}})) {
            Some(r) => {
                let l: Vec<(String, String)> = r["stages"].as_array().cloned().unwrap_or_default().iter().map(|x| match St::from_json(&x["stage"]) {
                    Some(st) => {
                        if lb {
                            (st.p(), format!("{}@{}", st.x(), x["member_count"].as_u64().unwrap_or(0)))
                        } else {
                            (format!("{}@{}", st.p(), root_to_nat(x["merkle_root"].as_str().unwrap_or("")).map(|n| n.to_string()).unwrap_or("?".into())), st.x())
                        }
                    }
                    None => ("?".into(), "?".into()),
                }).collect();
                (join(l.iter().map(|x| x.0.clone()).collect(), ";"), join(l.iter().map(|x| x.1.clone()).collect(), ";"))
            }
            None => ("e".into(), "e".into()),
        };
        let qs: Vec<(String, String)> = (0..4).map(|i| self.stage_q(i)).collect();

        let mut hm_v: Vec<Option<bool>> = vec![];
        let mut mb_v: Vec<Option<u64>> = vec![];
        let x = || "x".to_string();
        let (mut hm, mut mb, mut smi, mut smip, mut smio, mut asmi, mut asmip, mut ms) = (x(), x(), x(), x(), x(), x(), x(), x());
        let mut paged: Vec<Option<Vec<(u64, u64)>>> = vec![];
        if lb {
            for a in &probes {
                hm_v.push(self.q(json!({"has_member": {"member": name(*a)}})).and_then(|r| r["has_member"].as_bool()));
            }
            hm = join(hm_v.iter().map(|o| ob(*o)).collect(), ",");
            if v == V::Flex {
                for a in &probes {
                    mb_v.push(self.q(json!({"member": {"member": name(*a)}})).and_then(|r| r["mint_count"].as_u64()));
                }
                mb = join(mb_v.iter().map(|o| o.map(|n| n.to_string()).unwrap_or("e".into())).collect(), ",");
            }
            // StageMemberInfo: `is_member` for the existing stages is primary; the limit half and ids beyond the list are drift
            let smi_all: Vec<Vec<Option<(bool, u64)>>> = probes.iter().map(|a| {
                (0..4u64).map(|id| self.q(json!({"stage_member_info": {"stage_id": id, "member": name(*a)}})).map(|r| (r["is_member"].as_bool().unwrap_or(false), r["per_address_limit"].as_u64().unwrap_or(0)))).collect()
            }).collect();
            let fb = |o: &Option<(bool, u64)>| o.map(|(b, _)| b01(b).to_string()).unwrap_or("e".into());
            let fp = |o: &Option<(bool, u64)>| o.map(|(_, p)| p.to_string()).unwrap_or("e".into());
            let n = (nst as usize).min(4);
            smi = join(smi_all.iter().map(|r| join(r[..n].iter().map(fb).collect(), "+")).collect(), ",");
            smip = join(smi_all.iter().map(|r| join(r[..n].iter().map(fp).collect(), "+")).collect(), ",");
            smio = join(smi_all.iter().map(|r| join(r[n..].iter().map(|o| format!("{}:{}", fb(o), fp(o))).collect(), "+")).collect(), ",");
            let asmi_all: Vec<Option<Vec<(bool, u64)>>> = probes.iter().map(|a| {
                self.q(json!({"all_stage_member_info": {"member": name(*a)}})).map(|r| r["all_stage_member_info"].as_array().cloned().unwrap_or_default().iter().map(|x| (x["is_member"].as_bool().unwrap_or(false), x["per_address_limit"].as_u64().unwrap_or(0))).collect())
            }).collect();
            asmi = join(asmi_all.iter().map(|o| o.as_ref().map(|l| join(l.iter().map(|(b, _)| b01(*b).to_string()).collect(), "+")).unwrap_or("e".into())).collect(), ",");
            asmip = join(asmi_all.iter().map(|o| o.as_ref().map(|l| join(l.iter().map(|(_, p)| p.to_string()).collect(), "+")).unwrap_or("e".into())).collect(), ",");
            for k in 0..4 {
                paged.push(self.members_paged(k));
            }
            // the compared member map is the STORED one (the Members query is judged against it by a monitor)
            ms = match &snap {
                Some(s) if s.typed => (0..4).map(|k| fmt_pairs(&s.of_stage(k))).collect::<Vec<_>>().join("/"),
                _ => paged.iter().map(|l| l.as_ref().map(|l| fmt_pairs(l)).unwrap_or("e".into())).collect::<Vec<_>>().join("/"),
            };
        } else if self.q(json!({"members": {"start_after": null, "limit": 1, "stage_id": 0}})).is_some() {
            self.marks.push("merkle:members-query-answered".into());
            self.notes.insert("the Merkle contract answers a `Members` query (it has no member list in the modelled code)".into());
        }
        let ce = join(
            probes.iter().map(|a| {
                self.q(json!({"can_execute": {"sender": name(*a), "msg": {"bank": {"send": {"to_address": "x", "amount": []}}}}}))
                    .and_then(|r| r["can_execute"].as_bool()).map(|b| b01(b).to_string()).unwrap_or("e".into())
            }).collect(),
            ",",
        );
        // Merkle probes: `mk=<member>:<hex+hex|->,…`
        let mut folded: Vec<Option<u128>> = vec![];
        let mut mk_v: Vec<Option<bool>> = vec![];
        let mut mk = "x".to_string();
        let mut roots_s = "x".to_string();
        if !lb {
            let mkv = kv(line, "mk").unwrap_or("-");
            if mkv != "-" {
                for p in mkv.split(',') {
                    let (m, pr) = p.split_once(':').unwrap_or((p, "-"));
                    let member = name(m.parse().unwrap_or(0));
                    let proof: Vec<String> = if pr == "-" { vec![] } else { pr.split('+').map(String::from).collect() };
                    folded.push(fold_proof(&member, &proof));
                    mk_v.push(self.q(json!({"has_member": {"member": member, "proof_hashes": proof}})).and_then(|r| r["has_member"].as_bool()));
                }
            }
            mk = join(mk_v.iter().map(|o| ob(*o)).collect(), ",");
            roots_s = match self.q(json!({"merkle_roots": {}})) {
                Some(r) => fmt_list(&r["merkle_roots"].as_array().cloned().unwrap_or_default().iter().map(|x| root_to_nat(x.as_str().unwrap_or("")).unwrap_or(0)).collect::<Vec<_>>()),
                None => "e".into(),
            };
        }

        // ---------------------------------------------------------------- monitors
        if let Some(snap) = &snap {
            self.check_chain("q", snap);
            let s = &snap.stages;
            let containing: Vec<usize> = (0..s.len()).filter(|i| s[*i].contains(now)).collect();
            // "At any instant at most one stage is reported active, namely the earliest stage whose window (both ends inclusive) contains the current time"
            let want = containing.first().copied();
            if act != Some(want.map(|i| i as u64 + 1).unwrap_or(0)) {
                self.viol("q", "active-stage-id-not-earliest-containing", format!("now {now}: ActiveStageId={:?}, windows containing now: {:?} in {}", act, containing, stages_line(s)));
            }
            let as_ok = match (&as_st, want) {
                (Some(None), None) => true,
                (Some(Some(st)), Some(i)) => st.same_p(&s[i]),
                _ => false,
            };
            if !as_ok {
                self.viol("q", "active-stage-not-earliest-containing", format!("now {now}: ActiveStage={as_p}, expected {}", want.map(|i| s[i].p()).unwrap_or("-".into())));
            }
            if is != Some(want.is_some()) || cfg_active != Some(want.is_some()) {
                self.viol("q", "is-active-mismatch", format!("now {now}: IsActive={:?} Config.is_active={:?}, expected {}", is, cfg_active, want.is_some()));
            }
            if containing.len() > 2 {
                self.viol("q", "three-windows-contain-instant", format!("now {now}: {:?}", containing));
            }
            if containing.len() == 2 {
                let (i, j) = (containing[0], containing[1]);
                if !(s[i].stop == now && s[j].start == now && j == i + 1) {
                    self.viol("q", "two-windows-overlap-without-touching", format!("now {now}: stages {i},{j} of {}", stages_line(s)));
                }
                self.marks.push(format!("{}:q:two-windows-touch", v.name()));
            }
            // "membership, price and per-address limit answers come from that stage only (no active stage means no member)"
            if let Some(i) = want {
                let exp = format!("1:{}", s[i].p());
                if cfg_p != exp {
                    self.viol("q", "config-not-from-active-stage", format!("now {now}: Config {cfg_p}, active stage {i} = {}", s[i].p()));
                }
            }
            if lb {
                let ghost_has = |k: usize, a: u64| self.ghost.members.get(k).map(|m| m.contains_key(&a)).unwrap_or(false);
                let mut found: Option<(&'static str, String)> = None;
                let mut marks: Vec<String> = vec![];
                for (n, a) in probes.iter().enumerate() {
                    if *a == 0 {
                        // a string that is not an address: never a member
                        if hm_v[n] == Some(true) {
                            found.get_or_insert(("has-member-invalid-address", format!("now {now}: HasMember(invalid address) = true")));
                        }
                        continue;
                    }
                    // truth: the harness put this address into the active stage itself (ghost), nothing else counts
                    let exp = want.map(|i| ghost_has(i, *a)).unwrap_or(false);
                    if hm_v[n] != Some(exp) {
                        found.get_or_insert(("has-member-not-from-active-stage", format!("now {now}: HasMember({a})={:?}, active stage {:?}; the harness added {a} to stages {:?}", hm_v[n], want, (0..self.ghost.members.len()).filter(|k| ghost_has(*k, *a)).collect::<Vec<_>>())));
                    }
                    if exp {
                        marks.push(format!("{}:hm:true", v.name()));
                    } else if (0..self.ghost.members.len()).any(|k| ghost_has(k, *a)) {
                        marks.push(format!("{}:hm:false-though-member-of-{}", v.name(), if want.is_some() { "another-stage" } else { "a-stage-none-active" }));
                    }
                    if v == V::Flex {
                        let expc = want.and_then(|i| snap.members.get(&(i as u64, *a)).copied()).filter(|_| exp);
                        if mb_v[n] != expc {
                            found.get_or_insert(("member-not-from-active-stage", format!("now {now}: Member({a})={:?}, expected {:?}", mb_v[n], expc)));
                        }
                    }
                }
                self.marks.extend(marks);
                if let Some((k, w)) = found {
                    self.viol("q", k, w);
                }
                // the Members query (paged to exhaustion) against what is stored
                for k in 0..4u64 {
                    if let Some(Some(l)) = paged.get(k as usize) {
                        let stored = snap.of_stage(k);
                        if snap.typed && *l != stored {
                            self.viol("q", "members-query-ne-stored", format!("stage {k}: Members lists {} entries, {} are stored", l.len(), stored.len()));
                        }
                        if l.len() > 100 {
                            self.marks.push(format!("{}:q:members-paged:>100", v.name()));
                        } else if l.len() > 25 {
                            self.marks.push(format!("{}:q:members-paged:>25", v.name()));
                        }
                    }
                }
            } else {
                for (n, f) in folded.iter().enumerate() {
                    let exp: Option<bool> = match (want, f) {
                        (Some(i), Some(f)) => snap.roots.get(i).map(|r| root_to_nat(r) == Some(*f)),
                        _ => None, // no active stage / malformed proof: must not answer
                    };
                    if mk_v[n] != exp {
                        self.viol("q", "merkle-has-member-not-from-active-root", format!("now {now}: HasMember#{n}={:?}, expected {:?} (active {:?})", mk_v[n], exp, want));
                    }
                    if want.is_none() && mk_v[n].is_some() {
                        self.viol("q", "merkle-member-without-active-stage", format!("now {now}: HasMember#{n}={:?}", mk_v[n]));
                    }
                    if exp == Some(true) {
                        self.marks.push("merkle:mk:true".into());
                    } else if exp == Some(false) && f.is_some() && snap.roots.iter().any(|r| root_to_nat(r) == *f) {
                        self.marks.push("merkle:mk:false-proof-of-another-stage".into());
                    }
                }
            }
        }

        let out = format!(
            "ok act={} is={} cfg={cfg_p} as={as_p} sl={sl_p} st={} hm={hm} mb={mb} smi={smi} asmi={asmi} ms={ms} n={} mk={mk} roots={roots_s} ## hs={} he={} cfgx={cfg_x} asx={as_x} slx={sl_x} sx={} smip={smip} smio={smio} asmip={asmip} lim={} adm={} ce={ce}",
            act.map(|x| x.to_string()).unwrap_or("e".into()),
            ob(is),
            qs.iter().map(|x| x.0.clone()).collect::<Vec<_>>().join(";"),
            cfg.as_ref().map(|c| c["num_members"].as_u64().unwrap_or(0).to_string()).unwrap_or("e".into()),
            ob(hs),
            ob(he),
            qs.iter().map(|x| x.1.clone()).collect::<Vec<_>>().join(";"),
            cfg.as_ref().map(|c| c["member_limit"].as_u64().unwrap_or(0).to_string()).unwrap_or("e".into()),
            self.admin_str()
        );
        let model_line = if lb || folded.is_empty() {
            line.to_string()
        } else {
            format!("{line} folded={}", folded.iter().map(|f| f.map(|x| x.to_string()).unwrap_or("-".into())).collect::<Vec<_>>().join(","))
        };
        (model_line, out)
    }
}

impl Sut for S {
    fn begin(&mut self, header: &str) -> (String, String) {
        self.reset();
        self.v = V::parse(kv(header, "v").unwrap_or("plain"));
        (header.to_string(), "case".to_string())
    }
    fn exec(&mut self, line: &str) -> (String, String) {
        let op = line.split_whitespace().next().unwrap_or("");
        if op == "q" {
            self.exec_query(line)
        } else {
            self.exec_msg(line)
        }
    }
    fn monitor(&mut self) -> Option<(String, String)> {
        self.pending.take()
    }
}

/// `ses.step` + hand the classes the SUT observed to the session
fn step(ses: &mut Session, sut: &mut S, line: &str) -> String {
    let out = ses.step(sut, line);
    for m in sut.marks.drain(..) {
        ses.mark(m);
    }
    out
}

// ------------------------------------------------------------------------------------------------ generators

const ADMIN: u64 = 7;
const ADMIN2: u64 = 8;
const STRANGER: u64 = 9;
const POOL: [u64; 6] = [10, 11, 12, 13, 14, 15];

fn fee_for(v: V, limit: u64) -> u128 {
    match v {
        V::Merkle => 1_000_000_000,
        _ => ((limit as u128 + 999) / 1000) * 100_000_000,
    }
}

struct MerkleCtx {
    /// per stage: the members of its tree
    trees: Vec<Vec<u64>>,
}
impl MerkleCtx {
    fn roots(&self) -> Vec<String> {
        self.trees.iter().map(|m| tree_root_hex(&build_tree(m))).collect()
    }
    /// probes: every (member, proof from tree j) pair + a few malformed
    fn probes(&self, rng: &mut Rng) -> String {
        let mut v: Vec<String> = vec![];
        for t in &self.trees {
            let tree = build_tree(t);
            for (i, m) in t.iter().enumerate() {
                let p = tree_proof_hex(&tree, i);
                v.push(format!("{}:{}", m, if p.is_empty() { "-".to_string() } else { p.join("+") }));
            }
        }
        // a non-member with someone else's proof, and one malformed proof element
        v.push(format!("{}:-", 19));
        if rng.chance(1, 3) {
            v.push(format!("{}:{}", 10, "zz"));
        }
        if rng.chance(1, 3) {
            v.push(format!("{}:{}", 10, "00112233445566778899aabbccddeeff"));
        }
        v.sort();
        v.dedup();
        v.join(",")
    }
}

fn default_stage(k: u64, start: u64, stop: u64) -> St {
    St { name: k, start, stop, denom: 0, price: 100 + k as u128, pal: 1 + k, mcl: if k == 1 { Some(50) } else { None } }
}

#[allow(clippy::too_many_arguments)]
fn inst_line(v: V, now: u64, sender: u64, funds: &[(u128, u128)], limit: u64, whale: Option<u64>, admins: &[u64], mutable: bool, stages: &[St], members: &[Vec<(u128, u128)>], roots: &[String], uribad: bool) -> String {
    let _ = v;
    format!(
        "inst now={now} sender={sender} funds={} limit={limit} whale={} admins={} mutable={} stages={} members={} roots={} uribad={}",
        fmt_pairs(funds),
        fmt_opt(&whale),
        fmt_list(admins),
        mutable as u8,
        stages_line(stages),
        member_lists_line(members),
        if roots.is_empty() { "-".to_string() } else { roots.join(",") },
        uribad as u8
    )
}

/// a standard, valid instantiate for `stages` with member 10+j (count j+2) in stage j, and the shared member 15 everywhere
fn std_inst(v: V, now: u64, stages: &[St], mk: &mut MerkleCtx) -> String {
    let members: Vec<Vec<(u128, u128)>> = (0..stages.len()).map(|j| vec![(10 + j as u128, 2 + j as u128), (15, 7)]).collect();
    mk.trees = (0..stages.len()).map(|j| vec![10 + j as u64, 15]).collect();
    let limit = 10;
    inst_line(v, now, ADMIN, &[(0, fee_for(v, limit))], limit, None, &[ADMIN, ADMIN2], true, stages, &members, &mk.roots(), false)
}

fn q_line(v: V, now: u64, probes: &[u64], mk: &MerkleCtx, rng: &mut Rng) -> String {
    if v == V::Merkle {
        format!("q now={now} probes={} mk={}", fmt_list(probes), mk.probes(rng))
    } else {
        format!("q now={now} probes={}", fmt_list(probes))
    }
}

/// every stage edge −1/0/+1 ns (plus the origin)
fn edges(stages: &[St]) -> Vec<u64> {
    let mut v = vec![];
    for s in stages {
        for e in [s.start, s.stop] {
            v.extend([e.saturating_sub(1), e, e + 1]);
        }
    }
    v.sort();
    v.dedup();
    v
}

fn shape_of(stages: &[St]) -> String {
    let mut tags: Vec<&str> = vec![];
    for i in 0..stages.len() {
        let a = &stages[i];
        if a.start == a.stop {
            tags.push("eq");
        } else if a.start > a.stop {
            tags.push("rev");
        }
        for b in stages.iter().skip(i + 1) {
            if b.start == a.stop {
                tags.push("touch");
            } else if b.start > a.stop {
                tags.push("gap");
            } else if b.start >= a.start && b.stop <= a.stop {
                tags.push("nested");
            } else if b.stop <= a.start {
                tags.push("swapped");
            } else {
                tags.push("overlap");
            }
        }
    }
    tags.sort();
    tags.dedup();
    format!("n{}:{}", stages.len(), tags.join("+"))
}

fn clock_class(stages: &[St], now: u64) -> String {
    let c: Vec<usize> = (0..stages.len()).filter(|i| stages[*i].contains(now)).collect();
    let edge = stages.iter().any(|s| [s.start, s.stop].iter().any(|e| now + 1 == *e || now == *e || now == *e + 1));
    let pos = if stages.is_empty() {
        "nostage".to_string()
    } else if c.len() == 2 {
        format!("touch{}", c[0])
    } else if c.len() == 1 {
        format!("in{}", c[0])
    } else if now < stages[0].start {
        "before".into()
    } else if now > stages[stages.len() - 1].stop {
        "after".into()
    } else {
        "between".into()
    };
    format!("{pos}:{}", if edge { "edge" } else { "mid" })
}

fn outcome(out: &str) -> &'static str {
    if out.starts_with("ok") {
        "ok"
    } else {
        "err"
    }
}

/// a random valid chain of n stages starting after `after`, with touching/gap joints
fn valid_chain(rng: &mut Rng, n: usize, after: u64) -> Vec<St> {
    let mut t = after + rng.range(1, 3);
    let mut v = vec![];
    for k in 0..n {
        let start = t;
        let stop = start + rng.range(1, 4);
        v.push(St { name: k as u64, start, stop, denom: 0, price: rng.range(0, 500) as u128, pal: rng.range(1, 30), mcl: if rng.chance(1, 3) { Some(rng.range(1, 100)) } else { None } });
        t = if rng.chance(1, 2) { stop } else { stop + rng.range(1, 3) };
    }
    v
}

/// single-fault mutations of a stage list (window shapes + the non-window checks)
fn mutate_stages(rng: &mut Rng, v: V, now: u64, st: &mut Vec<St>) -> &'static str {
    if st.is_empty() {
        return "none";
    }
    let i = rng.below(st.len() as u64) as usize;
    let kind = rng.below(14);
    match kind {
        0 => {
            st[i].stop = st[i].start;
            "equal-endpoints"
        }
        1 => {
            let (a, b) = (st[i].start, st[i].stop);
            st[i].start = b;
            st[i].stop = a;
            "reversed"
        }
        2 if st.len() > 1 => {
            let j = (i + 1) % st.len();
            st.swap(i, j);
            "swapped-order"
        }
        3 if i + 1 < st.len() => {
            st[i + 1].start = st[i].stop - 1;
            if st[i + 1].stop <= st[i + 1].start {
                st[i + 1].stop = st[i + 1].start + 1;
            }
            "overlap-by-1ns"
        }
        4 if i + 1 < st.len() => {
            st[i].stop = st[i + 1].stop + 1;
            "nested"
        }
        5 if i + 1 < st.len() => {
            let c = st[i].clone();
            st[i + 1].start = c.start;
            st[i + 1].stop = c.stop;
            "identical-windows"
        }
        6 => {
            let d = st[0].start - now;
            for s in st.iter_mut() {
                s.start -= d;
                s.stop -= d;
            }
            "first-starts-now"
        }
        7 => {
            let d = st[0].start - now + 1;
            if now >= 1 {
                for s in st.iter_mut() {
                    s.start -= d;
                    s.stop -= d;
                }
            }
            "first-starts-before-now"
        }
        8 => {
            st[i].pal = 0;
            "pal-zero"
        }
        9 => {
            st[i].pal = match v {
                V::Merkle => 51,
                _ => 31,
            };
            "pal-above-max"
        }
        10 => {
            st[i].pal = match v {
                V::Merkle => 50,
                _ => 30,
            };
            "pal-at-max"
        }
        11 => {
            st[i].denom = 1;
            "denom-mismatch"
        }
        12 => {
            let c = st[st.len() - 1].clone();
            let mut k = st.len() as u64;
            while st.len() < 4 {
                st.push(St { name: k, start: c.stop + 2 * k, stop: c.stop + 2 * k + 1, ..c.clone() });
                k += 1;
            }
            "four-stages"
        }
        _ => {
            for s in st.iter_mut() {
                s.denom = 2;
            }
            "all-other-denom"
        }
    }
}

fn main() {
    let mut ses = Session::new("C13");
    let mut sut = S::new();
    if ses.maybe_replay(&mut sut) {
        ses.finish(&mut sut);
    }
    let mut rng = ses.rng.fork();
    let variants = [V::Plain, V::Flex, V::Merkle];
    let probes: Vec<u64> = vec![10, 11, 12, 15, 19];
    // + a string that is not an address
    let probes0: Vec<u64> = vec![10, 11, 12, 15, 19, 0];

    // ------------------------------------------------------------------ coverage floor: without these the run is vacuous
    for v in ["plain", "flex", "merkle"] {
        ses.require(format!("floor:{v}:inst-ok"));
        for pos in ["before", "in0", "touch0", "in1", "between", "in2", "after"] {
            ses.require(format!("floor:{v}:q:{pos}"));
        }
        ses.require(format!("{v}:q:two-windows-touch"));
        ses.require(format!("floor:{v}:update:touch:ok"));
        ses.require(format!("floor:{v}:update:overlap:err"));
        ses.require(format!("surface:{v}:enumerated"));
        ses.require(format!("surface:{v}:bogus-message:rejected"));
        ses.require(format!("floor:{v}:started-stage-survives-surface"));
    }
    for v in ["plain", "flex"] {
        ses.require(format!("floor:{v}:remove:rel-1:ok"));
        ses.require(format!("floor:{v}:remove:rel0:err"));
        ses.require(format!("floor:{v}:remove:rel-1:stranger:err"));
        ses.require(format!("floor:{v}:add_stage:first-starts-now:err"));
        ses.require(format!("floor:{v}:add_stage:first-in-future:ok"));
        ses.require(format!("floor:{v}:add_stage:first-already-started:err"));
        ses.require(format!("{v}:remove-ok:largest-stage:>100"));
        ses.require(format!("{v}:remove-ok:largest-stage:>25"));
        ses.require(format!("{v}:q:members-paged:>100"));
        ses.require(format!("{v}:q:members-paged:>25"));
        ses.require(format!("{v}:hm:true"));
        ses.require(format!("{v}:hm:false-though-member-of-another-stage"));
        ses.require(format!("{v}:hm:false-though-member-of-a-stage-none-active"));
    }
    ses.require("merkle:mk:true");
    ses.require("merkle:mk:false-proof-of-another-stage");
    ses.require("floor:merkle:migrate:accepted");
    ses.require("snap-ok:");

    // ------------------------------------------------------------------ A. window-shape grid at instantiate
    // all stage lists over endpoints {1..4} (start,end both free: touching, nested, reversed, equal, gaps, swapped),
    // instantiated at now ∈ {0,1,2}; every successful one is queried at every instant 0..6 (= every edge ±1 ns).
    {
        let grid: Vec<(u64, u64)> = (1..=4).flat_map(|a| (1..=4).map(move |b| (a, b))).collect();
        let mut lists: Vec<Vec<(u64, u64)>> = vec![];
        for a in &grid {
            lists.push(vec![*a]);
        }
        for a in &grid {
            for b in &grid {
                lists.push(vec![*a, *b]);
            }
        }
        let n3 = ses.scale(700, 4096);
        if n3 >= 4096 {
            for a in &grid {
                for b in &grid {
                    for c in &grid {
                        lists.push(vec![*a, *b, *c]);
                    }
                }
            }
            ses.exhaustive = true;
        } else {
            // all VALID three-stage chains over the grid are few; take them all + a random sample of the rest
            for a in &grid {
                for b in &grid {
                    for c in &grid {
                        let ok = a.0 < a.1 && b.0 < b.1 && c.0 < c.1 && b.0 >= a.1 && c.0 >= b.1;
                        if ok || rng.below(4096) < n3 {
                            lists.push(vec![*a, *b, *c]);
                        }
                    }
                }
            }
        }
        for v in variants {
            let mut mk = MerkleCtx { trees: vec![] };
            let chunk = 120;
            for (ci, ch) in lists.chunks(chunk).enumerate() {
                ses.begin_case(&mut sut, &format!("case v={} grid-inst chunk={ci}", v.name()));
                for l in ch {
                    let stages: Vec<St> = l.iter().enumerate().map(|(k, (a, b))| default_stage(k as u64, T0 + a, T0 + b)).collect();
                    let nows: Vec<u64> = if ses.tier() == Tier::Quick { vec![*rng.pick(&[0u64, 0, 1, 2])] } else { vec![0, 1, 2] };
                    for n in nows {
                        let now = T0 + n;
                        let out = step(&mut ses, &mut sut, &std_inst(v, now, &stages, &mut mk));
                        ses.mark(format!("{}:inst:{}:{}:first{}", v.name(), shape_of(&stages), outcome(&out), (stages[0].start as i128 - now as i128).signum()));
                        if out.starts_with("ok") {
                            ses.mark(format!("floor:{}:inst-ok", v.name()));
                            for t in 0..=6u64 {
                                step(&mut ses, &mut sut, &q_line(v, T0 + t, &probes, &mk, &mut rng));
                                ses.mark(format!("{}:q:{}", v.name(), clock_class(&stages, T0 + t)));
                            }
                        }
                    }
                }
                ses.end_case();
            }
        }
    }

    // ------------------------------------------------------------------ A2. three-stage chains with gaps (the 4-point grid cannot express them)
    // every joint ∈ {touching, 1 ns gap, 2 ns gap} × every stage length ∈ {1, 2}; queried at EVERY instant from before the
    // first start to after the last end (= every edge −1/0/+1 ns and every gap instant).
    for v in variants {
        let mut mk = MerkleCtx { trees: vec![] };
        ses.begin_case(&mut sut, &format!("case v={} gap-chains", v.name()));
        for code in 0..(3 * 3 * 8u64) {
            let (g1, g2, lens) = (code % 3, (code / 3) % 3, code / 9);
            let l = |i: u64| 1 + ((lens >> i) & 1);
            let s0 = T0 + 2;
            let e0 = s0 + l(0);
            let s1 = e0 + g1;
            let e1 = s1 + l(1);
            let s2 = e1 + g2;
            let e2 = s2 + l(2);
            let stages = vec![default_stage(0, s0, e0), default_stage(1, s1, e1), default_stage(2, s2, e2)];
            if ses.tier() == Tier::Quick && !(lens == 7 || lens == ses.args.seed % 7) {
                continue;
            }
            let out = step(&mut ses, &mut sut, &std_inst(v, T0 + *rng.pick(&[0u64, 1]), &stages, &mut mk));
            ses.mark(format!("{}:inst3:{}:{}", v.name(), shape_of(&stages), outcome(&out)));
            for t in (T0 + 1)..=(e2 + 1) {
                step(&mut ses, &mut sut, &q_line(v, t, &probes0, &mk, &mut rng));
                let cc = clock_class(&stages, t);
                ses.mark(format!("floor:{}:q:{}", v.name(), cc.split(':').next().unwrap_or("")));
                ses.mark(format!("{}:q3:{}", v.name(), cc));
            }
        }
        ses.end_case();
    }

    // ------------------------------------------------------------------ B. update_stage_config grid
    // base chain (touching + gap): [2,4] [4,6] [8,10]; every stage id 0..3 × field × every value 0..12, at a clock
    // before / inside / after the chain (validate_update has no future check), then queries at all edges ±1.
    for v in variants {
        let base: Vec<St> = vec![default_stage(0, T0 + 2, T0 + 4), default_stage(1, T0 + 4, T0 + 6), default_stage(2, T0 + 8, T0 + 10)];
        let mut mk = MerkleCtx { trees: vec![] };
        let vals: Vec<u64> = (0..=12).collect();
        for id in 0..4u64 {
            ses.begin_case(&mut sut, &format!("case v={} grid-update id={id}", v.name()));
            for field in ["start", "stop", "both"] {
                for x in &vals {
                    if field == "both" && !rng.chance(ses.scale(1, 3), 3) {
                        continue;
                    }
                    step(&mut ses, &mut sut, &std_inst(v, T0, &base, &mut mk));
                    let now = T0 + *rng.pick(&[0u64, 3, 4, 5, 7, 11]);
                    let (s, e) = match field {
                        "start" => (Some(T0 + x), None),
                        "stop" => (None, Some(T0 + x)),
                        _ => (Some(T0 + x), Some(T0 + rng.range(0, 12))),
                    };
                    let line = format!("update_stage now={now} sender={ADMIN} id={id} name=- start={} stop={} price=- pal=- mcl=-", fmt_opt(&s), fmt_opt(&e));
                    let out = step(&mut ses, &mut sut, &line);
                    let mut after = base.clone();
                    if (id as usize) < after.len() {
                        if let Some(s) = s {
                            after[id as usize].start = s;
                        }
                        if let Some(e) = e {
                            after[id as usize].stop = e;
                        }
                    }
                    ses.mark(format!("{}:update:{field}:id{id}:{}:{}", v.name(), shape_of(&after), outcome(&out)));
                    if field == "start" && id == 1 && *x == 4 && out.starts_with("ok") {
                        ses.mark(format!("floor:{}:update:touch:ok", v.name()));
                    }
                    if field == "start" && id == 1 && *x == 3 && out.starts_with("err") {
                        ses.mark(format!("floor:{}:update:overlap:err", v.name()));
                    }
                    let cur = if out.starts_with("ok") { after } else { base.clone() };
                    let ts = edges(&cur);
                    let take = if ses.tier() == Tier::Quick { 4 } else { ts.len() };
                    let mut ts2 = ts.clone();
                    rng.shuffle(&mut ts2);
                    for t in ts2.into_iter().take(take) {
                        step(&mut ses, &mut sut, &q_line(v, t, &probes, &mk, &mut rng));
                        ses.mark(format!("{}:q:{}", v.name(), clock_class(&cur, t)));
                    }
                }
            }
            ses.end_case();
        }
    }

    // ------------------------------------------------------------------ C. remove_stage at every boundary instant
    for v in [V::Plain, V::Flex, V::Merkle] {
        let base: Vec<St> = vec![default_stage(0, T0 + 2, T0 + 4), default_stage(1, T0 + 4, T0 + 6), default_stage(2, T0 + 8, T0 + 10)];
        let mut mk = MerkleCtx { trees: vec![] };
        ses.begin_case(&mut sut, &format!("case v={} remove-grid", v.name()));
        let mut ts = edges(&base);
        ts.insert(0, T0);
        for id in 0..4u64 {
            for t in &ts {
                for sender in [ADMIN, STRANGER] {
                    let rel = base.get(id as usize).map(|s| (*t as i128 - s.start as i128).clamp(-2, 2)).unwrap_or(99);
                    // the stranger only where the admin would be accepted (1 ns before the start) and at the start itself
                    if sender == STRANGER && !(rel == -1 || rel == 0) {
                        continue;
                    }
                    step(&mut ses, &mut sut, &std_inst(v, T0, &base, &mut mk));
                    let out = step(&mut ses, &mut sut, &format!("remove_stage now={t} sender={sender} id={id}"));
                    ses.mark(format!("{}:remove:id{id}:rel{rel}:{}:{}", v.name(), if sender == ADMIN { "admin" } else { "stranger" }, outcome(&out)));
                    if id == 1 {
                        ses.mark(format!("floor:{}:remove:rel{rel}:{}{}", v.name(), if sender == ADMIN { "" } else { "stranger:" }, outcome(&out)));
                    }
                    step(&mut ses, &mut sut, &q_line(v, *t, &probes0, &mk, &mut rng));
                    if out.starts_with("ok") && v != V::Merkle {
                        // re-add a stage after the truncation (first stage must be in the future again when the list became empty)
                        let st = default_stage(5, t + rng.range(0, 2), t + 3);
                        let o2 = step(&mut ses, &mut sut, &format!("add_stage now={t} sender={ADMIN} stage={} members=12:3,15:1", st.line()));
                        ses.mark(format!("{}:add-after-remove:id{id}:{}", v.name(), outcome(&o2)));
                        step(&mut ses, &mut sut, &q_line(v, t + 1, &probes, &mk, &mut rng));
                    }
                }
            }
        }
        ses.end_case();
    }

    // ------------------------------------------------------------------ H. "the first stage starts in the future whenever stages are … added"
    for v in [V::Plain, V::Flex] {
        let mut mk = MerkleCtx { trees: vec![] };
        ses.begin_case(&mut sut, &format!("case v={} add-stage-first-future", v.name()));
        for empty_first in [true, false] {
            step(&mut ses, &mut sut, &std_inst(v, T0, &[default_stage(0, T0 + 2, T0 + 4)], &mut mk));
            if empty_first {
                // the list becomes empty: the ADDED stage is the first one
                step(&mut ses, &mut sut, &format!("remove_stage now={} sender={ADMIN} id=0", T0 + 1));
                let o = step(&mut ses, &mut sut, &format!("add_stage now={} sender={ADMIN} stage={} members=12:3", T0 + 1, default_stage(1, T0 + 1, T0 + 3).line()));
                ses.mark(format!("floor:{}:add_stage:first-starts-now:{}", v.name(), outcome(&o)));
                let o = step(&mut ses, &mut sut, &format!("add_stage now={} sender={ADMIN} stage={} members=12:3", T0 + 1, default_stage(1, T0 + 2, T0 + 3).line()));
                ses.mark(format!("floor:{}:add_stage:first-in-future:{}", v.name(), outcome(&o)));
            } else {
                // same block, same stage: rejected once the first stage has started (boundary: now = start), accepted 1 ns earlier
                let st = default_stage(1, T0 + 5, T0 + 6);
                let o = step(&mut ses, &mut sut, &format!("add_stage now={} sender={ADMIN} stage={} members=12:3", T0 + 2, st.line()));
                ses.mark(format!("floor:{}:add_stage:first-already-started:{}", v.name(), outcome(&o)));
                let o = step(&mut ses, &mut sut, &format!("add_stage now={} sender={ADMIN} stage={} members=12:3", T0 + 1, st.line()));
                ses.mark(format!("floor:{}:add_stage:first-in-future:{}", v.name(), outcome(&o)));
            }
            for t in [T0 + 1, T0 + 2, T0 + 3, T0 + 5] {
                step(&mut ses, &mut sut, &q_line(v, t, &probes0, &mk, &mut rng));
            }
        }
        ses.end_case();
    }

    // ------------------------------------------------------------------ F. stages larger than the pagination limits (25 default, 100 max)
    // 30 / 101 / 120 members in stages [2,4][4,6][8,10]; remove_stage at start−1 / start / start+1 ns, re-add, member edits
    // across the 100 boundary. Every `q` pages `Members` to exhaustion and compares with the stored map.
    for v in [V::Plain, V::Flex] {
        let mk = MerkleCtx { trees: vec![] };
        let base: Vec<St> = vec![default_stage(0, T0 + 2, T0 + 4), default_stage(1, T0 + 4, T0 + 6), default_stage(2, T0 + 8, T0 + 10)];
        let cnt = |a: u128| if v == V::Flex { 1 + a % 5 } else { 1 };
        let range = |lo: u128, n: u128| -> Vec<(u128, u128)> { (lo..lo + n).map(|a| (a, cnt(a))).collect() };
        let members = vec![range(100, 30), range(200, 101), range(400, 120)];
        let big_probes: Vec<u64> = vec![100, 125, 129, 200, 225, 299, 300, 400, 499, 500, 519, 600, 19, 0];
        let inst = inst_line(v, T0, ADMIN, &[(0, fee_for(v, 400))], 400, None, &[ADMIN, ADMIN2], true, &base, &members, &[], false);
        ses.begin_case(&mut sut, &format!("case v={} big-stages", v.name()));
        // F1: observe, then remove stage 1 (and 2): at its start (rejected), 1 ns before (accepted, 221 entries go), re-add
        step(&mut ses, &mut sut, &inst);
        for t in [T0 + 1, T0 + 3, T0 + 4, T0 + 5, T0 + 9] {
            step(&mut ses, &mut sut, &q_line(v, t, &big_probes, &mk, &mut rng));
        }
        let o = step(&mut ses, &mut sut, &format!("remove_stage now={} sender={ADMIN} id=1", T0 + 4));
        ses.mark(format!("{}:big:remove1:at-start:{}", v.name(), outcome(&o)));
        let o = step(&mut ses, &mut sut, &format!("remove_stage now={} sender={ADMIN} id=1", T0 + 3));
        ses.mark(format!("{}:big:remove1:before-start:{}", v.name(), outcome(&o)));
        for t in [T0 + 3, T0 + 5, T0 + 9] {
            step(&mut ses, &mut sut, &q_line(v, t, &big_probes, &mk, &mut rng));
        }
        let o = step(&mut ses, &mut sut, &format!("add_stage now={} sender={ADMIN} stage={} members={}", T0 + 1, default_stage(3, T0 + 6, T0 + 8).line(), fmt_pairs(&range(600, 26))));
        ses.mark(format!("{}:big:re-add:{}", v.name(), outcome(&o)));
        for t in [T0 + 5, T0 + 7] {
            step(&mut ses, &mut sut, &q_line(v, t, &big_probes, &mk, &mut rng));
        }
        // … and remove the re-added 26-member stage again (just above the default page size)
        let o = step(&mut ses, &mut sut, &format!("remove_stage now={} sender={ADMIN} id=1", T0 + 1));
        ses.mark(format!("{}:big:remove-readded:{}", v.name(), outcome(&o)));
        step(&mut ses, &mut sut, &q_line(v, T0 + 7, &big_probes, &mk, &mut rng));
        // F2: remove everything, then add a stage that re-uses some of the old addresses: only those are members again
        step(&mut ses, &mut sut, &inst);
        let o = step(&mut ses, &mut sut, &format!("remove_stage now={} sender={ADMIN} id=0", T0 + 1));
        ses.mark(format!("{}:big:remove0:{}", v.name(), outcome(&o)));
        step(&mut ses, &mut sut, &q_line(v, T0 + 3, &big_probes, &mk, &mut rng));
        step(&mut ses, &mut sut, &format!("add_stage now={} sender={ADMIN} stage={} members={}", T0 + 1, default_stage(4, T0 + 3, T0 + 5).line(), fmt_pairs(&range(100, 30))));
        for t in [T0 + 3, T0 + 4, T0 + 9] {
            step(&mut ses, &mut sut, &q_line(v, t, &big_probes, &mk, &mut rng));
        }
        // F3: grow stage 2 across 100 → 150, shrink it, remove it 1 ns before it starts; exactly at / after its start: rejected
        step(&mut ses, &mut sut, &inst);
        step(&mut ses, &mut sut, &format!("add_members now={} sender={ADMIN} id=2 members={}", T0 + 1, fmt_pairs(&range(510, 40))));
        step(&mut ses, &mut sut, &format!("remove_members now={} sender={ADMIN} id=2 addrs=400,401,519", T0 + 7));
        step(&mut ses, &mut sut, &q_line(v, T0 + 9, &big_probes, &mk, &mut rng));
        for t in [T0 + 9, T0 + 8, T0 + 7] {
            let o = step(&mut ses, &mut sut, &format!("remove_stage now={t} sender={ADMIN} id=2"));
            ses.mark(format!("{}:big:remove2:rel{}:{}", v.name(), t as i128 - (T0 + 8) as i128, outcome(&o)));
            step(&mut ses, &mut sut, &q_line(v, T0 + 9, &big_probes, &mk, &mut rng));
        }
        ses.end_case();
    }

    // ------------------------------------------------------------------ G. the whole message surface, enumerated at run time
    // `schema_for!(ExecuteMsg)` of each crate gives the variant names. Known ones are tied to protocol ops; every OTHER variant
    // (a message this harness has never heard of) is SENT — raw JSON, minimal arguments from the schema — at clocks before /
    // inside / between / after the stages, by admin and stranger, under the same monitors: whatever it does to the stage
    // list and the member map is judged by the property (e.g. "a stage disappeared after it had started"). `migrate` (Merkle has
    // the entry point) and a message that is certainly not in the enum go the same way.
    for v in variants {
        let mut mk = MerkleCtx { trees: vec![] };
        let base: Vec<St> = vec![default_stage(0, T0 + 2, T0 + 4), default_stage(1, T0 + 4, T0 + 6), default_stage(2, T0 + 8, T0 + 10)];
        let names: Vec<String> = sut.surface[v as usize].variants.iter().map(|(n, _)| n.clone()).collect();
        if !names.is_empty() {
            ses.mark(format!("surface:{}:enumerated", v.name()));
        }
        for (n, op) in known_variants(v) {
            if names.iter().any(|x| x.as_str() == *n) {
                ses.mark(format!("surface:{}:known:{n}={op}", v.name()));
            } else {
                ses.mark(format!("surface:{}:MISSING:{n}", v.name()));
                ses.note(format!("surface: `{n}` is no longer a variant of the {} ExecuteMsg (the protocol op `{op}` will be rejected by the contract)", v.name()));
            }
        }
        let unknown = sut.unknown_variants(v);
        for u in &unknown {
            ses.mark(format!("surface:{}:UNKNOWN:{u}", v.name()));
            ses.note(format!("surface: the {} ExecuteMsg has a variant `{u}` this harness has no protocol op for — it is sent as raw JSON under the monitors", v.name()));
        }
        ses.begin_case(&mut sut, &format!("case v={} surface", v.name()));
        let mut sends: Vec<String> = vec![format!("migrate now=@ sender={MIGRATOR}"), format!("unk now=@ sender={ADMIN} name=c13_no_such_message arg=0")];
        for u in &unknown {
            for arg in 0..8u64 {
                for sender in [ADMIN, STRANGER] {
                    sends.push(format!("unk now=@ sender={sender} name={u} arg={arg}"));
                }
            }
        }
        for clock in [T0 + 1, T0 + 2, T0 + 3, T0 + 4, T0 + 7, T0 + 9, T0 + 11] {
            for send in &sends {
                step(&mut ses, &mut sut, &std_inst(v, T0, &base, &mut mk));
                let before = sut.pre.as_ref().map(|p| p.stages.len()).unwrap_or(0);
                let line = send.replace("now=@", &format!("now={clock}"));
                let out = step(&mut ses, &mut sut, &line);
                let accepted = out.contains(" res=1");
                let after = sut.pre.as_ref().map(|p| p.stages.len()).unwrap_or(0);
                if line.starts_with("migrate") {
                    ses.mark(format!("floor:{}:migrate:{}", v.name(), if accepted { "accepted" } else { "rejected" }));
                } else if line.contains("c13_no_such_message") {
                    ses.mark(format!("surface:{}:bogus-message:{}", v.name(), if accepted { "ACCEPTED" } else { "rejected" }));
                } else {
                    ses.mark(format!("surface:{}:unknown-sent:{}:{}", v.name(), kv(&line, "name").unwrap_or("?"), if accepted { "accepted" } else { "rejected" }));
                }
                if clock >= T0 + 2 && after == before && before == 3 {
                    ses.mark(format!("floor:{}:started-stage-survives-surface", v.name()));
                }
                for t in [clock, T0 + 4, T0 + 9] {
                    step(&mut ses, &mut sut, &q_line(v, t, &probes0, &mk, &mut rng));
                }
            }
        }
        ses.end_case();
    }

    // ------------------------------------------------------------------ E. exhaustive short histories over a small alphabet
    // every sequence of `depth` symbolic messages × 2 clocks (before the first start / exactly at it) from a touching
    // two-stage chain; symbols are made concrete against the contract's current stage list (state-dependent generation).
    {
        let depth = ses.scale(2, 3) as usize;
        let syms = ["add_touch", "add_gap", "add_overlap", "rm0", "rm1", "rm2", "upd_touch", "upd_overlap", "upd_eq", "addm"];
        let alpha: Vec<(usize, bool)> = (0..syms.len()).flat_map(|i| [(i, false), (i, true)]).collect();
        let total = alpha.len().pow(depth as u32);
        for v in variants {
            let mut mk = MerkleCtx { trees: vec![] };
            let base: Vec<St> = vec![default_stage(0, T0 + 2, T0 + 4), default_stage(1, T0 + 4, T0 + 6)];
            let mut n = 0usize;
            while n < total {
                ses.begin_case(&mut sut, &format!("case v={} exhaustive depth={depth} from={n}", v.name()));
                let hi = (n + 50).min(total);
                for code in n..hi {
                    step(&mut ses, &mut sut, &std_inst(v, T0, &base, &mut mk));
                    let mut c = code;
                    let mut tag = String::new();
                    for _ in 0..depth {
                        let (si, at_start) = alpha[c % alpha.len()];
                        c /= alpha.len();
                        let stages = sut.pre.as_ref().map(|p| p.stages.clone()).unwrap_or_default();
                        let first_start = stages.first().map(|s| s.start).unwrap_or(T0 + 2);
                        let now = if at_start { first_start } else { first_start.saturating_sub(1) };
                        let last_stop = stages.last().map(|s| s.stop).unwrap_or(now + 1);
                        let s0_stop = stages.first().map(|s| s.stop).unwrap_or(now + 1);
                        let line = match syms[si] {
                            "add_touch" => format!("add_stage now={now} sender={ADMIN} stage={} members=12:2,15:1", default_stage(3, last_stop, last_stop + 2).line()),
                            "add_gap" => format!("add_stage now={now} sender={ADMIN} stage={} members=13:2", default_stage(4, last_stop + 1, last_stop + 3).line()),
                            "add_overlap" => format!("add_stage now={now} sender={ADMIN} stage={} members=-", default_stage(5, last_stop - 1, last_stop + 2).line()),
                            "rm0" => format!("remove_stage now={now} sender={ADMIN} id=0"),
                            "rm1" => format!("remove_stage now={now} sender={ADMIN} id=1"),
                            "rm2" => format!("remove_stage now={now} sender={ADMIN} id=2"),
                            "upd_touch" => format!("update_stage now={now} sender={ADMIN} id=1 name=- start={} stop=- price=- pal=- mcl=-", s0_stop),
                            "upd_overlap" => format!("update_stage now={now} sender={ADMIN} id=1 name=- start={} stop=- price=- pal=- mcl=-", s0_stop - 1),
                            "upd_eq" => format!("update_stage now={now} sender={ADMIN} id=0 name=- start=- stop={} price=- pal=- mcl=-", first_start),
                            _ => format!("add_members now={now} sender={ADMIN} id=1 members=12:2"),
                        };
                        let out = step(&mut ses, &mut sut, &line);
                        tag.push_str(&format!("{}{}{}.", syms[si], if at_start { "@" } else { "<" }, if out.starts_with("ok") { "+" } else { "-" }));
                    }
                    ses.mark(format!("{}:seq:{tag}", v.name()));
                    let stages = sut.pre.as_ref().map(|p| p.stages.clone()).unwrap_or_default();
                    let mut ts = edges(&stages);
                    if ts.is_empty() {
                        ts.push(T0 + 1);
                    }
                    if ses.tier() == Tier::Quick {
                        rng.shuffle(&mut ts);
                        ts.truncate(2);
                    }
                    for t in ts {
                        step(&mut ses, &mut sut, &q_line(v, t, &probes, &mk, &mut rng));
                    }
                }
                ses.end_case();
                n = hi;
            }
        }
        ses.note(format!("exhaustive: all {} sequences of {} symbolic messages × 2 clocks per variant", total, depth));
    }

    // ------------------------------------------------------------------ D. random histories (mostly valid, single faults, boundary clock)
    let n_traces = ses.scale(1200, 9000);
    for tr in 0..n_traces {
        let v = variants[(tr % 3) as usize];
        let mut mk = MerkleCtx { trees: vec![] };
        ses.begin_case(&mut sut, &format!("case v={} random trace={tr}", v.name()));
        let mut now = T0 + rng.range(0, 5);
        // model of what we believe the state is — only used to aim the generator (never for the verdict)
        let mut cur: Vec<St> = vec![];
        let mut alive = false;
        let mut limit: u64 = 0;
        let mut admins: Vec<u64> = vec![ADMIN, ADMIN2];
        let n_ops = rng.range(8, 30);
        for _ in 0..n_ops {
            if !alive {
                let n = *rng.pick(&[1usize, 1, 2, 2, 2, 3, 3]);
                let mut stages = valid_chain(&mut rng, n, now);
                let mut fault = "none";
                if rng.chance(3, 10) {
                    fault = mutate_stages(&mut rng, v, now, &mut stages);
                }
                limit = *rng.pick(&[1u64, 5, 10, 999, 1000, 1001, 2000, 30000]);
                let mut fee = fee_for(v, limit);
                let mut funds = vec![(0u128, fee)];
                let mut whale = if v == V::Flex && rng.chance(1, 2) { Some(limit + rng.range(1, 20)) } else { None };
                let mut members: Vec<Vec<(u128, u128)>> = (0..stages.len())
                    .map(|_| {
                        let k = rng.range(0, 3);
                        (0..k).map(|_| (*rng.pick(&POOL) as u128, rng.range(1, 9) as u128)).collect()
                    })
                    .collect();
                mk.trees = (0..stages.len()).map(|_| if rng.chance(1, 2) { vec![*rng.pick(&POOL)] } else { vec![*rng.pick(&POOL[..3]), *rng.pick(&POOL[3..])] }).collect();
                let mut roots = mk.roots();
                let mut uribad = false;
                let mut adm = admins.clone();
                if fault == "none" && rng.chance(3, 10) {
                    fault = match rng.below(12) {
                        0 => {
                            fee += 1;
                            funds = vec![(0, fee)];
                            "fee+1"
                        }
                        1 => {
                            funds = vec![(0, fee - 1)];
                            "fee-1"
                        }
                        2 => {
                            funds = vec![];
                            "no-funds"
                        }
                        3 => {
                            funds = vec![(1, fee)];
                            "wrong-denom"
                        }
                        4 => {
                            limit = *rng.pick(&[0u64, 30001]);
                            funds = vec![(0, fee_for(v, limit).max(1))];
                            "limit-out-of-range"
                        }
                        5 => {
                            members.push(vec![(14, 1)]);
                            "extra-member-list"
                        }
                        6 => {
                            members.pop();
                            "missing-member-list"
                        }
                        7 => {
                            whale = Some(limit.saturating_sub(rng.range(0, 1)));
                            "whale-not-above-limit"
                        }
                        8 => {
                            roots.pop();
                            "missing-root"
                        }
                        9 => {
                            if let Some(r) = roots.first_mut() {
                                *r = if rng.chance(1, 2) { r[..30].to_string() } else { format!("zz{}", &r[2..]) };
                            }
                            "bad-root"
                        }
                        10 => {
                            uribad = true;
                            "bad-uri"
                        }
                        _ => {
                            adm = vec![ADMIN, 0];
                            "invalid-admin"
                        }
                    };
                }
                if v == V::Flex && rng.chance(1, 5) {
                    // a member above the whale cap / duplicates with different counts
                    if let Some(l) = members.first_mut() {
                        l.push((13, 40));
                        l.push((13, 2));
                    }
                }
                if rng.chance(1, 8) {
                    if let Some(l) = members.last_mut() {
                        l.push((0, 1));
                    }
                }
                if v == V::Merkle && rng.chance(1, 2) {
                    limit |= 1; // odd ⇒ a valid tree URI is supplied
                }
                let line = inst_line(v, now, ADMIN, &funds, limit, whale, &adm, !rng.chance(1, 6), &stages, &members, &roots, uribad);
                let out = step(&mut ses, &mut sut, &line);
                ses.mark(format!("{}:inst:{}:{fault}:{}", v.name(), shape_of(&stages), outcome(&out)));
                if out.starts_with("ok") {
                    alive = true;
                    cur = stages;
                    admins = adm;
                }
                continue;
            }
            // boundary clock: with probability 1/2 jump to an edge ±1 ns of the current stages, else drift
            if rng.chance(1, 2) && !cur.is_empty() {
                now = *rng.pick(&edges(&cur));
            } else if rng.chance(1, 2) {
                now += rng.range(0, 3);
            }
            let sender = if rng.chance(1, 10) { STRANGER } else { *rng.pick(&admins) };
            let who = if sender == STRANGER { "stranger" } else { "admin" };
            if rng.chance(3, 100) {
                let line = if rng.chance(1, 2) { format!("migrate now={now} sender={MIGRATOR}") } else { format!("unk now={now} sender={sender} name=c13_no_such_message arg={}", rng.below(8)) };
                let out = step(&mut ses, &mut sut, &line);
                ses.mark(format!("{}:{}:{}", v.name(), line.split(' ').next().unwrap_or(""), if out.contains(" res=1") { "accepted" } else { "rejected" }));
                continue;
            }
            let mut k = rng.below(100);
            if v == V::Merkle && (45..55).contains(&k) || v == V::Merkle && (75..95).contains(&k) {
                // list-based messages do not exist on the Merkle contract: keep a few (they must be rejected), re-draw the rest
                if !rng.chance(1, 6) {
                    k = *rng.pick(&[10u64, 60, 60, 60, 96, 99]);
                }
            }
            if v == V::Merkle && (30..45).contains(&k) && !rng.chance(1, 6) {
                k = 60;
            }
            // aim the clock: list edits that are only allowed before a stage starts get a clock before that start most of the time
            let beyond = if rng.chance(1, 8) { 1 } else { 0 };
            let target_id = rng.below(cur.len() as u64 + beyond);
            if (30..55).contains(&k) || (85..92).contains(&k) {
                if let Some(st) = cur.get(if (30..45).contains(&k) { 0 } else { target_id as usize }) {
                    if rng.chance(3, 5) && now >= st.start {
                        now = st.start - rng.range(1, 2);
                    }
                }
            }
            if k < 30 {
                let out = step(&mut ses, &mut sut, &q_line(v, now, if rng.chance(1, 3) { &probes0 } else { &probes }, &mk, &mut rng));
                ses.mark(format!("{}:q:{}:{}", v.name(), clock_class(&cur, now), outcome(&out)));
            } else if k < 45 {
                // add_stage: valid = after the last stage (touching or gap), in the future when the list is empty
                let last_stop = cur.last().map(|s| s.stop).unwrap_or(now);
                let mut st = valid_chain(&mut rng, 1, last_stop.max(now))[0].clone();
                st.name = rng.range(0, 9);
                let mut fault = "none";
                if rng.chance(1, 3) && !cur.is_empty() {
                    st.start = last_stop;
                    st.stop = st.start + rng.range(1, 3);
                    fault = "touching";
                }
                if rng.chance(3, 10) {
                    let l = cur.last().cloned().unwrap_or(st.clone());
                    fault = match rng.below(8) {
                        0 => { st.start = l.stop.saturating_sub(1); st.stop = st.start + 2; "overlap-by-1ns" }
                        1 => { st.start = l.start; st.stop = l.stop; "identical-windows" }
                        2 => { st.stop = st.start; "equal-endpoints" }
                        3 => { let a = st.start; st.start = st.stop; st.stop = a; "reversed" }
                        4 => { st.start = l.start.saturating_sub(3); st.stop = l.start.saturating_sub(1).max(st.start + 1); "before-previous" }
                        5 => { st.pal = 0; "pal-zero" }
                        6 => { st.denom = 1; "denom-mismatch" }
                        _ => { st.start = now; st.stop = now + 2; "starts-now" }
                    };
                }
                let nm = rng.range(0, 3);
                let members: Vec<(u128, u128)> = (0..nm).map(|_| (*rng.pick(&POOL) as u128, rng.range(1, 9) as u128)).collect();
                let out = step(&mut ses, &mut sut, &format!("add_stage now={now} sender={sender} stage={} members={}", st.line(), fmt_pairs(&members)));
                ses.mark(format!("{}:add_stage:have{}:{fault}:{who}:{}", v.name(), cur.len(), outcome(&out)));
                if out.starts_with("ok") {
                    cur.push(st);
                }
            } else if k < 55 {
                let id = if rng.chance(1, 6) { rng.below(4) } else { target_id };
                let out = step(&mut ses, &mut sut, &format!("remove_stage now={now} sender={sender} id={id}"));
                let rel = cur.get(id as usize).map(|s| (now as i128 - s.start as i128).clamp(-2, 2)).unwrap_or(99);
                ses.mark(format!("{}:remove_stage:rel{rel}:{who}:{}", v.name(), outcome(&out)));
                if out.starts_with("ok") {
                    cur.truncate(id as usize);
                }
            } else if k < 75 {
                // update_stage_config: mostly small moves of one edge onto / across a neighbour's edge
                let extra = if rng.chance(1, 10) { 1 } else { 0 };
                let id = if cur.is_empty() { 0 } else { rng.below(cur.len() as u64 + extra) };
                let mut neigh: Vec<u64> = edges(&cur);
                neigh.push(now);
                neigh.push(now + 1);
                let s = if rng.chance(1, 2) { Some(*rng.pick(&neigh)) } else { None };
                let e = if rng.chance(1, 2) { Some(*rng.pick(&neigh)) } else { None };
                let price = if rng.chance(1, 4) { format!("{}:{}", if rng.chance(1, 5) { 1 } else { 0 }, rng.range(0, 900)) } else { "-".into() };
                let pal = if rng.chance(1, 4) { Some(*rng.pick(&[0u64, 1, 30, 31, 50, 51])) } else { None };
                let mcl = if rng.chance(1, 5) { Some(rng.range(0, 90)) } else { None };
                let nm = if rng.chance(1, 5) { Some(rng.range(0, 9)) } else { None };
                let line = format!("update_stage now={now} sender={sender} id={id} name={} start={} stop={} price={price} pal={} mcl={}", fmt_opt(&nm), fmt_opt(&s), fmt_opt(&e), fmt_opt(&pal), fmt_opt(&mcl));
                let out = step(&mut ses, &mut sut, &line);
                let mut after = cur.clone();
                if let Some(st) = after.get_mut(id as usize) {
                    if let Some(s) = s { st.start = s; }
                    if let Some(e) = e { st.stop = e; }
                }
                ses.mark(format!("{}:update:{}:{who}:{}", v.name(), shape_of(&after), outcome(&out)));
                if out.starts_with("ok") {
                    cur = after;
                }
            } else if k < 85 {
                let id = rng.below(cur.len() as u64 + 1);
                let nm = rng.range(1, 3);
                let mut members: Vec<(u128, u128)> = (0..nm).map(|_| (*rng.pick(&POOL) as u128, rng.range(1, 9) as u128)).collect();
                if rng.chance(1, 10) { members.push((0, 1)); }
                let out = step(&mut ses, &mut sut, &format!("add_members now={now} sender={sender} id={id} members={}", fmt_pairs(&members)));
                ses.mark(format!("{}:add_members:{}:{who}:{}", v.name(), if (id as usize) < cur.len() { "stage-ok" } else { "no-stage" }, outcome(&out)));
            } else if k < 92 {
                let id = target_id;
                let nm = rng.range(1, 2);
                // aim at members the contract really lists for that stage (state-dependent generation), 1 in 4 arbitrary
                let present: Vec<u64> = sut.pre.as_ref().map(|p| p.of_stage(id)).unwrap_or_default().iter().map(|(a, _)| *a).collect();
                let mut addrs: Vec<u64> = vec![];
                for _ in 0..nm {
                    let a = if !present.is_empty() && !rng.chance(1, 4) { *rng.pick(&present) } else { *rng.pick(&POOL) };
                    if !addrs.contains(&a) || rng.chance(1, 5) {
                        addrs.push(a);
                    }
                }
                let out = step(&mut ses, &mut sut, &format!("remove_members now={now} sender={sender} id={id} addrs={}", fmt_list(&addrs)));
                let rel = cur.get(id as usize).map(|s| (now as i128 - s.start as i128).clamp(-2, 2)).unwrap_or(99);
                ses.mark(format!("{}:remove_members:rel{rel}:{who}:{}", v.name(), outcome(&out)));
            } else if k < 95 {
                let nl = *rng.pick(&[limit, limit + 1, 1000, 1001, 2001, 30000, 30001]);
                let fee = if (nl + 999) / 1000 > (limit + 999) / 1000 { (((nl + 999) / 1000) - ((limit + 999) / 1000)) as u128 * 100_000_000 } else { 0 };
                let funds: Vec<(u128, u128)> = match rng.below(5) {
                    0 => vec![(0, fee + 1)],
                    1 => vec![],
                    _ => if fee == 0 { vec![] } else { vec![(0, fee)] },
                };
                let out = step(&mut ses, &mut sut, &format!("increase_limit now={now} sender={sender} funds={} limit={nl}", fmt_pairs(&funds)));
                ses.mark(format!("{}:increase_limit:{}", v.name(), outcome(&out)));
                if out.starts_with("ok") {
                    limit = nl;
                }
            } else if k < 98 {
                let na: Vec<u64> = match rng.below(4) { 0 => vec![ADMIN], 1 => vec![ADMIN2, ADMIN], 2 => vec![ADMIN, 0], _ => vec![ADMIN2] };
                let out = step(&mut ses, &mut sut, &format!("update_admins now={now} sender={sender} admins={}", fmt_list(&na)));
                ses.mark(format!("{}:update_admins:{who}:{}", v.name(), outcome(&out)));
                if out.starts_with("ok") {
                    admins = na;
                }
            } else {
                let out = step(&mut ses, &mut sut, &format!("freeze now={now} sender={sender}"));
                ses.mark(format!("{}:freeze:{who}:{}", v.name(), outcome(&out)));
            }
            // every message is followed, with probability 1/2, by a full observation at an edge instant
            if rng.chance(1, 2) {
                let t = if cur.is_empty() || rng.chance(1, 4) { now } else { *rng.pick(&edges(&cur)) };
                let out = step(&mut ses, &mut sut, &q_line(v, t, &probes, &mk, &mut rng));
                ses.mark(format!("{}:q:{}:{}", v.name(), clock_class(&cur, t), outcome(&out)));
            }
        }
        ses.end_case();
    }

    ses.note("clock: block time is set per line; queries are issued at every stage edge −1/0/+1 ns (grids) or at a random edge ±1 ns with probability ≥ 1/2 (random histories)");
    ses.note("window shapes: all stage lists over a 4-point endpoint grid (touching, nested, reversed, equal endpoints, gaps, swapped order) at instantiate; every single-edge move 0..12 at update_stage_config; mutations at add_stage");
    ses.note("Merkle: 1–2 element trees built with rs_merkle (16-byte truncated BLAKE3, sorted pairs); the proof fold is re-computed by the harness and passed to the model as witness `folded=`");
    ses.note("projection: outputs are `primary ## drift`; primary = accept/reject of the stage messages, stage windows/denom/price/per-address limit, num_members, stored member map, Merkle roots, active-stage and membership answers; everything else is drift");
    ses.note("big stages: 30/101/120 (+40, +26) members per stage, `Members` paged to exhaustion (default page and limit 100) against the typed storage dump");
    for n in sut.notes.clone() {
        ses.note(n);
    }
    ses.finish(&mut sut);
}
