//! C13 — tiered whitelist stages (plain / flex / Merkle): the REAL contracts under cw-multi-test vs `LP.Tiered` (Lean).
//!
//! Protocol: see /verif/lean/LaunchpadModel/Driver/C13.lean. Every line carries `now=` (block time, ns) and is
//! executable from its text alone. `inst` instantiates a fresh contract which becomes the current one when it succeeds.
use cosmwasm_std::{Addr, Coin, Timestamp};
use cw_multi_test::{BankSudo, Executor, SudoMsg};
use lp_harness::boxes::{self, App};
use lp_harness::world::*;
use lp_harness::*;
use rs_merkle::{Hasher, MerkleTree};
use serde_json::{json, Value};

const T0: u64 = 1_700_000_000_000_000_000;

#[derive(Clone, Copy, PartialEq, Eq, Debug)]
enum V {
    Plain,
    Flex,
    Merkle,
}
impl V {
    fn name(self) -> &'static str {
        match self {
            V::Plain => "plain",
            V::Flex => "flex",
            V::Merkle => "merkle",
        }
    }
    fn parse(s: &str) -> V {
        match s {
            "flex" => V::Flex,
            "merkle" => V::Merkle,
            _ => V::Plain,
        }
    }
}

// ------------------------------------------------------------------------------------------------ names

/// address id -> string; 0 is a string `addr_validate` rejects
fn name(id: u64) -> String {
    if id == 0 {
        "X".to_string()
    } else {
        addr(id)
    }
}
fn name_id(s: &str) -> u64 {
    if s == "X" {
        0
    } else {
        addr_id(s)
    }
}
fn stage_name(k: u64) -> String {
    format!("n{k}")
}
fn stage_name_id(s: &str) -> u64 {
    s.strip_prefix('n').and_then(|x| x.parse().ok()).unwrap_or(999_999)
}

// ------------------------------------------------------------------------------------------------ stages

#[derive(Clone, Debug, PartialEq)]
struct St {
    name: u64,
    start: u64,
    stop: u64,
    denom: u64,
    price: u128,
    pal: u64,
    mcl: Option<u64>,
}
impl St {
    fn line(&self) -> String {
        format!("{}:{}:{}:{}:{}:{}:{}", self.name, self.start, self.stop, self.denom, self.price, self.pal, fmt_opt(&self.mcl))
    }
    fn parse(s: &str) -> Option<St> {
        let p: Vec<&str> = s.split(':').collect();
        if p.len() != 7 {
            return None;
        }
        Some(St {
            name: p[0].parse().ok()?,
            start: p[1].parse().ok()?,
            stop: p[2].parse().ok()?,
            denom: p[3].parse().ok()?,
            price: p[4].parse().ok()?,
            pal: p[5].parse().ok()?,
            mcl: if p[6] == "-" { None } else { Some(p[6].parse().ok()?) },
        })
    }
    fn json(&self, v: V) -> Value {
        let mut o = json!({
            "name": stage_name(self.name),
            "start_time": self.start.to_string(),
            "end_time": self.stop.to_string(),
            "mint_price": {"denom": denom(self.denom), "amount": self.price.to_string()},
            "mint_count_limit": self.mcl,
        });
        if v != V::Flex {
            o["per_address_limit"] = json!(self.pal);
        }
        o
    }
    fn from_json(j: &Value) -> St {
        St {
            name: stage_name_id(j["name"].as_str().unwrap_or("")),
            start: j["start_time"].as_str().unwrap_or("0").parse().unwrap_or(0),
            stop: j["end_time"].as_str().unwrap_or("0").parse().unwrap_or(0),
            denom: denom_id(j["mint_price"]["denom"].as_str().unwrap_or("")),
            price: j["mint_price"]["amount"].as_str().unwrap_or("0").parse().unwrap_or(0),
            pal: j["per_address_limit"].as_u64().unwrap_or(0),
            mcl: j["mint_count_limit"].as_u64(),
        }
    }
    fn contains(&self, t: u64) -> bool {
        self.start <= t && t <= self.stop
    }
}
fn stages_line(l: &[St]) -> String {
    if l.is_empty() {
        "-".into()
    } else {
        l.iter().map(|s| s.line()).collect::<Vec<_>>().join(";")
    }
}
fn parse_stages(s: &str) -> Vec<St> {
    if s == "-" || s.is_empty() {
        vec![]
    } else {
        s.split(';').filter_map(St::parse).collect()
    }
}
fn members_json(v: V, l: &[(u128, u128)]) -> Value {
    match v {
        V::Flex => Value::Array(l.iter().map(|(a, c)| json!({"address": name(*a as u64), "mint_count": *c as u64})).collect()),
        _ => Value::Array(l.iter().map(|(a, _)| json!(name(*a as u64))).collect()),
    }
}
fn parse_pairs(s: &str) -> Vec<(u128, u128)> {
    if s == "-" || s.is_empty() {
        return vec![];
    }
    s.split(',').filter_map(|p| p.split_once(':').and_then(|(a, b)| Some((a.parse().ok()?, b.parse().ok()?)))).collect()
}
fn parse_member_lists(s: &str) -> Vec<Vec<(u128, u128)>> {
    if s == "none" || s.is_empty() {
        vec![]
    } else {
        s.split('/').map(parse_pairs).collect()
    }
}
fn member_lists_line(l: &[Vec<(u128, u128)>]) -> String {
    if l.is_empty() {
        "none".into()
    } else {
        l.iter().map(|x| fmt_pairs(x)).collect::<Vec<_>>().join("/")
    }
}

// ------------------------------------------------------------------------------------------------ merkle (blake3, 16 bytes, sorted pairs)

#[derive(Clone)]
struct SortingBlake16 {}
fn blake16(data: &[u8]) -> [u8; 16] {
    blake3::hash(data).as_bytes()[..16].try_into().unwrap()
}
impl Hasher for SortingBlake16 {
    type Hash = [u8; 16];
    fn concat_and_hash(left: &Self::Hash, right: Option<&Self::Hash>) -> Self::Hash {
        match right {
            Some(r) => {
                let mut both = [*left, *r];
                both.sort_unstable();
                blake16(&both.concat())
            }
            None => *left,
        }
    }
    fn hash(data: &[u8]) -> Self::Hash {
        blake16(data)
    }
    fn hash_size() -> usize {
        16
    }
}
/// tree over member strings, exactly as the repo's merkle tests build theirs (leaf = hash of the string)
fn build_tree(members: &[u64]) -> MerkleTree<SortingBlake16> {
    let leaves: Vec<[u8; 16]> = members.iter().map(|m| blake16(name(*m).as_bytes())).collect();
    MerkleTree::<SortingBlake16>::from_leaves(&leaves)
}
fn tree_root_hex(t: &MerkleTree<SortingBlake16>) -> String {
    hex::encode(t.root().unwrap_or([0u8; 16]))
}
fn tree_proof_hex(t: &MerkleTree<SortingBlake16>, idx: usize) -> Vec<String> {
    t.proof(&[idx]).proof_hashes().iter().map(hex::encode).collect()
}
/// independent re-computation of the contract's fold: None = some proof element is not 16-byte hex
fn fold_proof(member: &str, proof: &[String]) -> Option<u128> {
    let mut acc = blake16(member.as_bytes());
    for p in proof {
        let bytes = hex::decode(p).ok()?;
        let arr: [u8; 16] = bytes.try_into().ok()?;
        let mut both = [acc, arr];
        both.sort_unstable();
        acc = blake16(&both.concat());
    }
    Some(u128::from_be_bytes(acc))
}
fn root_to_nat(hexs: &str) -> Option<u128> {
    let b = hex::decode(hexs).ok()?;
    let arr: [u8; 16] = b.try_into().ok()?;
    Some(u128::from_be_bytes(arr))
}

// ------------------------------------------------------------------------------------------------ the system under test

#[derive(Clone, Debug, Default, PartialEq)]
struct Snap {
    stages: Vec<St>,
    num: u64,
    /// Members(k) for k in 0..4 (list-based only)
    members: Vec<Vec<(u64, u64)>>,
    roots: Vec<String>,
}

struct S {
    app: App,
    code: [u64; 3],
    v: V,
    wl: Option<Addr>,
    /// successful message lines of the current case (to rebuild the world after a panic)
    log: Vec<String>,
    pre: Option<Snap>,
    pending: Option<(String, String)>,
}

fn fresh_app() -> (App, [u64; 3]) {
    let mut app = boxes::custom_mock_app();
    let c0 = app.store_code(boxes::tiered_whitelist());
    let c1 = app.store_code(boxes::tiered_whitelist_flex());
    let c2 = app.store_code(boxes::tiered_whitelist_mtree());
    (app, [c0, c1, c2])
}

impl S {
    fn new() -> S {
        let (app, code) = fresh_app();
        S { app, code, v: V::Plain, wl: None, log: vec![], pre: None, pending: None }
    }
    fn reset(&mut self) {
        let (app, code) = fresh_app();
        self.app = app;
        self.code = code;
        self.wl = None;
        self.log.clear();
        self.pre = None;
        self.pending = None;
    }
    fn set_time(&mut self, now: u64) {
        self.app.update_block(|b| {
            b.time = Timestamp::from_nanos(now);
            b.height += 1;
        });
    }
    fn fund(&mut self, who: &Addr, funds: &[Coin]) {
        for c in funds {
            if !c.amount.is_zero() {
                let _ = self.app.sudo(SudoMsg::Bank(BankSudo::Mint { to_address: who.to_string(), amount: vec![c.clone()] }));
            }
        }
    }
    fn q(&self, msg: Value) -> Option<Value> {
        let wl = self.wl.clone()?;
        match catch(|| self.app.wrap().query_wasm_smart::<Value>(wl, &msg)) {
            Ok(Ok(v)) => Some(v),
            _ => None,
        }
    }
    fn members_of(&self, k: u64) -> Option<Vec<(u64, u64)>> {
        let r = self.q(json!({"members": {"start_after": null, "limit": 100, "stage_id": k}}))?;
        let arr = r["members"].as_array()?.clone();
        Some(
            arr.iter()
                .map(|m| match m {
                    Value::String(s) => (name_id(s), 1),
                    o => (name_id(o["address"].as_str().unwrap_or("")), o["mint_count"].as_u64().unwrap_or(0)),
                })
                .collect(),
        )
    }
    /// raw `config` item + member maps: what the monitors look at (independent of the stage queries)
    fn snap(&self) -> Option<Snap> {
        let wl = self.wl.clone()?;
        let raw = self.app.wrap().query_wasm_raw(wl.clone(), b"config".to_vec()).ok()??;
        let cfg: Value = serde_json::from_slice(&raw).ok()?;
        let stages = cfg["stages"].as_array().map(|a| a.iter().map(St::from_json).collect()).unwrap_or_default();
        let num = cfg["num_members"].as_u64().unwrap_or(0);
        let mut members = vec![];
        let mut roots = vec![];
        if self.v != V::Merkle {
            for k in 0..4 {
                members.push(self.members_of(k).unwrap_or_default());
            }
        } else if let Ok(Some(r)) = self.app.wrap().query_wasm_raw(wl, b"merkle_roots".to_vec()) {
            let rv: Value = serde_json::from_slice(&r).unwrap_or(Value::Null);
            roots = rv.as_array().map(|a| a.iter().filter_map(|x| x.as_str().map(String::from)).collect()).unwrap_or_default();
        }
        Some(Snap { stages, num, members, roots })
    }

    fn stage_q(&self, id: u64) -> String {
        match self.q(json!({"stage": {"stage_id": id}})) {
            Some(r) => {
                let st = St::from_json(&r["stage"]);
                let c = if self.v == V::Merkle {
                    root_to_nat(r["merkle_root"].as_str().unwrap_or("")).map(|x| x.to_string()).unwrap_or("?".into())
                } else {
                    r["member_count"].as_u64().unwrap_or(0).to_string()
                };
                format!("{}@{}", st.line(), c)
            }
            None => "e".into(),
        }
    }
    fn admin_str(&self) -> String {
        match self.q(json!({"admin_list": {}})) {
            Some(r) => {
                let ids: Vec<u64> = r["admins"].as_array().map(|a| a.iter().map(|x| name_id(x.as_str().unwrap_or(""))).collect()).unwrap_or_default();
                format!("{}:{}", fmt_list(&ids), if r["mutable"].as_bool().unwrap_or(false) { 1 } else { 0 })
            }
            None => "e".into(),
        }
    }
    fn summary(&self) -> String {
        let st: Vec<String> = (0..4).map(|i| self.stage_q(i)).collect();
        let cfg = self.q(json!({"config": {}})).unwrap_or(Value::Null);
        format!(
            "ok st={} n={} lim={} adm={}",
            st.join(";"),
            cfg["num_members"].as_u64().unwrap_or(0),
            cfg["member_limit"].as_u64().unwrap_or(0),
            self.admin_str()
        )
    }

    /// run one message line on the real contracts. Ok(true) = accepted, Ok(false) = rejected, Err = panicked.
    fn apply(&mut self, line: &str) -> Result<bool, String> {
        let op = line.split_whitespace().next().unwrap_or("");
        let now = kv_u64(line, "now").unwrap_or(T0);
        let sender = Addr::unchecked(name(kv_u64(line, "sender").unwrap_or(9)));
        self.set_time(now);
        let v = self.v;
        if op == "inst" {
            let funds = coins_of(&kv_pairs(line, "funds").unwrap_or_default());
            self.fund(&sender, &funds);
            let stages = parse_stages(kv(line, "stages").unwrap_or("-"));
            let admins: Vec<String> = kv_list(line, "admins").unwrap_or_default().iter().map(|a| name(*a as u64)).collect();
            let mutable = kv_bool(line, "mutable").unwrap_or(true);
            let limit = kv_u64(line, "limit").unwrap_or(0);
            let msg = match v {
                V::Merkle => {
                    let roots: Vec<String> = match kv(line, "roots").unwrap_or("-") {
                        "-" => vec![],
                        r => r.split(',').map(String::from).collect(),
                    };
                    let uris = if kv_bool(line, "uribad").unwrap_or(false) {
                        json!(["not a url"])
                    } else if limit % 2 == 1 {
                        json!(["ipfs://tree"])
                    } else {
                        Value::Null
                    };
                    json!({"stages": stages.iter().map(|s| s.json(v)).collect::<Vec<_>>(), "merkle_roots": roots,
                           "merkle_tree_uris": uris, "admins": admins, "admins_mutable": mutable})
                }
                _ => {
                    let lists = parse_member_lists(kv(line, "members").unwrap_or("none"));
                    let mut m = json!({"members": lists.iter().map(|l| members_json(v, l)).collect::<Vec<_>>(),
                           "stages": stages.iter().map(|s| s.json(v)).collect::<Vec<_>>(),
                           "member_limit": limit, "admins": admins, "admins_mutable": mutable});
                    if v == V::Flex {
                        m["whale_cap"] = json!(kv_opt_u64(line, "whale").unwrap_or(None));
                    }
                    m
                }
            };
            let code = self.code[v as usize];
            let app = &mut self.app;
            let r = catch(|| app.instantiate_contract(code, sender.clone(), &msg, &funds, "tiered-wl", None))?;
            return Ok(match r {
                Ok(a) => {
                    self.wl = Some(a);
                    true
                }
                Err(_) => false,
            });
        }
        let Some(wl) = self.wl.clone() else { return Ok(false) };
        let mut funds: Vec<Coin> = vec![];
        let id = kv_u64(line, "id").unwrap_or(0);
        let msg = match op {
            "add_stage" => {
                let st = St::parse(kv(line, "stage").unwrap_or("")).ok_or("bad stage")?;
                json!({"add_stage": {"stage": st.json(v), "members": members_json(v, &kv_pairs(line, "members").unwrap_or_default())}})
            }
            "remove_stage" => json!({"remove_stage": {"stage_id": id}}),
            "update_stage" => {
                let mut m = json!({
                    "stage_id": id,
                    "name": kv_opt_u64(line, "name").unwrap_or(None).map(stage_name),
                    "start_time": kv_opt_u64(line, "start").unwrap_or(None).map(|x| x.to_string()),
                    "end_time": kv_opt_u64(line, "stop").unwrap_or(None).map(|x| x.to_string()),
                    "mint_price": match kv(line, "price").unwrap_or("-") {
                        "-" => Value::Null,
                        p => { let (d, a) = parse_pairs(p)[0]; json!({"denom": denom(d as u64), "amount": a.to_string()}) }
                    },
                    "mint_count_limit": match kv(line, "mcl").unwrap_or("-") { "-" | "none" => Value::Null, x => json!(x.parse::<u64>().unwrap_or(0)) },
                });
                if v != V::Flex {
                    m["per_address_limit"] = json!(kv_opt_u64(line, "pal").unwrap_or(None));
                }
                json!({ "update_stage_config": m })
            }
            "add_members" => json!({"add_members": {"to_add": members_json(v, &kv_pairs(line, "members").unwrap_or_default()), "stage_id": id}}),
            "remove_members" => {
                let l: Vec<String> = kv_list(line, "addrs").unwrap_or_default().iter().map(|a| name(*a as u64)).collect();
                json!({"remove_members": {"to_remove": l, "stage_id": id}})
            }
            "increase_limit" => {
                funds = coins_of(&kv_pairs(line, "funds").unwrap_or_default());
                json!({"increase_member_limit": kv_u64(line, "limit").unwrap_or(0)})
            }
            "update_admins" => {
                let l: Vec<String> = kv_list(line, "admins").unwrap_or_default().iter().map(|a| name(*a as u64)).collect();
                json!({"update_admins": {"admins": l}})
            }
            "freeze" => json!({"freeze": {}}),
            _ => return Err("bad-op".into()),
        };
        self.fund(&sender, &funds);
        let app = &mut self.app;
        let r = catch(|| app.execute_contract(sender.clone(), wl, &msg, &funds))?;
        Ok(r.is_ok())
    }

    fn rebuild(&mut self) {
        let log = self.log.clone();
        let (app, code) = fresh_app();
        self.app = app;
        self.code = code;
        self.wl = None;
        for l in &log {
            let _ = self.apply(l);
        }
    }

    fn viol(&mut self, op: &str, pred: &str, what: String) {
        if self.pending.is_none() {
            self.pending = Some((format!("tiered-{}/{}/{}", self.v.name(), op, pred), what));
        }
    }

    /// clause 1: never more than three stages, start < end, a stage never starts before the previous one ends
    fn check_chain(&mut self, op: &str, post: &Snap) {
        let s = &post.stages;
        if s.len() > 3 {
            self.viol(op, "more-than-three-stages", format!("{} stages stored", s.len()));
        }
        for i in 0..s.len() {
            if !(s[i].start < s[i].stop) {
                self.viol(op, "start-not-before-end", format!("stage {i}: start {} end {}", s[i].start, s[i].stop));
            }
            for j in i + 1..s.len() {
                if s[j].start < s[i].stop {
                    self.viol(op, "stage-starts-before-previous-ends", format!("stage {j} starts {} before stage {i} ends {}", s[j].start, s[i].stop));
                }
            }
        }
    }

    fn exec_msg(&mut self, line: &str) -> String {
        let op = line.split_whitespace().next().unwrap_or("").to_string();
        let now = kv_u64(line, "now").unwrap_or(T0);
        let pre = self.pre.clone();
        let ok = match self.apply(line) {
            Ok(b) => b,
            Err(_) => {
                self.rebuild();
                false
            }
        };
        if ok {
            self.log.push(line.to_string());
        }
        let post = self.snap();
        if let Some(post) = &post {
            self.check_chain(&op, post);
            if ok && (op == "inst" || op == "add_stage") {
                // "created with one to three stages … the first stage starts in the future whenever stages are created or added"
                if post.stages.is_empty() || post.stages.len() > 3 {
                    self.viol(&op, "stage-count-not-1-to-3", format!("{} stages after `{line}`", post.stages.len()));
                } else if !(post.stages[0].start > now) {
                    self.viol(&op, "first-stage-not-in-future", format!("first stage starts {} at now {now}", post.stages[0].start));
                }
            }
            if ok && op == "remove_stage" {
                // "A stage can be removed only before it starts, and removing it removes every later stage together with all their members."
                let id = kv_u64(line, "id").unwrap_or(0) as usize;
                match &pre {
                    Some(pre) if id < pre.stages.len() => {
                        if !(now < pre.stages[id].start) {
                            self.viol(&op, "removed-after-start", format!("stage {id} (start {}) removed at now {now}", pre.stages[id].start));
                        }
                        if post.stages[..] != pre.stages[..id] {
                            self.viol(&op, "later-stages-not-removed", format!("stages after removal of {id}: {} (before: {})", stages_line(&post.stages), stages_line(&pre.stages)));
                        }
                        let mut gone = 0u64;
                        for k in id..4 {
                            gone += pre.members.get(k).map(|m| m.len() as u64).unwrap_or(0);
                            if post.members.get(k).map(|m| !m.is_empty()).unwrap_or(false) {
                                self.viol(&op, "members-of-removed-stage-remain", format!("stage {k} still lists {:?}", post.members[k]));
                            }
                        }
                        for k in 0..id.min(4) {
                            if post.members.get(k) != pre.members.get(k) {
                                self.viol(&op, "members-of-kept-stage-changed", format!("stage {k}"));
                            }
                        }
                        if post.num + gone != pre.num {
                            self.viol(&op, "num-members-not-reduced-exactly", format!("num_members {} -> {}, {gone} members removed", pre.num, post.num));
                        }
                    }
                    _ => self.viol(&op, "removed-nonexistent-stage", format!("`{line}` accepted")),
                }
            }
        }
        self.pre = post;
        if ok {
            self.summary()
        } else {
            "err".into()
        }
    }

    fn exec_query(&mut self, line: &str) -> (String, String) {
        let now = kv_u64(line, "now").unwrap_or(T0);
        if self.wl.is_none() {
            return (line.to_string(), "err".into());
        }
        self.set_time(now);
        let v = self.v;
        let lb = v != V::Merkle;
        let probes: Vec<u64> = kv_list(line, "probes").unwrap_or_default().iter().map(|x| *x as u64).collect();
        let b01 = |b: bool| if b { "1" } else { "0" };
        let join = |l: Vec<String>, sep: &str| if l.is_empty() { "-".to_string() } else { l.join(sep) };

        let act = self.q(json!({"active_stage_id": {}})).and_then(|x| x.as_u64());
        let is = self.q(json!({"is_active": {}})).and_then(|x| x["is_active"].as_bool());
        let hs = self.q(json!({"has_started": {}})).and_then(|x| x["has_started"].as_bool());
        let he = self.q(json!({"has_ended": {}})).and_then(|x| x["has_ended"].as_bool());
        let cfg = self.q(json!({"config": {}}));
        let asg = self.q(json!({"active_stage": {}}));
        let ob = |o: Option<bool>| o.map(|b| b01(b).to_string()).unwrap_or("e".into());
        let cfg_s = match &cfg {
            Some(c) => format!(
                "{}:{}:{}:{}:{}:{}:{}:{}:{}",
                c["num_members"].as_u64().unwrap_or(0),
                c["per_address_limit"].as_u64().unwrap_or(0),
                c["member_limit"].as_u64().unwrap_or(0),
                c["start_time"].as_str().unwrap_or("?"),
                c["end_time"].as_str().unwrap_or("?"),
                denom_id(c["mint_price"]["denom"].as_str().unwrap_or("")),
                c["mint_price"]["amount"].as_str().unwrap_or("?"),
                b01(c["is_active"].as_bool().unwrap_or(false)),
                fmt_opt(&c["whale_cap"].as_u64())
            ),
            None => "e".into(),
        };
        let as_s = match &asg {
            Some(Value::Null) => "-".to_string(),
            Some(j) => St::from_json(j).line(),
            None => "e".into(),
        };
        let sl = match self.q(json!({"stages": {}})) {
            Some(r) => join(
                r["stages"].as_array().cloned().unwrap_or_default().iter().map(|x| {
                    let c = if lb { x["member_count"].as_u64().unwrap_or(0).to_string() } else { root_to_nat(x["merkle_root"].as_str().unwrap_or("")).map(|n| n.to_string()).unwrap_or("?".into()) };
                    format!("{}@{}", St::from_json(&x["stage"]).line(), c)
                }).collect(),
                ";",
            ),
            None => "e".into(),
        };
        let st: Vec<String> = (0..4).map(|i| self.stage_q(i)).collect();

        let mut hm_v: Vec<Option<bool>> = vec![];
        let mut mb_v: Vec<Option<u64>> = vec![];
        let (mut hm, mut mb, mut smi, mut asmi, mut ms) = ("x".to_string(), "x".to_string(), "x".to_string(), "x".to_string(), "x".to_string());
        if lb {
            for a in &probes {
                hm_v.push(self.q(json!({"has_member": {"member": name(*a)}})).and_then(|r| r["has_member"].as_bool()));
            }
            hm = join(hm_v.iter().map(|o| ob(*o)).collect(), ",");
            if v == V::Flex {
                for a in &probes {
                    mb_v.push(self.q(json!({"member": {"member": name(*a)}})).and_then(|r| r["mint_count"].as_u64()));
                }
                mb = join(mb_v.iter().map(|o| o.map(|n| n.to_string()).unwrap_or("e".into())).collect(), ",");
            }
            let smi_of = |r: &Value| format!("{}:{}", b01(r["is_member"].as_bool().unwrap_or(false)), r["per_address_limit"].as_u64().unwrap_or(0));
            smi = join(
                probes.iter().map(|a| {
                    (0..4).map(|id| self.q(json!({"stage_member_info": {"stage_id": id, "member": name(*a)}})).map(|r| smi_of(&r)).unwrap_or("e".into())).collect::<Vec<_>>().join("+")
                }).collect(),
                ",",
            );
            asmi = join(
                probes.iter().map(|a| match self.q(json!({"all_stage_member_info": {"member": name(*a)}})) {
                    Some(r) => join(r["all_stage_member_info"].as_array().cloned().unwrap_or_default().iter().map(|x| smi_of(x)).collect(), "+"),
                    None => "e".into(),
                }).collect(),
                ",",
            );
            ms = (0..4).map(|k| self.members_of(k).map(|l| fmt_pairs(&l)).unwrap_or("e".into())).collect::<Vec<_>>().join("/");
        } else {
            // the list-based queries do not exist on the Merkle contract; make sure they stay rejected
            if self.q(json!({"members": {"start_after": null, "limit": 1, "stage_id": 0}})).is_some() {
                self.viol("q", "merkle-has-member-list", "Members query answered by the Merkle contract".into());
            }
        }
        let ce = join(
            probes.iter().map(|a| {
                self.q(json!({"can_execute": {"sender": name(*a), "msg": {"bank": {"send": {"to_address": "x", "amount": []}}}}}))
                    .and_then(|r| r["can_execute"].as_bool()).map(|b| b01(b).to_string()).unwrap_or("e".into())
            }).collect(),
            ",",
        );
        // Merkle probes: `mk=<member>:<hex+hex|->,…`
        let mut folded: Vec<Option<u128>> = vec![];
        let mut mk_v: Vec<Option<bool>> = vec![];
        let mut mk = "x".to_string();
        let mut roots_s = "x".to_string();
        if !lb {
            let mkv = kv(line, "mk").unwrap_or("-");
            if mkv != "-" {
                for p in mkv.split(',') {
                    let (m, pr) = p.split_once(':').unwrap_or((p, "-"));
                    let member = name(m.parse().unwrap_or(0));
                    let proof: Vec<String> = if pr == "-" { vec![] } else { pr.split('+').map(String::from).collect() };
                    folded.push(fold_proof(&member, &proof));
                    mk_v.push(self.q(json!({"has_member": {"member": member, "proof_hashes": proof}})).and_then(|r| r["has_member"].as_bool()));
                }
            }
            mk = join(mk_v.iter().map(|o| ob(*o)).collect(), ",");
            roots_s = match self.q(json!({"merkle_roots": {}})) {
                Some(r) => fmt_list(&r["merkle_roots"].as_array().cloned().unwrap_or_default().iter().map(|x| root_to_nat(x.as_str().unwrap_or("")).unwrap_or(0)).collect::<Vec<_>>()),
                None => "e".into(),
            };
        }

        // ---------------------------------------------------------------- monitors (on the implementation's own answers)
        if let Some(snap) = self.snap() {
            self.check_chain("q", &snap);
            let s = &snap.stages;
            let containing: Vec<usize> = (0..s.len()).filter(|i| s[*i].contains(now)).collect();
            // "At any instant at most one stage is reported active, namely the earliest stage whose window (both ends inclusive) contains the current time"
            let want = containing.first().copied();
            if act != Some(want.map(|i| i as u64 + 1).unwrap_or(0)) {
                self.viol("q", "active-stage-id-not-earliest-containing", format!("now {now}: ActiveStageId={:?}, windows containing now: {:?} in {}", act, containing, stages_line(s)));
            }
            let as_want = want.map(|i| s[i].line()).unwrap_or("-".into());
            if as_s != as_want {
                self.viol("q", "active-stage-not-earliest-containing", format!("now {now}: ActiveStage={as_s}, expected {as_want}"));
            }
            if is != Some(want.is_some()) || cfg.as_ref().and_then(|c| c["is_active"].as_bool()) != Some(want.is_some()) {
                self.viol("q", "is-active-mismatch", format!("now {now}: IsActive={:?} Config.is_active={:?}, expected {}", is, cfg.as_ref().map(|c| c["is_active"].clone()), want.is_some()));
            }
            if containing.len() > 2 {
                self.viol("q", "three-windows-contain-instant", format!("now {now}: {:?}", containing));
            }
            if containing.len() == 2 {
                let (i, j) = (containing[0], containing[1]);
                if !(s[i].stop == now && s[j].start == now && j == i + 1) {
                    self.viol("q", "two-windows-overlap-without-touching", format!("now {now}: stages {i},{j} of {}", stages_line(s)));
                }
            }
            // "membership, price and per-address limit answers come from that stage only (no active stage means no member)"
            if let (Some(i), Some(c)) = (want, &cfg) {
                let t = &s[i];
                let got = (
                    c["start_time"].as_str().unwrap_or("").to_string(),
                    c["end_time"].as_str().unwrap_or("").to_string(),
                    denom_id(c["mint_price"]["denom"].as_str().unwrap_or("")),
                    c["mint_price"]["amount"].as_str().unwrap_or("").to_string(),
                    c["per_address_limit"].as_u64().unwrap_or(0),
                );
                let exp = (t.start.to_string(), t.stop.to_string(), t.denom, t.price.to_string(), if v == V::Flex { 0 } else { t.pal });
                if got != exp {
                    self.viol("q", "config-not-from-active-stage", format!("now {now}: Config {:?}, active stage {i} = {}", got, t.line()));
                }
            }
            if lb {
                for (n, a) in probes.iter().enumerate() {
                    if *a == 0 {
                        continue;
                    }
                    let exp = want.map(|i| snap.members.get(i).map(|m| m.iter().any(|(x, _)| x == a)).unwrap_or(false)).unwrap_or(false);
                    if hm_v[n] != Some(exp) {
                        self.viol("q", "has-member-not-from-active-stage", format!("now {now}: HasMember({a})={:?}, active stage {:?}, members {:?}", hm_v[n], want, snap.members));
                    }
                    if v == V::Flex {
                        let expc = want.and_then(|i| snap.members.get(i).and_then(|m| m.iter().find(|(x, _)| x == a).map(|(_, c)| *c)));
                        if mb_v[n] != expc {
                            self.viol("q", "member-not-from-active-stage", format!("now {now}: Member({a})={:?}, expected {:?}", mb_v[n], expc));
                        }
                    }
                }
            } else {
                for (n, f) in folded.iter().enumerate() {
                    let exp: Option<bool> = match (want, f) {
                        (Some(i), Some(f)) => snap.roots.get(i).map(|r| root_to_nat(r) == Some(*f)),
                        _ => None, // no active stage / malformed proof: must not answer
                    };
                    if mk_v[n] != exp && !(mk_v[n].is_none() && exp == Some(false)) {
                        self.viol("q", "merkle-has-member-not-from-active-root", format!("now {now}: HasMember#{n}={:?}, expected {:?} (active {:?})", mk_v[n], exp, want));
                    }
                    if want.is_none() && mk_v[n].is_some() {
                        self.viol("q", "merkle-member-without-active-stage", format!("now {now}: HasMember#{n}={:?}", mk_v[n]));
                    }
                }
            }
        }

        let out = format!(
            "ok act={} is={} hs={} he={} cfg={cfg_s} as={as_s} sl={sl} st={} hm={hm} mb={mb} smi={smi} asmi={asmi} ms={ms} adm={} ce={ce} mk={mk} roots={roots_s}",
            act.map(|x| x.to_string()).unwrap_or("e".into()),
            ob(is),
            ob(hs),
            ob(he),
            st.join(";"),
            self.admin_str()
        );
        let model_line = if lb || folded.is_empty() {
            line.to_string()
        } else {
            format!("{line} folded={}", folded.iter().map(|f| f.map(|x| x.to_string()).unwrap_or("-".into())).collect::<Vec<_>>().join(","))
        };
        (model_line, out)
    }
}

impl Sut for S {
    fn begin(&mut self, header: &str) -> (String, String) {
        self.reset();
        self.v = V::parse(kv(header, "v").unwrap_or("plain"));
        (header.to_string(), "case".to_string())
    }
    fn exec(&mut self, line: &str) -> (String, String) {
        let op = line.split_whitespace().next().unwrap_or("");
        if op == "q" {
            self.exec_query(line)
        } else {
            let out = self.exec_msg(line);
            (line.to_string(), out)
        }
    }
    fn monitor(&mut self) -> Option<(String, String)> {
        self.pending.take()
    }
}

// ------------------------------------------------------------------------------------------------ generators

const ADMIN: u64 = 7;
const ADMIN2: u64 = 8;
const STRANGER: u64 = 9;
const POOL: [u64; 6] = [10, 11, 12, 13, 14, 15];

fn fee_for(v: V, limit: u64) -> u128 {
    match v {
        V::Merkle => 1_000_000_000,
        _ => ((limit as u128 + 999) / 1000) * 100_000_000,
    }
}

struct MerkleCtx {
    /// per stage: the members of its tree
    trees: Vec<Vec<u64>>,
}
impl MerkleCtx {
    fn roots(&self) -> Vec<String> {
        self.trees.iter().map(|m| tree_root_hex(&build_tree(m))).collect()
    }
    /// probes: every (member, proof from tree j) pair + a few malformed
    fn probes(&self, rng: &mut Rng) -> String {
        let mut v: Vec<String> = vec![];
        for t in &self.trees {
            let tree = build_tree(t);
            for (i, m) in t.iter().enumerate() {
                let p = tree_proof_hex(&tree, i);
                v.push(format!("{}:{}", m, if p.is_empty() { "-".to_string() } else { p.join("+") }));
            }
        }
        // a non-member with someone else's proof, and one malformed proof element
        v.push(format!("{}:-", 19));
        if rng.chance(1, 3) {
            v.push(format!("{}:{}", 10, "zz"));
        }
        if rng.chance(1, 3) {
            v.push(format!("{}:{}", 10, "00112233445566778899aabbccddeeff"));
        }
        v.sort();
        v.dedup();
        v.join(",")
    }
}

fn default_stage(k: u64, start: u64, stop: u64) -> St {
    St { name: k, start, stop, denom: 0, price: 100 + k as u128, pal: 1 + k, mcl: if k == 1 { Some(50) } else { None } }
}

#[allow(clippy::too_many_arguments)]
fn inst_line(v: V, now: u64, sender: u64, funds: &[(u128, u128)], limit: u64, whale: Option<u64>, admins: &[u64], mutable: bool, stages: &[St], members: &[Vec<(u128, u128)>], roots: &[String], uribad: bool) -> String {
    let _ = v;
    format!(
        "inst now={now} sender={sender} funds={} limit={limit} whale={} admins={} mutable={} stages={} members={} roots={} uribad={}",
        fmt_pairs(funds),
        fmt_opt(&whale),
        fmt_list(admins),
        mutable as u8,
        stages_line(stages),
        member_lists_line(members),
        if roots.is_empty() { "-".to_string() } else { roots.join(",") },
        uribad as u8
    )
}

/// a standard, valid instantiate for `stages` with member 10+j (count j+2) in stage j, and the shared member 15 everywhere
fn std_inst(v: V, now: u64, stages: &[St], mk: &mut MerkleCtx) -> String {
    let members: Vec<Vec<(u128, u128)>> = (0..stages.len()).map(|j| vec![(10 + j as u128, 2 + j as u128), (15, 7)]).collect();
    mk.trees = (0..stages.len()).map(|j| vec![10 + j as u64, 15]).collect();
    let limit = 10;
    inst_line(v, now, ADMIN, &[(0, fee_for(v, limit))], limit, None, &[ADMIN, ADMIN2], true, stages, &members, &mk.roots(), false)
}

fn q_line(v: V, now: u64, probes: &[u64], mk: &MerkleCtx, rng: &mut Rng) -> String {
    if v == V::Merkle {
        format!("q now={now} probes={} mk={}", fmt_list(probes), mk.probes(rng))
    } else {
        format!("q now={now} probes={}", fmt_list(probes))
    }
}

/// every stage edge −1/0/+1 ns (plus the origin)
fn edges(stages: &[St]) -> Vec<u64> {
    let mut v = vec![];
    for s in stages {
        for e in [s.start, s.stop] {
            v.extend([e.saturating_sub(1), e, e + 1]);
        }
    }
    v.sort();
    v.dedup();
    v
}

fn shape_of(stages: &[St]) -> String {
    let mut tags: Vec<&str> = vec![];
    for i in 0..stages.len() {
        let a = &stages[i];
        if a.start == a.stop {
            tags.push("eq");
        } else if a.start > a.stop {
            tags.push("rev");
        }
        for b in stages.iter().skip(i + 1) {
            if b.start == a.stop {
                tags.push("touch");
            } else if b.start > a.stop {
                tags.push("gap");
            } else if b.start >= a.start && b.stop <= a.stop {
                tags.push("nested");
            } else if b.stop <= a.start {
                tags.push("swapped");
            } else {
                tags.push("overlap");
            }
        }
    }
    tags.sort();
    tags.dedup();
    format!("n{}:{}", stages.len(), tags.join("+"))
}

fn clock_class(stages: &[St], now: u64) -> String {
    let c: Vec<usize> = (0..stages.len()).filter(|i| stages[*i].contains(now)).collect();
    let edge = stages.iter().any(|s| [s.start, s.stop].iter().any(|e| now + 1 == *e || now == *e || now == *e + 1));
    let pos = if stages.is_empty() {
        "nostage".to_string()
    } else if c.len() == 2 {
        format!("touch{}", c[0])
    } else if c.len() == 1 {
        format!("in{}", c[0])
    } else if now < stages[0].start {
        "before".into()
    } else if now > stages[stages.len() - 1].stop {
        "after".into()
    } else {
        "between".into()
    };
    format!("{pos}:{}", if edge { "edge" } else { "mid" })
}

fn outcome(out: &str) -> &'static str {
    if out.starts_with("ok") {
        "ok"
    } else {
        "err"
    }
}

/// a random valid chain of n stages starting after `after`, with touching/gap joints
fn valid_chain(rng: &mut Rng, n: usize, after: u64) -> Vec<St> {
    let mut t = after + rng.range(1, 3);
    let mut v = vec![];
    for k in 0..n {
        let start = t;
        let stop = start + rng.range(1, 4);
        v.push(St { name: k as u64, start, stop, denom: 0, price: rng.range(0, 500) as u128, pal: rng.range(1, 30), mcl: if rng.chance(1, 3) { Some(rng.range(1, 100)) } else { None } });
        t = if rng.chance(1, 2) { stop } else { stop + rng.range(1, 3) };
    }
    v
}

/// single-fault mutations of a stage list (window shapes + the non-window checks)
fn mutate_stages(rng: &mut Rng, v: V, now: u64, st: &mut Vec<St>) -> &'static str {
    if st.is_empty() {
        return "none";
    }
    let i = rng.below(st.len() as u64) as usize;
    let kind = rng.below(14);
    match kind {
        0 => {
            st[i].stop = st[i].start;
            "equal-endpoints"
        }
        1 => {
            let (a, b) = (st[i].start, st[i].stop);
            st[i].start = b;
            st[i].stop = a;
            "reversed"
        }
        2 if st.len() > 1 => {
            let j = (i + 1) % st.len();
            st.swap(i, j);
            "swapped-order"
        }
        3 if i + 1 < st.len() => {
            st[i + 1].start = st[i].stop - 1;
            if st[i + 1].stop <= st[i + 1].start {
                st[i + 1].stop = st[i + 1].start + 1;
            }
            "overlap-by-1ns"
        }
        4 if i + 1 < st.len() => {
            st[i].stop = st[i + 1].stop + 1;
            "nested"
        }
        5 if i + 1 < st.len() => {
            let c = st[i].clone();
            st[i + 1].start = c.start;
            st[i + 1].stop = c.stop;
            "identical-windows"
        }
        6 => {
            let d = st[0].start - now;
            for s in st.iter_mut() {
                s.start -= d;
                s.stop -= d;
            }
            "first-starts-now"
        }
        7 => {
            let d = st[0].start - now + 1;
            if now >= 1 {
                for s in st.iter_mut() {
                    s.start -= d;
                    s.stop -= d;
                }
            }
            "first-starts-before-now"
        }
        8 => {
            st[i].pal = 0;
            "pal-zero"
        }
        9 => {
            st[i].pal = match v {
                V::Merkle => 51,
                _ => 31,
            };
            "pal-above-max"
        }
        10 => {
            st[i].pal = match v {
                V::Merkle => 50,
                _ => 30,
            };
            "pal-at-max"
        }
        11 => {
            st[i].denom = 1;
            "denom-mismatch"
        }
        12 => {
            let c = st[st.len() - 1].clone();
            let mut k = st.len() as u64;
            while st.len() < 4 {
                st.push(St { name: k, start: c.stop + 2 * k, stop: c.stop + 2 * k + 1, ..c.clone() });
                k += 1;
            }
            "four-stages"
        }
        _ => {
            for s in st.iter_mut() {
                s.denom = 2;
            }
            "all-other-denom"
        }
    }
}

fn main() {
    let mut ses = Session::new("C13");
    let mut sut = S::new();
    if ses.maybe_replay(&mut sut) {
        ses.finish(&mut sut);
    }
    let mut rng = ses.rng.fork();
    let variants = [V::Plain, V::Flex, V::Merkle];
    let probes: Vec<u64> = vec![10, 11, 12, 15, 19];

    // ------------------------------------------------------------------ A. window-shape grid at instantiate
    // all stage lists over endpoints {1..4} (start,end both free: touching, nested, reversed, equal, gaps, swapped),
    // instantiated at now ∈ {0,1,2}; every successful one is queried at every instant 0..6 (= every edge ±1 ns).
    {
        let grid: Vec<(u64, u64)> = (1..=4).flat_map(|a| (1..=4).map(move |b| (a, b))).collect();
        let mut lists: Vec<Vec<(u64, u64)>> = vec![];
        for a in &grid {
            lists.push(vec![*a]);
        }
        for a in &grid {
            for b in &grid {
                lists.push(vec![*a, *b]);
            }
        }
        let n3 = ses.scale(350, 4096);
        if n3 >= 4096 {
            for a in &grid {
                for b in &grid {
                    for c in &grid {
                        lists.push(vec![*a, *b, *c]);
                    }
                }
            }
            ses.exhaustive = true;
        } else {
            // all VALID three-stage chains over the grid are few; take them all + a random sample of the rest
            for a in &grid {
                for b in &grid {
                    for c in &grid {
                        let ok = a.0 < a.1 && b.0 < b.1 && c.0 < c.1 && b.0 >= a.1 && c.0 >= b.1;
                        if ok || rng.below(4096) < n3 {
                            lists.push(vec![*a, *b, *c]);
                        }
                    }
                }
            }
        }
        for v in variants {
            let mut mk = MerkleCtx { trees: vec![] };
            let chunk = 120;
            for (ci, ch) in lists.chunks(chunk).enumerate() {
                ses.begin_case(&mut sut, &format!("case v={} grid-inst chunk={ci}", v.name()));
                for l in ch {
                    let stages: Vec<St> = l.iter().enumerate().map(|(k, (a, b))| default_stage(k as u64, T0 + a, T0 + b)).collect();
                    let nows: Vec<u64> = if ses.tier() == Tier::Quick { vec![*rng.pick(&[0u64, 0, 1, 2])] } else { vec![0, 1, 2] };
                    for n in nows {
                        let now = T0 + n;
                        let out = ses.step(&mut sut, &std_inst(v, now, &stages, &mut mk));
                        ses.mark(format!("{}:inst:{}:{}:first{}", v.name(), shape_of(&stages), outcome(&out), (stages[0].start as i128 - now as i128).signum()));
                        if out.starts_with("ok") {
                            for t in 0..=6u64 {
                                ses.step(&mut sut, &q_line(v, T0 + t, &probes, &mk, &mut rng));
                                ses.mark(format!("{}:q:{}", v.name(), clock_class(&stages, T0 + t)));
                            }
                        }
                    }
                }
                ses.end_case();
            }
        }
    }

    // ------------------------------------------------------------------ B. update_stage_config grid
    // base chain (touching + gap): [2,4] [4,6] [8,10]; every stage id 0..3 × field × every value 0..12, at a clock
    // before / inside / after the chain (validate_update has no future check), then queries at all edges ±1.
    for v in variants {
        let base: Vec<St> = vec![default_stage(0, T0 + 2, T0 + 4), default_stage(1, T0 + 4, T0 + 6), default_stage(2, T0 + 8, T0 + 10)];
        let mut mk = MerkleCtx { trees: vec![] };
        let vals: Vec<u64> = (0..=12).collect();
        for id in 0..4u64 {
            ses.begin_case(&mut sut, &format!("case v={} grid-update id={id}", v.name()));
            for field in ["start", "stop", "both"] {
                for x in &vals {
                    if field == "both" && !rng.chance(ses.scale(1, 3), 3) {
                        continue;
                    }
                    ses.step(&mut sut, &std_inst(v, T0, &base, &mut mk));
                    let now = T0 + *rng.pick(&[0u64, 3, 4, 5, 7, 11]);
                    let (s, e) = match field {
                        "start" => (Some(T0 + x), None),
                        "stop" => (None, Some(T0 + x)),
                        _ => (Some(T0 + x), Some(T0 + rng.range(0, 12))),
                    };
                    let line = format!("update_stage now={now} sender={ADMIN} id={id} name=- start={} stop={} price=- pal=- mcl=-", fmt_opt(&s), fmt_opt(&e));
                    let out = ses.step(&mut sut, &line);
                    let mut after = base.clone();
                    if (id as usize) < after.len() {
                        if let Some(s) = s {
                            after[id as usize].start = s;
                        }
                        if let Some(e) = e {
                            after[id as usize].stop = e;
                        }
                    }
                    ses.mark(format!("{}:update:{field}:id{id}:{}:{}", v.name(), shape_of(&after), outcome(&out)));
                    let cur = if out.starts_with("ok") { after } else { base.clone() };
                    let ts = edges(&cur);
                    let take = if ses.tier() == Tier::Quick { 4 } else { ts.len() };
                    let mut ts2 = ts.clone();
                    rng.shuffle(&mut ts2);
                    for t in ts2.into_iter().take(take) {
                        ses.step(&mut sut, &q_line(v, t, &probes, &mk, &mut rng));
                        ses.mark(format!("{}:q:{}", v.name(), clock_class(&cur, t)));
                    }
                }
            }
            ses.end_case();
        }
    }

    // ------------------------------------------------------------------ C. remove_stage at every boundary instant
    for v in [V::Plain, V::Flex, V::Merkle] {
        let base: Vec<St> = vec![default_stage(0, T0 + 2, T0 + 4), default_stage(1, T0 + 4, T0 + 6), default_stage(2, T0 + 8, T0 + 10)];
        let mut mk = MerkleCtx { trees: vec![] };
        ses.begin_case(&mut sut, &format!("case v={} remove-grid", v.name()));
        let mut ts = edges(&base);
        ts.insert(0, T0);
        for id in 0..4u64 {
            for t in &ts {
                ses.step(&mut sut, &std_inst(v, T0, &base, &mut mk));
                let sender = if rng.chance(1, 10) { STRANGER } else { ADMIN };
                let out = ses.step(&mut sut, &format!("remove_stage now={t} sender={sender} id={id}"));
                let rel = base.get(id as usize).map(|s| (*t as i128 - s.start as i128).clamp(-2, 2)).unwrap_or(99);
                ses.mark(format!("{}:remove:id{id}:rel{rel}:{}:{}", v.name(), if sender == ADMIN { "admin" } else { "stranger" }, outcome(&out)));
                ses.step(&mut sut, &q_line(v, *t, &probes, &mk, &mut rng));
                if out.starts_with("ok") && v != V::Merkle {
                    // re-add a stage after the truncation (first stage must be in the future again when the list became empty)
                    let st = default_stage(5, t + rng.range(0, 2), t + 3);
                    let o2 = ses.step(&mut sut, &format!("add_stage now={t} sender={ADMIN} stage={} members=12:3,15:1", st.line()));
                    ses.mark(format!("{}:add-after-remove:id{id}:{}", v.name(), outcome(&o2)));
                    ses.step(&mut sut, &q_line(v, t + 1, &probes, &mk, &mut rng));
                }
            }
        }
        ses.end_case();
    }

    // ------------------------------------------------------------------ E. exhaustive short histories over a small alphabet
    // every sequence of `depth` symbolic messages × 2 clocks (before the first start / exactly at it) from a touching
    // two-stage chain; symbols are made concrete against the contract's current stage list (state-dependent generation).
    {
        let depth = ses.scale(2, 3) as usize;
        let syms = ["add_touch", "add_gap", "add_overlap", "rm0", "rm1", "rm2", "upd_touch", "upd_overlap", "upd_eq", "addm"];
        let alpha: Vec<(usize, bool)> = (0..syms.len()).flat_map(|i| [(i, false), (i, true)]).collect();
        let total = alpha.len().pow(depth as u32);
        for v in variants {
            let mut mk = MerkleCtx { trees: vec![] };
            let base: Vec<St> = vec![default_stage(0, T0 + 2, T0 + 4), default_stage(1, T0 + 4, T0 + 6)];
            let mut n = 0usize;
            while n < total {
                ses.begin_case(&mut sut, &format!("case v={} exhaustive depth={depth} from={n}", v.name()));
                let hi = (n + 50).min(total);
                for code in n..hi {
                    ses.step(&mut sut, &std_inst(v, T0, &base, &mut mk));
                    let mut c = code;
                    let mut tag = String::new();
                    for _ in 0..depth {
                        let (si, at_start) = alpha[c % alpha.len()];
                        c /= alpha.len();
                        let stages = sut.pre.as_ref().map(|p| p.stages.clone()).unwrap_or_default();
                        let first_start = stages.first().map(|s| s.start).unwrap_or(T0 + 2);
                        let now = if at_start { first_start } else { first_start.saturating_sub(1) };
                        let last_stop = stages.last().map(|s| s.stop).unwrap_or(now + 1);
                        let s0_stop = stages.first().map(|s| s.stop).unwrap_or(now + 1);
                        let line = match syms[si] {
                            "add_touch" => format!("add_stage now={now} sender={ADMIN} stage={} members=12:2,15:1", default_stage(3, last_stop, last_stop + 2).line()),
                            "add_gap" => format!("add_stage now={now} sender={ADMIN} stage={} members=13:2", default_stage(4, last_stop + 1, last_stop + 3).line()),
                            "add_overlap" => format!("add_stage now={now} sender={ADMIN} stage={} members=-", default_stage(5, last_stop - 1, last_stop + 2).line()),
                            "rm0" => format!("remove_stage now={now} sender={ADMIN} id=0"),
                            "rm1" => format!("remove_stage now={now} sender={ADMIN} id=1"),
                            "rm2" => format!("remove_stage now={now} sender={ADMIN} id=2"),
                            "upd_touch" => format!("update_stage now={now} sender={ADMIN} id=1 name=- start={} stop=- price=- pal=- mcl=-", s0_stop),
                            "upd_overlap" => format!("update_stage now={now} sender={ADMIN} id=1 name=- start={} stop=- price=- pal=- mcl=-", s0_stop - 1),
                            "upd_eq" => format!("update_stage now={now} sender={ADMIN} id=0 name=- start=- stop={} price=- pal=- mcl=-", first_start),
                            _ => format!("add_members now={now} sender={ADMIN} id=1 members=12:2"),
                        };
                        let out = ses.step(&mut sut, &line);
                        tag.push_str(&format!("{}{}{}.", syms[si], if at_start { "@" } else { "<" }, if out.starts_with("ok") { "+" } else { "-" }));
                    }
                    ses.mark(format!("{}:seq:{tag}", v.name()));
                    let stages = sut.pre.as_ref().map(|p| p.stages.clone()).unwrap_or_default();
                    let mut ts = edges(&stages);
                    if ts.is_empty() {
                        ts.push(T0 + 1);
                    }
                    if ses.tier() == Tier::Quick {
                        rng.shuffle(&mut ts);
                        ts.truncate(2);
                    }
                    for t in ts {
                        ses.step(&mut sut, &q_line(v, t, &probes, &mk, &mut rng));
                    }
                }
                ses.end_case();
                n = hi;
            }
        }
        ses.note(format!("exhaustive: all {} sequences of {} symbolic messages × 2 clocks per variant", total, depth));
    }

    // ------------------------------------------------------------------ D. random histories (mostly valid, single faults, boundary clock)
    let n_traces = ses.scale(450, 9000);
    for tr in 0..n_traces {
        let v = variants[(tr % 3) as usize];
        let mut mk = MerkleCtx { trees: vec![] };
        ses.begin_case(&mut sut, &format!("case v={} random trace={tr}", v.name()));
        let mut now = T0 + rng.range(0, 5);
        // model of what we believe the state is — only used to aim the generator (never for the verdict)
        let mut cur: Vec<St> = vec![];
        let mut alive = false;
        let mut limit: u64 = 0;
        let mut admins: Vec<u64> = vec![ADMIN, ADMIN2];
        let n_ops = rng.range(8, 30);
        for _ in 0..n_ops {
            if !alive {
                let n = *rng.pick(&[1usize, 1, 2, 2, 2, 3, 3]);
                let mut stages = valid_chain(&mut rng, n, now);
                let mut fault = "none";
                if rng.chance(3, 10) {
                    fault = mutate_stages(&mut rng, v, now, &mut stages);
                }
                limit = *rng.pick(&[1u64, 5, 10, 999, 1000, 1001, 2000, 30000]);
                let mut fee = fee_for(v, limit);
                let mut funds = vec![(0u128, fee)];
                let mut whale = if v == V::Flex && rng.chance(1, 2) { Some(limit + rng.range(1, 20)) } else { None };
                let mut members: Vec<Vec<(u128, u128)>> = (0..stages.len())
                    .map(|_| {
                        let k = rng.range(0, 3);
                        (0..k).map(|_| (*rng.pick(&POOL) as u128, rng.range(1, 9) as u128)).collect()
                    })
                    .collect();
                mk.trees = (0..stages.len()).map(|_| if rng.chance(1, 2) { vec![*rng.pick(&POOL)] } else { vec![*rng.pick(&POOL[..3]), *rng.pick(&POOL[3..])] }).collect();
                let mut roots = mk.roots();
                let mut uribad = false;
                let mut adm = admins.clone();
                if fault == "none" && rng.chance(3, 10) {
                    fault = match rng.below(12) {
                        0 => {
                            fee += 1;
                            funds = vec![(0, fee)];
                            "fee+1"
                        }
                        1 => {
                            funds = vec![(0, fee - 1)];
                            "fee-1"
                        }
                        2 => {
                            funds = vec![];
                            "no-funds"
                        }
                        3 => {
                            funds = vec![(1, fee)];
                            "wrong-denom"
                        }
                        4 => {
                            limit = *rng.pick(&[0u64, 30001]);
                            funds = vec![(0, fee_for(v, limit).max(1))];
                            "limit-out-of-range"
                        }
                        5 => {
                            members.push(vec![(14, 1)]);
                            "extra-member-list"
                        }
                        6 => {
                            members.pop();
                            "missing-member-list"
                        }
                        7 => {
                            whale = Some(limit.saturating_sub(rng.range(0, 1)));
                            "whale-not-above-limit"
                        }
                        8 => {
                            roots.pop();
                            "missing-root"
                        }
                        9 => {
                            if let Some(r) = roots.first_mut() {
                                *r = if rng.chance(1, 2) { r[..30].to_string() } else { format!("zz{}", &r[2..]) };
                            }
                            "bad-root"
                        }
                        10 => {
                            uribad = true;
                            "bad-uri"
                        }
                        _ => {
                            adm = vec![ADMIN, 0];
                            "invalid-admin"
                        }
                    };
                }
                if v == V::Flex && rng.chance(1, 5) {
                    // a member above the whale cap / duplicates with different counts
                    if let Some(l) = members.first_mut() {
                        l.push((13, 40));
                        l.push((13, 2));
                    }
                }
                if rng.chance(1, 8) {
                    if let Some(l) = members.last_mut() {
                        l.push((0, 1));
                    }
                }
                if v == V::Merkle && rng.chance(1, 2) {
                    limit |= 1; // odd ⇒ a valid tree URI is supplied
                }
                let line = inst_line(v, now, ADMIN, &funds, limit, whale, &adm, !rng.chance(1, 6), &stages, &members, &roots, uribad);
                let out = ses.step(&mut sut, &line);
                ses.mark(format!("{}:inst:{}:{fault}:{}", v.name(), shape_of(&stages), outcome(&out)));
                if out.starts_with("ok") {
                    alive = true;
                    cur = stages;
                    admins = adm;
                }
                continue;
            }
            // boundary clock: with probability 1/2 jump to an edge ±1 ns of the current stages, else drift
            if rng.chance(1, 2) && !cur.is_empty() {
                now = *rng.pick(&edges(&cur));
            } else if rng.chance(1, 2) {
                now += rng.range(0, 3);
            }
            let sender = if rng.chance(1, 10) { STRANGER } else { *rng.pick(&admins) };
            let who = if sender == STRANGER { "stranger" } else { "admin" };
            let mut k = rng.below(100);
            if v == V::Merkle && (45..55).contains(&k) || v == V::Merkle && (75..95).contains(&k) {
                // list-based messages do not exist on the Merkle contract: keep a few (they must be rejected), re-draw the rest
                if !rng.chance(1, 6) {
                    k = *rng.pick(&[10u64, 60, 60, 60, 96, 99]);
                }
            }
            if v == V::Merkle && (30..45).contains(&k) && !rng.chance(1, 6) {
                k = 60;
            }
            // aim the clock: list edits that are only allowed before a stage starts get a clock before that start most of the time
            let beyond = if rng.chance(1, 8) { 1 } else { 0 };
            let target_id = rng.below(cur.len() as u64 + beyond);
            if (30..55).contains(&k) || (85..92).contains(&k) {
                if let Some(st) = cur.get(if (30..45).contains(&k) { 0 } else { target_id as usize }) {
                    if rng.chance(3, 5) && now >= st.start {
                        now = st.start - rng.range(1, 2);
                    }
                }
            }
            if k < 30 {
                let out = ses.step(&mut sut, &q_line(v, now, &probes, &mk, &mut rng));
                ses.mark(format!("{}:q:{}:{}", v.name(), clock_class(&cur, now), outcome(&out)));
            } else if k < 45 {
                // add_stage: valid = after the last stage (touching or gap), in the future when the list is empty
                let last_stop = cur.last().map(|s| s.stop).unwrap_or(now);
                let mut st = valid_chain(&mut rng, 1, last_stop.max(now))[0].clone();
                st.name = rng.range(0, 9);
                let mut fault = "none";
                if rng.chance(1, 3) && !cur.is_empty() {
                    st.start = last_stop;
                    st.stop = st.start + rng.range(1, 3);
                    fault = "touching";
                }
                if rng.chance(3, 10) {
                    let l = cur.last().cloned().unwrap_or(st.clone());
                    fault = match rng.below(8) {
                        0 => { st.start = l.stop.saturating_sub(1); st.stop = st.start + 2; "overlap-by-1ns" }
                        1 => { st.start = l.start; st.stop = l.stop; "identical-windows" }
                        2 => { st.stop = st.start; "equal-endpoints" }
                        3 => { let a = st.start; st.start = st.stop; st.stop = a; "reversed" }
                        4 => { st.start = l.start.saturating_sub(3); st.stop = l.start.saturating_sub(1).max(st.start + 1); "before-previous" }
                        5 => { st.pal = 0; "pal-zero" }
                        6 => { st.denom = 1; "denom-mismatch" }
                        _ => { st.start = now; st.stop = now + 2; "starts-now" }
                    };
                }
                let nm = rng.range(0, 3);
                let members: Vec<(u128, u128)> = (0..nm).map(|_| (*rng.pick(&POOL) as u128, rng.range(1, 9) as u128)).collect();
                let out = ses.step(&mut sut, &format!("add_stage now={now} sender={sender} stage={} members={}", st.line(), fmt_pairs(&members)));
                ses.mark(format!("{}:add_stage:have{}:{fault}:{who}:{}", v.name(), cur.len(), outcome(&out)));
                if out.starts_with("ok") {
                    cur.push(st);
                }
            } else if k < 55 {
                let id = if rng.chance(1, 6) { rng.below(4) } else { target_id };
                let out = ses.step(&mut sut, &format!("remove_stage now={now} sender={sender} id={id}"));
                let rel = cur.get(id as usize).map(|s| (now as i128 - s.start as i128).clamp(-2, 2)).unwrap_or(99);
                ses.mark(format!("{}:remove_stage:rel{rel}:{who}:{}", v.name(), outcome(&out)));
                if out.starts_with("ok") {
                    cur.truncate(id as usize);
                }
            } else if k < 75 {
                // update_stage_config: mostly small moves of one edge onto / across a neighbour's edge
                let extra = if rng.chance(1, 10) { 1 } else { 0 };
                let id = if cur.is_empty() { 0 } else { rng.below(cur.len() as u64 + extra) };
                let mut neigh: Vec<u64> = edges(&cur);
                neigh.push(now);
                neigh.push(now + 1);
                let s = if rng.chance(1, 2) { Some(*rng.pick(&neigh)) } else { None };
                let e = if rng.chance(1, 2) { Some(*rng.pick(&neigh)) } else { None };
                let price = if rng.chance(1, 4) { format!("{}:{}", if rng.chance(1, 5) { 1 } else { 0 }, rng.range(0, 900)) } else { "-".into() };
                let pal = if rng.chance(1, 4) { Some(*rng.pick(&[0u64, 1, 30, 31, 50, 51])) } else { None };
                let mcl = if rng.chance(1, 5) { Some(rng.range(0, 90)) } else { None };
                let nm = if rng.chance(1, 5) { Some(rng.range(0, 9)) } else { None };
                let line = format!("update_stage now={now} sender={sender} id={id} name={} start={} stop={} price={price} pal={} mcl={}", fmt_opt(&nm), fmt_opt(&s), fmt_opt(&e), fmt_opt(&pal), fmt_opt(&mcl));
                let out = ses.step(&mut sut, &line);
                let mut after = cur.clone();
                if let Some(st) = after.get_mut(id as usize) {
                    if let Some(s) = s { st.start = s; }
                    if let Some(e) = e { st.stop = e; }
                }
                ses.mark(format!("{}:update:{}:{who}:{}", v.name(), shape_of(&after), outcome(&out)));
                if out.starts_with("ok") {
                    cur = after;
                }
            } else if k < 85 {
                let id = rng.below(cur.len() as u64 + 1);
                let nm = rng.range(1, 3);
                let mut members: Vec<(u128, u128)> = (0..nm).map(|_| (*rng.pick(&POOL) as u128, rng.range(1, 9) as u128)).collect();
                if rng.chance(1, 10) { members.push((0, 1)); }
                let out = ses.step(&mut sut, &format!("add_members now={now} sender={sender} id={id} members={}", fmt_pairs(&members)));
                ses.mark(format!("{}:add_members:{}:{who}:{}", v.name(), if (id as usize) < cur.len() { "stage-ok" } else { "no-stage" }, outcome(&out)));
            } else if k < 92 {
                let id = target_id;
                let nm = rng.range(1, 2);
                // aim at members the contract really lists for that stage (state-dependent generation), 1 in 4 arbitrary
                let present: Vec<u64> = sut.pre.as_ref().and_then(|p| p.members.get(id as usize).cloned()).unwrap_or_default().iter().map(|(a, _)| *a).collect();
                let mut addrs: Vec<u64> = vec![];
                for _ in 0..nm {
                    let a = if !present.is_empty() && !rng.chance(1, 4) { *rng.pick(&present) } else { *rng.pick(&POOL) };
                    if !addrs.contains(&a) || rng.chance(1, 5) {
                        addrs.push(a);
                    }
                }
                let out = ses.step(&mut sut, &format!("remove_members now={now} sender={sender} id={id} addrs={}", fmt_list(&addrs)));
                let rel = cur.get(id as usize).map(|s| (now as i128 - s.start as i128).clamp(-2, 2)).unwrap_or(99);
                ses.mark(format!("{}:remove_members:rel{rel}:{who}:{}", v.name(), outcome(&out)));
            } else if k < 95 {
                let nl = *rng.pick(&[limit, limit + 1, 1000, 1001, 2001, 30000, 30001]);
                let fee = if (nl + 999) / 1000 > (limit + 999) / 1000 { (((nl + 999) / 1000) - ((limit + 999) / 1000)) as u128 * 100_000_000 } else { 0 };
                let funds: Vec<(u128, u128)> = match rng.below(5) {
                    0 => vec![(0, fee + 1)],
                    1 => vec![],
                    _ => if fee == 0 { vec![] } else { vec![(0, fee)] },
                };
                let out = ses.step(&mut sut, &format!("increase_limit now={now} sender={sender} funds={} limit={nl}", fmt_pairs(&funds)));
                ses.mark(format!("{}:increase_limit:{}", v.name(), outcome(&out)));
                if out.starts_with("ok") {
                    limit = nl;
                }
            } else if k < 98 {
                let na: Vec<u64> = match rng.below(4) { 0 => vec![ADMIN], 1 => vec![ADMIN2, ADMIN], 2 => vec![ADMIN, 0], _ => vec![ADMIN2] };
                let out = ses.step(&mut sut, &format!("update_admins now={now} sender={sender} admins={}", fmt_list(&na)));
                ses.mark(format!("{}:update_admins:{who}:{}", v.name(), outcome(&out)));
                if out.starts_with("ok") {
                    admins = na;
                }
            } else {
                let out = ses.step(&mut sut, &format!("freeze now={now} sender={sender}"));
                ses.mark(format!("{}:freeze:{who}:{}", v.name(), outcome(&out)));
            }
            // every message is followed, with probability 1/2, by a full observation at an edge instant
            if rng.chance(1, 2) {
                let t = if cur.is_empty() || rng.chance(1, 4) { now } else { *rng.pick(&edges(&cur)) };
                let out = ses.step(&mut sut, &q_line(v, t, &probes, &mk, &mut rng));
                ses.mark(format!("{}:q:{}:{}", v.name(), clock_class(&cur, t), outcome(&out)));
            }
        }
        ses.end_case();
    }

    ses.note("clock: block time is set per line; queries are issued at every stage edge −1/0/+1 ns (grids) or at a random edge ±1 ns with probability ≥ 1/2 (random histories)");
    ses.note("window shapes: all stage lists over a 4-point endpoint grid (touching, nested, reversed, equal endpoints, gaps, swapped order) at instantiate; every single-edge move 0..12 at update_stage_config; mutations at add_stage");
    ses.note("Merkle: 1–2 element trees built with rs_merkle (16-byte truncated BLAKE3, sorted pairs); the proof fold is re-computed by the harness and passed to the model as witness `folded=`");
    ses.finish(&mut sut);
}
