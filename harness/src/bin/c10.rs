//! C10 — royalties of the four collection contracts (sg721-base, sg721-nt, sg721-updatable, sg721-metadata-onchain): the REAL
//! `instantiate` / `execute` / `query` / `migrate` entry points (under cw-multi-test, instantiated by a stub "minter" contract
//! because the collections insist on a contract sender) and the REAL `CollectionInfoResponse::royalty_payout`, against the Lean
//! model `LP.Royalty` (driver `drv_c10`).
//!
//! Protocol lines: see `lean/LaunchpadModel/Driver/C10.lean`. Every state line carries its block time `at=<ns>`.
//! Conventions shared with the model (each is *checked* by the run, not trusted):
//!   * address id 0 -> "x" (too short), 5 -> "ACCT00005" (not normalised): rejected by `addr_validate`; else `world::addr`;
//!   * image / link id: even -> "https://…/<id>" (valid URL), odd -> "bad<id>" (`Url::parse` fails);
//!   * description = "d" repeated `desc` times; shares are Decimal atomics (10^18 = 100 %).
//!
//! Round 3:
//!   * all messages are raw JSON; the message surface of every kind is enumerated at RUN TIME from the crate's JSON schema
//!     (`schema_for!(ExecuteMsg)`): every variant — also one this file has never heard of — is sent under the monitors;
//!   * the compared answer is `roy upd frozen creator ## kind ver desc image link explicit stt` (after ` ## `: DRIFT only);
//!   * monitors judge from GHOST state (what the harness sent and which calls were accepted), not from the contract's answers;
use cosmwasm_schema::cw_serde;
use cosmwasm_std::{
    to_json_binary, Addr, Binary, Coin, Decimal, Deps, DepsMut, Empty, Env, MessageInfo, Reply, Response, StdError, StdResult, SubMsg, Timestamp,
    Uint128, Uint256, WasmMsg,
};
use cw_multi_test::{BankSudo, ContractWrapper, Executor, SudoMsg};
use cw_storage_plus::Item;
use lp_harness::boxes::{self, App};
use lp_harness::world::*;
use lp_harness::*;
use serde_json::{json, Map, Value};
use sg721_base::msg::CollectionInfoResponse;
use std::str::FromStr;

const DAY: u64 = 24 * 60 * 60 * 1_000_000_000; // the property's "24 hours", in ns
const ONE: u128 = 1_000_000_000_000_000_000; // 100 %
const PCT: u128 = ONE / 100;
const STUB_ID: u64 = 1000; // the stub minter (first contract of the world)
const COLL_ID: u64 = 1001; // the collection (whatever address cw-multi-test gives it)
const ADMIN: u64 = 9;

// ------------------------------------------------------------------------------------------------ kinds

#[derive(Clone, Copy, PartialEq, Eq, Debug)]
enum Kind {
    Base,
    Nt,
    Updatable,
    Onchain,
}
const KINDS: [Kind; 4] = [Kind::Base, Kind::Nt, Kind::Updatable, Kind::Onchain];
impl Kind {
    fn name(self) -> &'static str {
        match self {
            Kind::Base => "base",
            Kind::Nt => "nt",
            Kind::Updatable => "updatable",
            Kind::Onchain => "onchain",
        }
    }
    fn parse(s: &str) -> Option<Kind> {
        KINDS.iter().copied().find(|k| k.name() == s)
    }
    fn idx(self) -> usize {
        KINDS.iter().position(|k| *k == self).unwrap()
    }
    fn key(self) -> String {
        if self == Kind::Onchain {
            "sg721-metadata-onchain".into()
        } else {
            format!("sg721-{}", self.name())
        }
    }
    fn boxed(self) -> boxes::Boxed {
        match self {
            Kind::Base => boxes::sg721_base(),
            Kind::Nt => boxes::sg721_nt(),
            Kind::Updatable => boxes::sg721_updatable(),
            Kind::Onchain => boxes::sg721_metadata_onchain(),
        }
    }
}

// ------------------------------------------------------------------------------------------------ run-time message surface

/// variants this file has a NAMED protocol op for; everything else found in a schema goes through `other v=<variant>`
const OWN_OPS: [&str; 3] = ["update_collection_info", "freeze_collection_info", "update_start_trading_time"];
/// variants `other` builds by hand (so that they can succeed); any OTHER name is filled from the schema
const HAND_BUILT: [&str; 10] = ["mint", "transfer_nft", "send_nft", "approve", "revoke", "approve_all", "revoke_all", "burn", "update_ownership", "update_token_metadata"];

fn exec_schema(k: Kind) -> Value {
    use cosmwasm_schema::schema_for;
    let r = match k {
        Kind::Base => schema_for!(sg721_base::ExecuteMsg),
        Kind::Nt => schema_for!(sg721_nt::msg::ExecuteMsg<cw721_base::Extension>),
        Kind::Updatable => schema_for!(sg721_updatable::msg::ExecuteMsg<cw721_base::Extension, Empty>),
        Kind::Onchain => schema_for!(sg721_metadata_onchain::ExecuteMsg),
    };
    serde_json::to_value(&r).expect("schema to json")
}

/// (variant name in snake case, schema of its payload; None for a unit variant serialised as a bare string)
fn schema_variants(root: &Value) -> Vec<(String, Option<Value>)> {
    let mut out = vec![];
    let mut alts: Vec<Value> = vec![];
    for k in ["oneOf", "anyOf"] {
        if let Some(a) = root[k].as_array() {
            alts.extend(a.iter().cloned());
        }
    }
    if alts.is_empty() {
        alts.push(root.clone());
    }
    for alt in alts {
        if let Some(en) = alt["enum"].as_array() {
            for e in en {
                if let Some(s) = e.as_str() {
                    out.push((s.to_string(), None));
                }
            }
        } else if let Some(req) = alt["required"].as_array() {
            if let Some(name) = req.first().and_then(|x| x.as_str()) {
                out.push((name.to_string(), Some(alt["properties"][name].clone())));
            }
        }
    }
    out.sort_by(|a, b| a.0.cmp(&b.0));
    out.dedup_by(|a, b| a.0 == b.0);
    out
}

/// minimal JSON value for a schema: integers = k, strings = k (an address when the field name looks like one), options = null
fn fill(s: &Value, defs: &Value, k: u64, hint: &str, depth: u32) -> Value {
    if depth > 8 {
        return Value::Null;
    }
    if let Some(r) = s["$ref"].as_str() {
        let name = r.rsplit('/').next().unwrap_or("");
        return fill(&defs[name], defs, k, hint, depth + 1);
    }
    if let Some(a) = s["allOf"].as_array() {
        if let Some(f) = a.first() {
            return fill(f, defs, k, hint, depth + 1);
        }
    }
    for key in ["anyOf", "oneOf"] {
        if let Some(a) = s[key].as_array() {
            if a.iter().any(|x| x["type"] == "null") {
                return Value::Null;
            }
            if let Some(f) = a.first() {
                if let Some(req) = f["required"].as_array().and_then(|r| r.first()).and_then(|x| x.as_str()) {
                    let mut m = Map::new();
                    m.insert(req.to_string(), fill(&f["properties"][req], defs, k, req, depth + 1));
                    return Value::Object(m);
                }
                return fill(f, defs, k, hint, depth + 1);
            }
        }
    }
    if let Some(en) = s["enum"].as_array() {
        return en.first().cloned().unwrap_or(Value::Null);
    }
    let ty: String = match &s["type"] {
        Value::String(t) => t.clone(),
        Value::Array(ts) => {
            if ts.iter().any(|t| t == "null") {
                return Value::Null;
            }
            ts.first().and_then(|t| t.as_str()).unwrap_or("").to_string()
        }
        _ => String::new(),
    };
    match ty.as_str() {
        "integer" | "number" => json!(k),
        "string" => {
            let h = hint.to_lowercase();
            if ["addr", "recipient", "contract", "owner", "sender", "admin", "spender", "operator", "creator"].iter().any(|w| h.contains(w)) {
                json!(addr(11 + k % 3))
            } else {
                json!(k.to_string())
            }
        }
        "boolean" => json!(k % 2 == 1),
        "array" => json!([]),
        "object" => {
            let mut m = Map::new();
            if let Some(req) = s["required"].as_array() {
                for r in req.iter().filter_map(|x| x.as_str()) {
                    m.insert(r.to_string(), fill(&s["properties"][r], defs, k, r, depth + 1));
                }
            }
            Value::Object(m)
        }
        _ => Value::Null,
    }
}

/// raw message for a variant found in a schema
fn raw_variant_msg(root: &Value, name: &str, k: u64) -> Option<Value> {
    let defs = &root["definitions"];
    schema_variants(root).into_iter().find(|(n, _)| n == name).map(|(n, sch)| match sch {
        None => Value::String(n),
        Some(s) => {
            let mut m = Map::new();
            m.insert(n.clone(), fill(&s, defs, k, &n, 0));
            Value::Object(m)
        }
    })
}

// ------------------------------------------------------------------------------------------------ stub minter

#[cw_serde]
enum StubExec {
    Inst { code_id: u64, msg: Binary, funds: Vec<Coin>, admin: Option<String> },
    Exec { contract: String, msg: Binary },
}
const STUB_LAST: Item<String> = Item::new("last_instantiated");
fn stub_instantiate(_d: DepsMut, _e: Env, _i: MessageInfo, _m: Empty) -> StdResult<Response> {
    Ok(Response::new())
}
fn stub_execute(_d: DepsMut, _e: Env, _i: MessageInfo, m: StubExec) -> StdResult<Response> {
    Ok(match m {
        StubExec::Inst { code_id, msg, funds, admin } => {
            Response::new().add_submessage(SubMsg::reply_on_success(WasmMsg::Instantiate { admin, code_id, msg, funds, label: "collection".into() }, 1))
        }
        StubExec::Exec { contract, msg } => Response::new().add_message(WasmMsg::Execute { contract_addr: contract, msg, funds: vec![] }),
    })
}
/// the address of the new collection comes from the protobuf instantiate response (not from event attribute names)
fn stub_reply(d: DepsMut, _e: Env, r: Reply) -> StdResult<Response> {
    let res = cw_utils::parse_reply_instantiate_data(r).map_err(|e| StdError::generic_err(e.to_string()))?;
    STUB_LAST.save(d.storage, &res.contract_address)?;
    Ok(Response::new())
}
fn stub_query(d: Deps, _e: Env, _m: Empty) -> StdResult<Binary> {
    to_json_binary(&STUB_LAST.may_load(d.storage)?)
}

// ------------------------------------------------------------------------------------------------ naming

fn url_s(kind: &str, id: u64) -> String {
    if id % 2 == 0 {
        format!("https://{kind}.example/{id}")
    } else {
        format!("bad{id}")
    }
}
fn url_id(s: &str) -> u64 {
    let digits: String = s.chars().rev().take_while(|c| c.is_ascii_digit()).collect::<String>().chars().rev().collect();
    digits.parse().unwrap_or(999_999_999)
}
fn dec(atomics: u128) -> Decimal {
    Decimal::new(Uint128::new(atomics))
}
fn parse_roy(v: &str) -> Option<(u64, u128)> {
    let (a, s) = v.split_once(':')?;
    Some((a.parse().ok()?, s.parse().ok()?))
}
fn fmt_roy(r: &Option<(u64, u128)>) -> String {
    match r {
        None => "-".to_string(),
        Some((a, s)) => format!("{a}:{s}"),
    }
}
fn opt_bool_json(v: &str) -> Value {
    match v {
        "1" => json!(true),
        "0" => json!(false),
        _ => Value::Null,
    }
}
fn parse_ver(s: &str) -> Option<(u64, u64, u64)> {
    let mut it = s.split('.');
    let v = (it.next()?.parse().ok()?, it.next()?.parse().ok()?, it.next()?.parse().ok()?);
    if it.next().is_some() {
        return None;
    }
    Some(v)
}

/// what the harness sees after a state op. Before ` ## `: what C10 constrains (royalty) and the mechanism state the theorems
/// use (cadence anchor, frozen flag, creator). After: observations owned by other properties (C09, C20).
#[derive(Clone, Debug, PartialEq)]
struct Obs {
    roy: Option<(u64, u128)>,
    upd: Option<u64>,
    frozen: Option<bool>,
    creator: u64,
    kind: Kind,
    name: String,
    ver: String,
    desc: usize,
    image: u64,
    link: Option<u64>,
    explicit: Option<bool>,
    stt: Option<u64>,
}
impl Obs {
    fn render(o: &Option<Obs>) -> String {
        match o {
            None => "none".into(),
            Some(o) => format!(
                "roy={} upd={} frozen={} creator={} ## kind={} name={} ver={} desc={} image={} link={} explicit={} stt={}",
                fmt_roy(&o.roy),
                o.upd.map_or("?".to_string(), |t| t.to_string()),
                o.frozen.map_or("?".to_string(), |f| (f as u8).to_string()),
                o.creator,
                o.kind.name(),
                o.name,
                o.ver,
                o.desc,
                o.image,
                fmt_opt(&o.link),
                match o.explicit {
                    None => "-",
                    Some(true) => "1",
                    Some(false) => "0",
                },
                fmt_opt(&o.stt),
            ),
        }
    }
}

/// the part of an answer the generators follow (parsed back from the answer text)
#[derive(Clone, Debug)]
struct Seen {
    roy: Option<(u64, u128)>,
    upd: u64,
    frozen: bool,
    creator: u64,
}
impl Seen {
    fn parse(ans: &str) -> Option<Seen> {
        if !ans.contains("creator=") {
            return None;
        }
        Some(Seen {
            roy: match kv(ans, "roy")? {
                "-" => None,
                v => parse_roy(v),
            },
            upd: kv_u64(ans, "upd")?,
            frozen: kv_bool(ans, "frozen")?,
            creator: kv_u64(ans, "creator")?,
        })
    }
}

// ------------------------------------------------------------------------------------------------ world

struct World {
    app: App,
    stub: Addr,
    codes: [u64; 4],
    schemas: [Value; 4],
    coll: Option<Addr>,
    /// the code the collection currently runs (changes on a successful migration)
    kind: Kind,
}
impl World {
    fn new(schemas: &[Value; 4]) -> World {
        let mut app = boxes::custom_mock_app();
        let stub_code = app.store_code(Box::new(ContractWrapper::new(stub_execute, stub_instantiate, stub_query).with_reply(stub_reply)));
        let codes = [app.store_code(Kind::Base.boxed()), app.store_code(Kind::Nt.boxed()), app.store_code(Kind::Updatable.boxed()), app.store_code(Kind::Onchain.boxed())];
        let stub = app.instantiate_contract(stub_code, a(ADMIN), &Empty {}, &[], "stub-minter", None).expect("stub");
        for who in [stub.to_string(), addr(10), addr(11), addr(12)] {
            app.sudo(SudoMsg::Bank(BankSudo::Mint { to_address: who, amount: vec![coin_of(0, 1_000_000)] })).expect("fund");
        }
        World { app, stub, codes, schemas: schemas.clone(), coll: None, kind: Kind::Base }
    }
    fn set_time(&mut self, at: u64) {
        self.app.update_block(|b| {
            b.time = Timestamp::from_nanos(at);
            b.height += 1;
        });
    }
    /// id -> address string, tolerant of how cw-multi-test numbers contracts
    fn addr_s(&self, id: u64) -> String {
        match id {
            0 => "x".into(),
            5 => "ACCT00005".into(),
            STUB_ID => self.stub.to_string(),
            COLL_ID => self.coll.as_ref().map(|c| c.to_string()).unwrap_or_else(|| addr(COLL_ID)),
            n => addr(n),
        }
    }
    fn id_of(&self, s: &str) -> u64 {
        if s == self.stub.as_str() {
            STUB_ID
        } else if self.coll.as_ref().map_or(false, |c| c.as_str() == s) {
            COLL_ID
        } else {
            addr_id(s)
        }
    }
    fn schema(&self) -> &Value {
        &self.schemas[self.kind.idx()]
    }
    fn observe(&self) -> Option<Obs> {
        let c = self.coll.as_ref()?;
        let q = self.app.wrap();
        let info: Value = q.query_wasm_smart(c, &json!({"collection_info": {}})).ok()?;
        // typed state constants of the crate (no hand-written storage keys); `?` in the answer if one cannot be read
        let st = sg721_base::Sg721Contract::<cw721_base::Extension>::default();
        let upd = st.royalty_updated_at.query(&q, c.clone()).ok().map(|t| t.nanos());
        let frozen = st.frozen_collection_info.query(&q, c.clone()).ok();
        let (name, ver) = match cw2::query_contract_info(&q, c.to_string()) {
            Ok(v) => {
                let n = v.contract.trim_start_matches("crates.io:").trim_start_matches("sg721-").to_string();
                (if n == "metadata-onchain" { "onchain".to_string() } else { n }, v.version)
            }
            Err(_) => ("?".into(), "?".into()),
        };
        let roy = match &info["royalty_info"] {
            Value::Null => None,
            r => Some((self.id_of(r["payment_address"].as_str()?), Decimal::from_str(r["share"].as_str()?).ok()?.atomics().u128())),
        };
        Some(Obs {
            roy,
            upd,
            frozen,
            creator: self.id_of(info["creator"].as_str()?),
            kind: self.kind,
            name,
            ver,
            desc: info["description"].as_str().map_or(0, |s| s.len()),
            image: info["image"].as_str().map_or(999_999_999, url_id),
            link: info["external_link"].as_str().map(url_id),
            explicit: info["explicit_content"].as_bool(),
            stt: info["start_trading_time"].as_str().and_then(|s| s.parse().ok()),
        })
    }
    /// execute a collection message as `sender` (routed through the stub when the sender is the stub contract)
    fn exec_coll(&mut self, sender: u64, msg: &Value) -> bool {
        let Some(c) = self.coll.clone() else { return false };
        let stub = self.stub.clone();
        let from = self.addr_s(sender);
        let app = &mut self.app;
        catch(|| {
            if sender == STUB_ID {
                app.execute_contract(a(ADMIN), stub, &StubExec::Exec { contract: c.to_string(), msg: to_json_binary(msg).unwrap() }, &[]).is_ok()
            } else {
                app.execute_contract(Addr::unchecked(from), c, msg, &[]).is_ok()
            }
        })
        .unwrap_or(false)
    }

    // ---- messages (raw JSON; field / variant shapes are read from the running contract's schema where they differ per kind)

    fn upd_msg(&self, line: &str) -> Value {
        let mut ci = Map::new();
        ci.insert("description".into(), json!(kv_opt_u64(line, "desc").unwrap().map(|n| "d".repeat(n as usize))));
        ci.insert("image".into(), json!(kv_opt_u64(line, "image").unwrap().map(|i| url_s("img", i))));
        match kv(line, "link").unwrap() {
            "keep" => {}
            "clear" => {
                ci.insert("external_link".into(), Value::Null);
            }
            v => {
                ci.insert("external_link".into(), json!(url_s("link", v.parse().unwrap())));
            }
        }
        ci.insert("explicit_content".into(), opt_bool_json(kv(line, "explicit").unwrap()));
        match kv(line, "roy").unwrap() {
            "keep" => {}
            "clear" => {
                ci.insert("royalty_info".into(), Value::Null);
            }
            v => {
                let (ad, s) = parse_roy(v).unwrap();
                ci.insert("royalty_info".into(), json!({"payment_address": self.addr_s(ad), "share": dec(s).to_string()}));
            }
        }
        ci.insert("creator".into(), json!(kv_opt_u64(line, "creator").unwrap().map(|x| self.addr_s(x))));
        // `collection_info` (sg721) vs `new_collection_info` (sg721-nt): whatever the running contract's schema says
        let field = schema_variants(self.schema())
            .into_iter()
            .find(|(n, _)| n == "update_collection_info")
            .and_then(|(_, s)| s)
            .and_then(|s| s["required"].as_array().and_then(|r| r.first()).and_then(|x| x.as_str()).map(String::from))
            .unwrap_or_else(|| "collection_info".into());
        json!({"update_collection_info": {field: Value::Object(ci)}})
    }
    fn freeze_msg(&self) -> Value {
        // unit variant in sg721::ExecuteMsg, struct variant in the nt / updatable enums
        raw_variant_msg(self.schema(), "freeze_collection_info", 0).unwrap_or_else(|| json!({"freeze_collection_info": {}}))
    }
    fn other_msg(&self, v: &str, t: u64) -> Value {
        let who = |k: u64| addr(10 + k % 4);
        let tok = t.to_string();
        match v {
            "mint" => {
                let ext = if self.kind == Kind::Onchain { json!({}) } else { Value::Null };
                json!({"mint": {"token_id": tok, "owner": who(t), "token_uri": "ipfs://x", "extension": ext}})
            }
            "transfer_nft" => json!({"transfer_nft": {"recipient": who(t + 1), "token_id": tok}}),
            "send_nft" => json!({"send_nft": {"contract": self.stub.to_string(), "token_id": tok, "msg": Binary::default()}}),
            "approve" => json!({"approve": {"spender": who(t + 2), "token_id": tok, "expires": null}}),
            "revoke" => json!({"revoke": {"spender": who(t + 2), "token_id": tok}}),
            "approve_all" => json!({"approve_all": {"operator": who(t + 3), "expires": null}}),
            "revoke_all" => json!({"revoke_all": {"operator": who(t + 3)}}),
            "burn" => json!({"burn": {"token_id": tok}}),
            "update_ownership" => match t % 3 {
                0 => json!({"update_ownership": {"transfer_ownership": {"new_owner": who(t), "expiry": null}}}),
                1 => json!({"update_ownership": "accept_ownership"}),
                _ => json!({"update_ownership": "renounce_ownership"}),
            },
            "update_token_metadata" => json!({"update_token_metadata": {"token_id": tok, "token_uri": "ipfs://y"}}),
            // anything else: minimal arguments from the schema of the running contract (a variant this file has never heard of
            // lands here); a name that is not in the schema at all is sent as `{name: {}}` and must be refused
            _ => raw_variant_msg(self.schema(), v, t).unwrap_or_else(|| json!({v: {}})),
        }
    }
    fn payout_resp(&self, info: Option<(u64, u128)>) -> CollectionInfoResponse {
        serde_json::from_value(json!({
            "creator": addr(10), "description": "", "image": "https://img.example/0", "external_link": null, "explicit_content": null,
            "start_trading_time": null,
            "royalty_info": info.map(|(ad, s)| json!({"payment_address": self.addr_s(ad), "share": dec(s).to_string()})),
        }))
        .expect("CollectionInfoResponse from JSON")
    }
}

// ------------------------------------------------------------------------------------------------ Sut

/// what the harness knows on its own: the royalty it last got accepted, when, and which stored version it fabricated
#[derive(Clone, Debug)]
struct Ghost {
    roy: Option<(u64, u128)>,
    last: u64,
    /// an accepted migration to sg721-updatable from a harness-known stored version < 3.1.0 happened since `last`, at this time
    rewound_at: Option<u64>,
    ver: Option<(u64, u64, u64)>,
}

struct S {
    schemas: [Value; 4],
    w: World,
    prev: Option<Obs>,
    cur: Option<Obs>,
    g: Option<Ghost>,
    pending: Option<(String, String)>,
}

impl S {
    fn new() -> S {
        let schemas = [exec_schema(Kind::Base), exec_schema(Kind::Nt), exec_schema(Kind::Updatable), exec_schema(Kind::Onchain)];
        let w = World::new(&schemas);
        S { schemas, w, prev: None, cur: None, g: None, pending: None }
    }

    fn do_inst(&mut self, line: &str) -> bool {
        let Some(kind) = kv(line, "kind").and_then(Kind::parse) else { return false };
        let at = kv_u64(line, "at").unwrap();
        self.w.set_time(at);
        let roy = match kv(line, "roy").unwrap() {
            "-" => Value::Null,
            v => {
                let (ad, s) = parse_roy(v).unwrap();
                json!({"payment_address": self.w.addr_s(ad), "share": dec(s).to_string()})
            }
        };
        let msg = json!({
            "name": "Collection", "symbol": "COL", "minter": self.w.addr_s(kv_u64(line, "minter").unwrap()),
            "collection_info": {
                "creator": self.w.addr_s(kv_u64(line, "creator").unwrap()),
                "description": "d".repeat(kv_u64(line, "desc").unwrap() as usize),
                "image": url_s("img", kv_u64(line, "image").unwrap()),
                "external_link": kv_opt_u64(line, "link").unwrap().map(|l| url_s("link", l)),
                "explicit_content": opt_bool_json(kv(line, "explicit").unwrap()),
                "start_trading_time": kv_opt_u64(line, "stt").unwrap().map(|t| t.to_string()),
                "royalty_info": roy,
            },
        });
        let funds_amt = kv_u128(line, "funds").unwrap();
        let funds: Vec<Coin> = if funds_amt == 0 { vec![] } else { vec![coin_of(0, funds_amt)] };
        let via = kv_bool(line, "via").unwrap();
        let code = self.w.codes[kind.idx()];
        let stub = self.w.stub.clone();
        let app = &mut self.w.app;
        let res: Option<Addr> = catch(|| {
            if via {
                app.execute_contract(a(ADMIN), stub.clone(), &StubExec::Inst { code_id: code, msg: to_json_binary(&msg).unwrap(), funds, admin: Some(addr(ADMIN)) }, &[]).ok()?;
                let last: Option<String> = app.wrap().query_wasm_smart(stub, &Empty {}).ok()?;
                last.map(Addr::unchecked)
            } else {
                app.instantiate_contract(code, a(10), &msg, &funds, "collection", Some(addr(ADMIN))).ok()
            }
        })
        .unwrap_or(None);
        match res {
            Some(c) => {
                self.w.coll = Some(c);
                self.w.kind = kind;
                true
            }
            None => false,
        }
    }

    fn do_migrate(&mut self, line: &str) -> bool {
        let Some(to) = kv(line, "to").and_then(Kind::parse) else { return false };
        let Some(c) = self.w.coll.clone() else { return false };
        let code = self.w.codes[to.idx()];
        let app = &mut self.w.app;
        let ok = catch(|| app.migrate_contract(a(ADMIN), c, &json!({}), code).is_ok()).unwrap_or(false);
        if ok {
            self.w.kind = to;
        }
        ok
    }

    /// harness fabrication: rewrite the stored cw2 version (the stored contract name is kept)
    fn do_setver(&mut self, line: &str) -> bool {
        let Some(c) = self.w.coll.clone() else { return false };
        let Some(v) = kv(line, "v") else { return false };
        let Ok(cur) = cw2::query_contract_info(&self.w.app.wrap(), c.to_string()) else { return false };
        let mut st = self.w.app.contract_storage_mut(&c);
        cw2::set_contract_version(&mut *st, cur.contract, v).is_ok()
    }

    fn payout_on(resp: &CollectionInfoResponse, line: &str) -> String {
        let pay = kv_u128(line, "pay").unwrap();
        let fee = kv_u128(line, "fee").unwrap();
        let finders = kv_opt_u128(line, "finders").unwrap();
        catch(|| {
            let mut res = Response::new();
            match resp.royalty_payout(a(COLL_ID), Uint128::new(pay), Uint128::new(fee), finders.map(Uint128::new), &mut res) {
                Ok(amt) => format!("ok {} {}", amt.u128(), render_msgs(&res.messages)),
                Err(_) => "err".into(),
            }
        })
        .unwrap_or_else(|_| "err".into()) // u128 overflow inside the helper aborts the transaction
    }

    /// independent re-statement of the payout clause, on 256-bit integers
    fn check_payout(&self, info: Option<(u64, u128)>, line: &str, out: &str) -> Option<(String, String)> {
        let pay = kv_u128(line, "pay")?;
        let fee = kv_u128(line, "fee")?;
        let finders = kv_opt_u128(line, "finders")?.unwrap_or(0);
        let bad = |p: &str, w: String| Some((format!("sg721-base/royalty_payout/{p}"), format!("{w} on `{line}` (royalty {:?}) => `{out}`", info)));
        let fees = Uint256::from(fee) + Uint256::from(finders);
        match info {
            None | Some((_, 0)) => {
                // "refuses when fees plus royalty exceed the payment" with royalty = 0 (repaired in /repo 00871d3; before, Ok(0))
                if Uint256::from(pay) < fees {
                    return (out != "err").then(|| bad("fees-exceed-accepted-zero-royalty", format!("fees {fee}+{finders} (royalty 0) exceed the payment {pay}: must refuse"))).flatten();
                }
                let p = if info.is_none() { "absent-pays" } else { "zero-share-pays" };
                (out != "ok 0 -").then(|| bad(p, "no royalty due and the fees fit: must pay nothing".into())).flatten()
            }
            Some((ad, share)) => {
                let floor = Uint256::from(pay) * Uint256::from(share) / Uint256::from(ONE);
                let need = fees + floor;
                if Uint256::from(pay) < need {
                    (out != "err").then(|| bad("fees-exceed-accepted", format!("fees {fee}+{finders} plus royalty {floor} exceed the payment {pay}: must refuse"))).flatten()
                } else {
                    let want = format!("ok {floor} send:{ad}:0:{floor}");
                    (out != want).then(|| bad("not-floor", format!("must pay floor(payment x share) = {floor} to the royalty address (expected `{want}`)"))).flatten()
                }
            }
        }
    }

    fn state_answer(&mut self, ok: bool) -> String {
        self.prev = self.cur.take();
        self.cur = self.w.observe();
        format!("{} {}", if ok { "ok" } else { "err" }, Obs::render(&self.cur))
    }

    /// Direct transcription of C10 on GHOST state: the royalty the harness last got accepted (`g.roy`), when (`g.last`), what it
    /// sends now and whether the call was accepted. The contract's answers are only ever COMPARED with the ghost.
    fn judge(&mut self, op: &str, line: &str, ok: bool, out: &str) -> Option<(String, String)> {
        let kind_key = self.w.kind.key();
        let bad = |p: &str, w: String| Some((format!("{kind_key}/{op}/{p}"), format!("{w}; op `{line}` => `{out}`")));
        let cur = self.cur.clone()?;
        // "never above 100%, at creation or after any update"
        if let Some((_, s)) = cur.roy {
            if s > ONE {
                return bad("share-above-100", format!("stored royalty share {s} atomics is above 100%"));
            }
        }
        if op == "inst" {
            if ok && self.g.is_none() {
                let sent = match kv(line, "roy")? {
                    "-" => None,
                    v => parse_roy(v),
                };
                self.g = Some(Ghost { roy: sent, last: kv_u64(line, "at")?, rewound_at: None, ver: parse_ver(&cur.ver) });
                if let Some((_, s)) = sent {
                    if s > ONE {
                        return bad("share-above-100", format!("instantiate with a royalty share of {s} atomics (above 100%) was accepted"));
                    }
                }
                if cur.roy != sent {
                    return bad("stored-differs-from-sent", format!("instantiate stored royalty {:?}, sent {:?}", cur.roy, sent));
                }
            }
            return None;
        }
        let prev = self.prev.clone()?;
        let mut g = self.g.clone()?;
        if op == "setver" {
            if ok {
                g.ver = kv(line, "v").and_then(parse_ver);
            }
        }
        if op == "migrate" && ok {
            if kv(line, "to") == Some("updatable") && g.ver.map_or(false, |v| v < (3, 1, 0)) {
                g.rewound_at = Some(kv_u64(line, "at")?);
            }
            g.ver = parse_ver(&cur.ver);
        }
        let at = kv_u64(line, "at").unwrap_or(0);
        let sent = if op == "upd" { kv(line, "roy").and_then(parse_roy) } else { None };
        let accepted_update = ok && sent.is_some();
        let expected = if accepted_update { sent } else { g.roy };
        // every change of the stored royalty must be an accepted royalty update storing exactly what was sent
        if cur.roy != expected {
            self.g = Some(g);
            return if accepted_update {
                bad("stored-differs-from-sent", format!("accepted royalty update stored {:?}, sent {:?}", cur.roy, sent))
            } else {
                bad("royalty-changed-outside-update", format!("stored royalty is {:?} but the last accepted royalty update / instantiate set {:?} (this op is not an accepted royalty update)", cur.roy, expected))
            };
        }
        let mut verdict = None;
        if let (true, Some((_, n))) = (accepted_update, sent) {
            if n > ONE {
                verdict = bad("share-above-100", format!("royalty update to {n} atomics (above 100%) was accepted"));
            }
            // "an update that raises the share raises it by at most 2 percentage points and to at most 10%"
            if let Some((_, o)) = g.roy {
                if n > o && n - o > 2 * PCT {
                    verdict = verdict.or(bad("raise-above-2pp", format!("share raised from {o} to {n}: more than 2 percentage points")));
                }
                if n > o && n > 10 * PCT {
                    verdict = verdict.or(bad("raise-above-10pct", format!("share raised from {o} to {n}: above 10%")));
                }
            }
            // "any royalty change is accepted at most once per 24 hours" (first change: 24 h after creation)
            // An accepted upgrade to sg721-updatable from a harness-fabricated stored version below 3.1.0 since the last change
            // restarts the cadence (`upgrades::v3_1_0`): by decision NOT a finding — the property quantifies over royalty updates
            // of a collection, not over upgrades from pre-3.1.0 code (Lean: `C10_cadence_upgrade_counterexample`; for collections
            // created by the current code `C10_no_rewind_reachable`). The generator records it as an observation.
            if (at as u128) < g.last as u128 + DAY as u128 && g.rewound_at.is_none() {
                verdict = verdict.or(bad("cadence", format!("royalty change accepted at {at}, less than 24h after the previous change/creation at {}", g.last)));
            }
        }
        // "lowering is always allowed within that cadence": by the creator of an unfrozen collection, message carrying nothing
        // but the royalty (so no other field's validation is involved), valid payment address, 24 h after the last change
        if let (Some((ad, s)), Some((_, o))) = (sent, g.roy) {
            let plain = kv(line, "desc") == Some("-") && kv(line, "image") == Some("-") && kv(line, "link") == Some("keep") && kv(line, "creator") == Some("-");
            let sender = kv_u64(line, "sender")?;
            let due = at as u128 >= g.last as u128 + DAY as u128 && g.rewound_at.map_or(true, |t| at >= t);
            if plain && s <= o && o <= ONE && sender == prev.creator && prev.frozen == Some(false) && due && ad != 0 && ad != 5 && !ok {
                verdict = verdict.or(bad("lower-rejected", format!("lowering the share from {o} to {s} by the creator, 24h after {}, was refused", g.last)));
            }
        }
        if accepted_update {
            g.roy = sent;
            g.last = at;
            g.rewound_at = None;
        }
        self.g = Some(g);
        verdict
    }
}

impl Sut for S {
    fn begin(&mut self, header: &str) -> (String, String) {
        self.w = World::new(&self.schemas);
        self.prev = None;
        self.cur = None;
        self.g = None;
        self.pending = None;
        (header.to_string(), "case".to_string())
    }

    fn exec(&mut self, line: &str) -> (String, String) {
        let op = line.split_whitespace().next().unwrap_or("").to_string();
        self.pending = None;
        let mut model_line = line.to_string();
        let witnessed = matches!(op.as_str(), "stt" | "other" | "migrate");
        let out: String = match op.as_str() {
            "payout" => {
                let info = match kv(line, "roy").unwrap() {
                    "-" => None,
                    v => parse_roy(v),
                };
                let o = S::payout_on(&self.w.payout_resp(info), line);
                self.pending = self.check_payout(info, line, &o);
                o
            }
            "cpay" => match self.w.coll.clone() {
                None => "err".into(),
                Some(c) => {
                    self.w.set_time(kv_u64(line, "at").unwrap());
                    // what a marketplace does: typed CollectionInfo query, then the helper on the answer
                    let resp: CollectionInfoResponse = self.w.app.wrap().query_wasm_smart(&c, &json!({"collection_info": {}})).expect("CollectionInfo");
                    let o = S::payout_on(&resp, line);
                    // judged against the royalty the harness last got accepted, not against what the query says
                    let info = self.g.as_ref().and_then(|g| g.roy);
                    self.pending = self.check_payout(info, line, &o);
                    o
                }
            },
            "inst" => {
                let ok = if self.w.coll.is_some() { false } else { self.do_inst(line) };
                let out = self.state_answer(ok);
                self.pending = self.judge(&op, line, ok, &out);
                out
            }
            "upd" | "freeze" | "stt" | "other" | "migrate" | "setver" => {
                if self.w.coll.is_none() {
                    if witnessed {
                        model_line.push_str(" ok=0");
                    }
                    "err none".into()
                } else {
                    if let Some(at) = kv_u64(line, "at") {
                        self.w.set_time(at);
                    }
                    let ok = match op.as_str() {
                        "upd" => {
                            let m = self.w.upd_msg(line);
                            self.w.exec_coll(kv_u64(line, "sender").unwrap(), &m)
                        }
                        "freeze" => {
                            let m = self.w.freeze_msg();
                            self.w.exec_coll(kv_u64(line, "sender").unwrap(), &m)
                        }
                        "stt" => {
                            let m = json!({"update_start_trading_time": kv_opt_u64(line, "time").unwrap().map(|t| t.to_string())});
                            self.w.exec_coll(kv_u64(line, "sender").unwrap(), &m)
                        }
                        "other" => {
                            let m = self.w.other_msg(kv(line, "v").unwrap(), kv_u64(line, "tok").unwrap());
                            self.w.exec_coll(kv_u64(line, "sender").unwrap(), &m)
                        }
                        "migrate" => self.do_migrate(line),
                        _ => self.do_setver(line),
                    };
                    if witnessed {
                        model_line.push_str(if ok { " ok=1" } else { " ok=0" });
                    }
                    let out = self.state_answer(ok);
                    self.pending = self.judge(&op, line, ok, &out);
                    out
                }
            }
            _ => "bad-op".into(),
        };
        (model_line, out)
    }

    fn monitor(&mut self) -> Option<(String, String)> {
        self.pending.take()
    }
}

// ------------------------------------------------------------------------------------------------ generators

#[derive(Clone)]
struct Track {
    seen: Option<Seen>,
    now: u64,
    /// the generator's own record of the last accepted royalty change (from ok/err of what it sent), not the stored anchor
    last: u64,
    kind: Kind,
}

fn o2(ans: &str) -> &str {
    &ans[..2.min(ans.len())]
}
fn o1(ans: &str) -> char {
    if ans.starts_with("ok") {
        'o'
    } else {
        'e'
    }
}

fn time_choice(rng: &mut Rng, tr: &Track) -> (u64, &'static str) {
    // mostly around the harness's own record of the last change; sometimes around the anchor the contract stores
    let base = if rng.chance(1, 4) { tr.seen.as_ref().map(|o| o.upd).unwrap_or(tr.last) } else { tr.last };
    let edge = base + DAY;
    match rng.below(24) {
        0..=1 => (edge - 1, "edge-1"),
        2..=6 => (edge, "edge"),
        7..=9 => (edge + 1, "edge+1"),
        10 => (base + rng.below(DAY), "early"),
        11 => (base, "same-instant"),
        12 => (base.saturating_sub(rng.below(3 * DAY)), "backwards"),
        13 => (edge - 1 - rng.below(1_000_000_000), "edge-sub-second"),
        14 => (edge + rng.below(1_000_000_000), "edge+sub-second"),
        15 => (tr.now.max(edge) + rng.below(400 * DAY), "far"),
        _ => (edge + rng.below(3 * DAY), "late"),
    }
}

fn share_choice(rng: &mut Rng, old: Option<u128>) -> (u128, String) {
    let fixed: [u128; 16] =
        [0, 1, 2 * PCT - 1, 2 * PCT, 2 * PCT + 1, 10 * PCT - 1, 10 * PCT, 10 * PCT + 1, ONE - 1, ONE, ONE + 1, 5 * PCT, 50 * PCT, 8 * PCT, 8 * PCT + 1, 12 * PCT];
    let s = match (rng.below(16), old) {
        (0..=2, Some(o)) => o.saturating_sub(rng.range(1, 3) as u128 * PCT / 2), // lower
        (3, Some(o)) => o.saturating_sub(1),
        (4, Some(o)) => o,
        (5, Some(o)) => o + 1,
        (6, Some(o)) => o + 2 * PCT - 1,
        (7..=8, Some(o)) => o + 2 * PCT,
        (9, Some(o)) => o + 2 * PCT + 1,
        (10, Some(o)) => o + rng.below(2 * PCT as u64 + 1) as u128, // raise within the delta
        (11, Some(o)) => rng.below(o.min(u64::MAX as u128 - 1) as u64 + 1) as u128, // any lower value
        (12, _) => rng.sized_u128(128),                            // anything a Decimal can hold
        (13, _) => rng.below(12 * PCT as u64) as u128,
        _ => *rng.pick(&fixed),
    };
    (s, share_class(old, s))
}

fn share_class(old: Option<u128>, s: u128) -> String {
    let abs = if s > ONE {
        ">100"
    } else if s == ONE {
        "=100"
    } else if s > 10 * PCT {
        ">10"
    } else if s == 10 * PCT {
        "=10"
    } else if s == 0 {
        "0"
    } else {
        "<10"
    };
    let rel = match old {
        None => "noold",
        Some(o) if s < o => "lower",
        Some(o) if s == o => "equal",
        Some(o) if s - o < 2 * PCT => "raise<2",
        Some(o) if s - o == 2 * PCT => "raise=2",
        Some(o) if s - o == 2 * PCT + 1 => "raise=2+1",
        _ => "raise>2",
    };
    format!("{rel}/{abs}")
}

fn desc_choice(rng: &mut Rng) -> u64 {
    *rng.pick(&[0u64, 1, 17, 511, 512, 512, 513, 600, 40])
}
fn url_choice(rng: &mut Rng) -> u64 {
    let k = rng.below(50) * 2;
    if rng.chance(1, 8) {
        k + 1
    } else {
        k
    }
}
fn addr_choice(rng: &mut Rng) -> u64 {
    match rng.below(12) {
        0 => 0,
        1 => 5,
        k => 10 + k % 4,
    }
}

fn inst_line(kind: Kind, at: u64, creator: u64, roy: &Option<(u64, u128)>) -> String {
    format!("inst kind={} at={at} via=1 funds=0 minter={STUB_ID} creator={creator} desc=3 image=2 link=- explicit=- stt=- roy={}", kind.name(), fmt_roy(roy))
}

fn gen_inst(rng: &mut Rng, kind: Kind, at: u64, valid: bool) -> String {
    let mut via = 1;
    let mut funds = 0;
    let mut minter = STUB_ID;
    let mut creator = 10 + rng.below(3);
    let mut desc = *rng.pick(&[0u64, 3, 100, 511, 512]);
    let mut image = rng.below(50) * 2;
    let mut link: Option<u64> = if rng.chance(1, 2) { Some(rng.below(50) * 2) } else { None };
    let mut roy: Option<(u64, u128)> = match rng.below(10) {
        0..=2 => None,
        3 => Some((11, 0)),
        4 => Some((11, ONE)),
        5 => Some((11, 10 * PCT)),
        6 => Some((12, 50 * PCT)),
        7 => Some((12, *rng.pick(&[1u128, 2 * PCT, 8 * PCT, 8 * PCT + 1, 10 * PCT - 1, 10 * PCT + 1, ONE - 1]))),
        _ => Some((11, rng.below(10 * PCT as u64) as u128)),
    };
    if !valid {
        match rng.below(9) {
            0 => via = 0,
            1 => funds = 1 + rng.below(5),
            2 => minter = *rng.pick(&[0u64, 5]),
            3 => creator = *rng.pick(&[0u64, 5]),
            4 => desc = *rng.pick(&[513u64, 2000]),
            5 => image = rng.below(50) * 2 + 1,
            6 => link = Some(rng.below(50) * 2 + 1),
            7 => roy = Some((*rng.pick(&[0u64, 5]), 5 * PCT)),
            _ => {
                let extra = ONE + 2 + rng.below(1000) as u128;
                roy = Some((11, *rng.pick(&[ONE + 1, 2 * ONE, u128::MAX, extra])))
            }
        }
    }
    let explicit = *rng.pick(&["-", "0", "1"]);
    let stt = if rng.chance(1, 2) { "-".to_string() } else { (at + rng.below(DAY)).to_string() };
    format!(
        "inst kind={} at={at} via={via} funds={funds} minter={minter} creator={creator} desc={desc} image={image} link={} explicit={explicit} stt={stt} roy={}",
        kind.name(),
        fmt_opt(&link),
        fmt_roy(&roy)
    )
}

struct UpdSpec {
    at: u64,
    sender: u64,
    desc: Option<u64>,
    image: Option<u64>,
    link: String,
    explicit: &'static str,
    roy: String,
    creator: Option<u64>,
}
impl UpdSpec {
    fn plain(at: u64, sender: u64, roy: String) -> UpdSpec {
        UpdSpec { at, sender, desc: None, image: None, link: "keep".into(), explicit: "-", roy, creator: None }
    }
    fn line(&self) -> String {
        format!(
            "upd at={} sender={} desc={} image={} link={} explicit={} roy={} creator={}",
            self.at,
            self.sender,
            fmt_opt(&self.desc),
            fmt_opt(&self.image),
            self.link,
            self.explicit,
            self.roy,
            fmt_opt(&self.creator)
        )
    }
}
/// a plain royalty update: `upd` carrying nothing but `royalty_info`
fn roy_upd(ses: &mut Session, sut: &mut S, at: u64, sender: u64, ad: u64, share: u128) -> String {
    ses.step(sut, &UpdSpec::plain(at, sender, format!("{ad}:{share}")).line())
}

fn follow(tr: &mut Track, line: &str, ans: &str, at: u64) {
    if let Some(o) = Seen::parse(ans) {
        tr.seen = Some(o);
    }
    if line.starts_with("inst ") && ans.starts_with("ok") {
        tr.last = at;
    }
    if line.starts_with("upd ") && ans.starts_with("ok") && kv(line, "roy").and_then(parse_roy).is_some() {
        tr.last = at;
    }
    if line.starts_with("migrate ") && ans.starts_with("ok") {
        if let Some(k) = kv(line, "to").and_then(Kind::parse) {
            tr.kind = k;
        }
    }
    tr.now = at;
}

/// every variant name any of the four schemas knows (minus the ones with their own op), plus one nobody knows
fn all_other_names(schemas: &[Value; 4]) -> Vec<String> {
    let mut v: Vec<String> = schemas.iter().flat_map(|s| schema_variants(s).into_iter().map(|x| x.0)).filter(|n| !OWN_OPS.contains(&n.as_str())).collect();
    v.push("no_such_message".into());
    v.sort();
    v.dedup();
    v
}

/// one random op on a live collection
fn random_op(ses: &mut Session, sut: &mut S, rng: &mut Rng, tr: &mut Track, names: &[String]) {
    let creator = tr.seen.as_ref().map(|o| o.creator).unwrap_or(10);
    let old = tr.seen.as_ref().and_then(|o| o.roy).map(|r| r.1);
    let frozen = tr.seen.as_ref().map(|o| o.frozen).unwrap_or(false);
    let (at, tclass) = time_choice(rng, tr);
    let k = tr.kind.name();
    let sender = match rng.below(16) {
        0 => 10 + rng.below(4),
        1 => STUB_ID,
        _ => creator,
    };
    let who = if sender == creator { "creator" } else { "stranger" };
    match rng.below(132) {
        100..=129 | 0..=69 => {
            let (royk, roy, sclass) = match rng.below(12) {
                0 => ("keep", "keep".to_string(), "-".to_string()),
                1 => ("clear", "clear".to_string(), "-".to_string()),
                _ => {
                    let (s, cl) = share_choice(rng, old);
                    let ad = if rng.chance(1, 14) { *rng.pick(&[0u64, 5]) } else { 11 + rng.below(2) };
                    ("set", format!("{ad}:{s}"), format!("{cl}{}", if ad == 0 || ad == 5 { "/badaddr" } else { "" }))
                }
            };
            let mut u = UpdSpec::plain(at, sender, roy);
            let mut other = "plain";
            if rng.chance(1, 3) {
                other = "fields";
                if rng.chance(1, 2) {
                    u.desc = Some(desc_choice(rng));
                }
                if rng.chance(1, 2) {
                    u.image = Some(url_choice(rng));
                }
                u.link = match rng.below(4) {
                    0 => "keep".into(),
                    1 => "clear".into(),
                    _ => url_choice(rng).to_string(),
                };
                u.explicit = *rng.pick(&["-", "0", "1"]);
                if rng.chance(1, 6) {
                    u.creator = Some(addr_choice(rng));
                }
            }
            let line = u.line();
            let ans = ses.step(sut, &line);
            ses.mark(format!("upd:{k}:{royk}:{tclass}:{sclass}:{who}:{}:{other}:{}", if frozen { "frozen" } else { "live" }, o2(&ans)));
            follow(tr, &line, &ans, at);
        }
        70 => {
            let line = format!("freeze at={at} sender={sender}");
            let ans = ses.step(sut, &line);
            ses.mark(format!("freeze:{k}:{who}:{}", o2(&ans)));
            follow(tr, &line, &ans, at);
        }
        71..=79 => {
            let time = if rng.chance(1, 4) { "-".to_string() } else { (at + rng.below(DAY)).to_string() };
            let s = if rng.chance(2, 3) { STUB_ID } else { sender };
            let line = format!("stt at={at} sender={s} time={time}");
            let ans = ses.step(sut, &line);
            ses.mark(format!("stt:{k}:{}:{}", if s == STUB_ID { "minter" } else { "other" }, o2(&ans)));
            follow(tr, &line, &ans, at);
        }
        80..=91 => {
            let v = if rng.chance(1, 3) { "mint".to_string() } else { rng.pick(names).clone() };
            let s = if v == "mint" && rng.chance(3, 4) { STUB_ID } else { 10 + rng.below(4) };
            let line = format!("other at={at} sender={s} v={v} tok={}", rng.below(6));
            let ans = ses.step(sut, &line);
            ses.mark(format!("other:{k}:{v}:{}", o2(&ans)));
            follow(tr, &line, &ans, at);
        }
        130..=131 => {
            let to = if tr.kind == Kind::Base && rng.chance(2, 3) { Kind::Updatable } else { *rng.pick(&KINDS) };
            let line = format!("migrate at={at} to={}", to.name());
            let ans = ses.step(sut, &line);
            ses.mark(format!("migrate:{k}->{}:{}", to.name(), o2(&ans)));
            follow(tr, &line, &ans, at);
        }
        _ => {
            let pay = rng.sized_u128(70);
            let fee = pay / 50;
            let finders = if rng.chance(1, 2) { "-".to_string() } else { (pay / 100).to_string() };
            let ans = ses.step(sut, &format!("cpay at={at} pay={pay} fee={fee} finders={finders}"));
            ses.mark(format!("cpay:{k}:{}:{}", old.map_or("none", |s| if s == 0 { "zero" } else { "some" }), o2(&ans)));
            tr.now = at;
        }
    }
}

/// after `last` (the harness's record of the last accepted change): a lowering 1 ns too early must be refused (monitor `cadence`
/// if not), at exactly +24 h it must be accepted (`lower-rejected` if not), a second one in the same instant refused again.
/// Returns (outcomes, new last, new share).
fn cadence_probe(ses: &mut Session, sut: &mut S, sender: u64, last: u64, share: u128) -> (String, u64, u128) {
    let s1 = share.saturating_sub(1);
    let s2 = share.saturating_sub(2);
    let a1 = roy_upd(ses, sut, last + DAY - 1, sender, 11, s1);
    let a2 = roy_upd(ses, sut, last + DAY, sender, 12, s1);
    let a3 = roy_upd(ses, sut, last + DAY, sender, 11, s2);
    let out: String = [&a1, &a2, &a3].iter().map(|a| o1(a)).collect();
    if a2.starts_with("ok") {
        (out, last + DAY, s1)
    } else {
        (out, last, share)
    }
}

const KNOWN_OTHER: [&str; 3] = ["extension", "freeze_token_metadata", "enable_updatable"];
const T0: u64 = 1_647_032_400_000_000_000;

/// send every ExecuteMsg variant the RUNNING contract's schema lists (except the three with their own op) from three senders,
/// then every name only OTHER kinds know; marks `sent:<kind>:<variant>`; returns the names nobody has a hand-written message for
fn surface_tour(ses: &mut Session, sut: &mut S, kind: Kind, at: u64, all: &[String]) -> Vec<String> {
    let k = kind.name();
    let mut mine: Vec<String> = schema_variants(&exec_schema(kind)).into_iter().map(|x| x.0).collect();
    // messages that end something (freeze…, burn) go last so that the others still have something to act on
    mine.sort_by_key(|v| (v.starts_with("freeze") || v.starts_with("burn"), v.clone()));
    let mut unknown = vec![];
    for v in &mine {
        if OWN_OPS.contains(&v.as_str()) {
            ses.mark(format!("sent:{k}:{v}"));
            continue;
        }
        if !HAND_BUILT.contains(&v.as_str()) && !KNOWN_OTHER.contains(&v.as_str()) {
            unknown.push(v.clone());
            ses.mark(format!("unknown-variant:{k}:{v}"));
        }
        let mut outs = String::new();
        // tokens 1..3 exist (minted by the tour's preamble to acct11, acct12, acct13): creator, minter, owner, stranger, other owner
        for (sender, tok) in [(10u64, 1u64), (STUB_ID, 1), (11, 1), (13, 1), (12, 2), (STUB_ID, 6)] {
            let ans = ses.step(sut, &format!("other at={at} sender={sender} v={v} tok={tok}"));
            outs.push(o1(&ans));
        }
        ses.mark(format!("sent:{k}:{v}"));
        ses.mark(format!("tour:{k}:{v}:{outs}"));
    }
    for v in all {
        if !mine.contains(v) {
            let ans = ses.step(sut, &format!("other at={at} sender=10 v={v} tok=1"));
            ses.mark(format!("foreign:{k}:{v}:{}", o2(&ans)));
        }
    }
    unknown
}

fn main() {
    let mut ses = Session::new("C10");
    let mut sut = S::new();
    if ses.maybe_replay(&mut sut) {
        ses.finish(&mut sut);
    }
    let mut rng = ses.rng.fork();
    let t0 = T0;
    let all_names = all_other_names(&sut.schemas);

    // ---- 0. message surface, per kind, enumerated from the JSON schema at run time; nothing but an accepted royalty update may
    //         change the royalty (ghost monitor), and the cadence is where the harness left it afterwards
    for kind in KINDS {
        let k = kind.name();
        ses.begin_case(&mut sut, &format!("case tour kind={k}"));
        ses.step(&mut sut, &inst_line(kind, t0, 10, &Some((11, 5 * PCT))));
        for tok in 1..=3 {
            ses.step(&mut sut, &format!("other at={} sender={STUB_ID} v=mint tok={tok}", t0 + 1));
        }
        let t1 = t0 + DAY + 5;
        let a = roy_upd(&mut ses, &mut sut, t1, 10, 12, 5 * PCT - 7);
        let mut unknown = surface_tour(&mut ses, &mut sut, kind, t1 + 10, &all_names);
        ses.step(&mut sut, &format!("stt at={} sender={STUB_ID} time={}", t1 + 11, t1 + 5000));
        let (p, mut last, mut share) = cadence_probe(&mut ses, &mut sut, 10, t1, 5 * PCT - 7);
        ses.mark(format!("tour-probe:{k}:{}{p}", o1(&a)));
        if kind == Kind::Base {
            // the same instance upgraded to sg721-updatable: its new surface, and the cadence again
            let m = ses.step(&mut sut, &format!("migrate at={} to=updatable", last + 1));
            let soon = roy_upd(&mut ses, &mut sut, last + 1, 10, 11, share - 1);
            unknown.extend(surface_tour(&mut ses, &mut sut, Kind::Updatable, last + 20, &all_names));
            let (p2, l2, s2) = cadence_probe(&mut ses, &mut sut, 10, last, share);
            ses.mark(format!("tour-probe:base->updatable:{}{}{p2}", o1(&m), o1(&soon)));
            last = l2;
            share = s2;
        }
        let f = ses.step(&mut sut, &format!("freeze at={} sender=10", last + 5));
        let af = roy_upd(&mut ses, &mut sut, last + 2 * DAY, 10, 11, share.saturating_sub(5));
        ses.mark(format!("tour-freeze:{k}:{}{}", o1(&f), o1(&af)));
        ses.end_case();
        if !unknown.is_empty() {
            ses.note(format!("kind {k}: ExecuteMsg variants without a hand-written message, sent with minimal arguments from the schema: {unknown:?}"));
        }
    }

    // ---- 1. boundary grid per kind: initial share × new share (relative + absolute bounds ± 1) × time (24 h ± 1 ns)
    let initials: Vec<Option<u128>> = vec![None, Some(0), Some(1), Some(5 * PCT), Some(8 * PCT), Some(8 * PCT + 1), Some(10 * PCT - 1), Some(10 * PCT), Some(10 * PCT + 1), Some(50 * PCT), Some(ONE)];
    let mut grid_cases = 0u64;
    for kind in KINDS {
        let k = kind.name();
        for init in &initials {
            let mut news: Vec<u128> = vec![0, 1, 2 * PCT - 1, 2 * PCT, 2 * PCT + 1, 10 * PCT - 1, 10 * PCT, 10 * PCT + 1, ONE - 1, ONE, ONE + 1];
            if let Some(o) = init {
                for d in [0i128, 1, -1, (2 * PCT) as i128 - 1, (2 * PCT) as i128, (2 * PCT) as i128 + 1] {
                    let v = *o as i128 + d;
                    if v >= 0 {
                        news.push(v as u128);
                    }
                }
            }
            news.sort();
            news.dedup();
            for n in &news {
                for (dt, tname) in [(DAY - 1, "edge-1"), (DAY, "edge"), (DAY + 1, "edge+1")] {
                    ses.begin_case(&mut sut, &format!("case grid kind={k} init={} new={n} dt={tname}", fmt_opt(init)));
                    ses.step(&mut sut, &inst_line(kind, t0, 10, &init.map(|s| (11, s))));
                    let ans = roy_upd(&mut ses, &mut sut, t0 + dt, 10, 12, *n);
                    ses.mark(format!("grid:{k}:{}:{tname}:{}", share_class(*init, *n), o2(&ans)));
                    // the harness's own record of the last change decides where the next attempts go
                    let last = if ans.starts_with("ok") { t0 + dt } else { t0 };
                    let cur = if ans.starts_with("ok") { Some(*n) } else { *init };
                    let low = cur.map_or(*n / 2, |c| c / 2);
                    let a2 = roy_upd(&mut ses, &mut sut, last + DAY - 1, 10, 12, low);
                    let a3 = roy_upd(&mut ses, &mut sut, last + DAY, 10, 11, low);
                    let a4 = roy_upd(&mut ses, &mut sut, last + DAY, 10, 11, low / 2); // same block again
                    let a5 = roy_upd(&mut ses, &mut sut, last + 2 * DAY - 1, 10, 11, low / 2);
                    ses.mark(format!("grid2:{k}:{}:{}{}{}{}", if cur.is_some() { "roy" } else { "noroy" }, o1(&a2), o1(&a3), o1(&a4), o1(&a5)));
                    ses.step(&mut sut, &format!("cpay at={} pay=1000000007 fee=20000000 finders=-", last + 2 * DAY));
                    ses.end_case();
                    grid_cases += 1;
                }
            }
        }
    }
    ses.note(format!("grid: {grid_cases} cases = kind {{base,nt,updatable,onchain}} x initial share {{none,0,1,5%,8%,8%+1,10%-1,10%,10%+1,50%,100%}} x new share {{0,1,2%±1,10%±1,100%±1,old,old±1,old+2%±1}} x first update at creation+24h {{-1ns,0,+1ns}}, then lowering at last+24h-1ns / +24h / +24h again (same block) / +48h-1ns"));

    // ---- 2. climbs per kind: repeated maximal raises, each exactly at the 24 h edge (can small raises pass 10 %?)
    for kind in KINDS {
        let k = kind.name();
        for (i, start) in [0u128, 1, PCT / 2, 3 * PCT, 4 * PCT + 1, 9 * PCT].iter().enumerate() {
            ses.begin_case(&mut sut, &format!("case climb kind={k} start={start}"));
            let mut at = t0 + i as u64;
            ses.step(&mut sut, &format!("inst kind={k} at={at} via=1 funds=0 minter={STUB_ID} creator=10 desc=3 image=2 link=4 explicit=1 stt=- roy=11:{start}"));
            let mut cur = *start;
            for stepn in 0..9 {
                at += DAY;
                // try an over-sized raise first (must fail), then the maximal legal one, then one more in the same instant
                let a1 = roy_upd(&mut ses, &mut sut, at, 10, 11, cur + 2 * PCT + 1);
                let target = (cur + 2 * PCT).min(if cur < 10 * PCT { 10 * PCT } else { cur });
                let a2 = roy_upd(&mut ses, &mut sut, at, 10, 11, target);
                let a3 = roy_upd(&mut ses, &mut sut, at, 10, 11, target + 1);
                if a2.starts_with("ok") {
                    cur = target;
                }
                ses.mark(format!("climb:{k}:{stepn}:{}{}{}:{}", o1(&a1), o1(&a2), o1(&a3), if cur >= 10 * PCT { "at-cap" } else { "below-cap" }));
            }
            // at the cap: +1 atomic must fail, lowering must pass
            at += DAY;
            let b1 = roy_upd(&mut ses, &mut sut, at, 10, 11, cur + 1);
            let b2 = roy_upd(&mut ses, &mut sut, at, 10, 11, cur.saturating_sub(1));
            ses.mark(format!("climb-end:{k}:{}{}", o1(&b1), o1(&b2)));
            ses.end_case();
        }
    }

    // ---- 3. something else happens BETWEEN two royalty updates (per kind): it must neither consume nor reset the cadence
    for kind in KINDS {
        let k = kind.name();
        ses.begin_case(&mut sut, &format!("case between kind={k}"));
        ses.step(&mut sut, &inst_line(kind, t0, 10, &Some((11, 6 * PCT))));
        let t1 = t0 + DAY;
        let mut o = String::new();
        o.push(o1(&roy_upd(&mut ses, &mut sut, t1, 10, 11, 5 * PCT))); // accepted: last = t1
        let mut f = UpdSpec::plain(t1 + DAY - 1, 10, "keep".into());
        f.desc = Some(7);
        f.explicit = "1";
        o.push(o1(&ses.step(&mut sut, &f.line()))); // fields only, 1 ns before the edge: must not move the anchor either way
        o.push(o1(&roy_upd(&mut ses, &mut sut, t1 + DAY - 1, 10, 11, 4 * PCT))); // too soon
        ses.step(&mut sut, &format!("stt at={} sender={STUB_ID} time=-", t1 + DAY - 1));
        ses.step(&mut sut, &format!("other at={} sender={STUB_ID} v=mint tok=1", t1 + DAY - 1));
        ses.step(&mut sut, &format!("migrate at={} to={k}", t1 + DAY - 1));
        o.push(o1(&roy_upd(&mut ses, &mut sut, t1 + DAY - 1, 10, 11, 4 * PCT))); // still too soon
        o.push(o1(&roy_upd(&mut ses, &mut sut, t1 + DAY, 10, 12, 4 * PCT))); // due: last = t2
        let t2 = t1 + DAY;
        let mut c = UpdSpec::plain(t2 + 1, 10, "keep".into());
        c.creator = Some(11);
        o.push(o1(&ses.step(&mut sut, &c.line()))); // creator 10 -> 11
        o.push(o1(&roy_upd(&mut ses, &mut sut, t2 + DAY, 10, 12, 3 * PCT))); // old creator
        o.push(o1(&roy_upd(&mut ses, &mut sut, t2 + DAY, 11, 12, 3 * PCT))); // new creator, due: last = t3
        let t3 = t2 + DAY;
        o.push(o1(&roy_upd(&mut ses, &mut sut, t3 + DAY, 11, 12, 3 * PCT + 2 * PCT + 1))); // refused raise …
        o.push(o1(&roy_upd(&mut ses, &mut sut, t3 + DAY, 11, 0, 2 * PCT))); // … refused address …
        o.push(o1(&roy_upd(&mut ses, &mut sut, t3 + DAY, 11, 12, 2 * PCT))); // … do not consume the cadence
        o.push(o1(&roy_upd(&mut ses, &mut sut, t3 + DAY, 11, 12, PCT))); // but the accepted one does
        ses.mark(format!("between:{k}:{o}"));
        ses.end_case();
    }

    // ---- 4. migrations
    // 4a. stored-version boundary of `v3_1_0::upgrade` (3.0.99 rewinds the anchor, 3.1.0 does not); no royalty change is
    //     attempted less than 24 h after the previous one, so the literal cadence clause is not in question here
    for (kind, to) in [(Kind::Updatable, Kind::Updatable), (Kind::Base, Kind::Updatable), (Kind::Onchain, Kind::Onchain), (Kind::Nt, Kind::Nt)] {
        for v in ["2.9.0", "3.0.0", "3.0.99", "3.1.0", "3.1.1", "3.15.0", "-"] {
            let k = kind.name();
            ses.begin_case(&mut sut, &format!("case migver kind={k} to={} v={v}", to.name()));
            ses.step(&mut sut, &inst_line(kind, t0, 10, &Some((11, 5 * PCT))));
            let a0 = roy_upd(&mut ses, &mut sut, t0 + DAY, 10, 11, 4 * PCT);
            let last = t0 + DAY;
            if v != "-" {
                ses.step(&mut sut, &format!("setver v={v}"));
            }
            let tm = last + DAY + 7;
            let m = ses.step(&mut sut, &format!("migrate at={tm} to={}", to.name()));
            let moved = Seen::parse(&m).map_or("?", |s| if s.upd == last { "norew" } else if s.upd == tm - DAY { "rew" } else { "other" });
            let a1 = roy_upd(&mut ses, &mut sut, tm, 10, 12, 3 * PCT);
            let (p, _, _) = cadence_probe(&mut ses, &mut sut, 10, tm, 3 * PCT);
            ses.mark(format!("migver:{k}:{v}:{}:{moved}:{}{}{p}", o2(&m), o1(&a0), o1(&a1)));
            ses.end_case();
        }
    }
    // 4b. an upgrade 1 ns after a royalty change, then another change in the same instant: must be refused. Stored versions
    //     (current code: base -> updatable is the upgrade path that exists on chain). For a fabricated stored version below
    //     3.1.0 the code ACCEPTS (Lean `C10_cadence_upgrade_counterexample`, corpus/C10/upgrade-rewind.json): recorded as an
    //     observation, not judged (decision: the property does not quantify over upgrades from pre-3.1.0 code).
    let mut soon: Vec<(Kind, Kind, &str)> = vec![
        (Kind::Base, Kind::Updatable, "-"),
        (Kind::Base, Kind::Updatable, "3.1.0"),
        (Kind::Updatable, Kind::Updatable, "3.1.0"),
        (Kind::Updatable, Kind::Updatable, "3.15.0"),
        (Kind::Onchain, Kind::Onchain, "3.0.0"),
        (Kind::Onchain, Kind::Onchain, "3.15.0"),
        (Kind::Nt, Kind::Nt, "3.0.0"),
    ];
    // documented observation, not a finding: fabricated pre-3.1.0 instances (corpus/C10/upgrade-rewind.json)
    soon.push((Kind::Updatable, Kind::Updatable, "3.0.0"));
    soon.push((Kind::Base, Kind::Updatable, "3.0.99"));
    let mut rewind_seen = 0;
    for (kind, to, v) in soon {
        let k = kind.name();
        ses.begin_case(&mut sut, &format!("case migsoon kind={k} to={} v={v}", to.name()));
        ses.step(&mut sut, &inst_line(kind, t0, 10, &Some((11, 5 * PCT))));
        let a0 = roy_upd(&mut ses, &mut sut, t0 + DAY, 10, 11, 4 * PCT);
        let last = t0 + DAY;
        if v != "-" {
            ses.step(&mut sut, &format!("setver v={v}"));
        }
        let m = ses.step(&mut sut, &format!("migrate at={} to={}", last + 1, to.name()));
        let a1 = roy_upd(&mut ses, &mut sut, last + 1, 10, 12, 3 * PCT);
        // whatever happened, the cadence continues from the harness's own record of the last accepted change
        let (from, share) = if a1.starts_with("ok") { (last + 1, 3 * PCT) } else { (last, 4 * PCT) };
        let (p, _, _) = cadence_probe(&mut ses, &mut sut, 10, from, share);
        ses.mark(format!("migsoon:{k}:{v}:{}:{}{}{p}", o2(&m), o1(&a0), o1(&a1)));
        if parse_ver(v).map_or(false, |x| x < (3, 1, 0)) && to == Kind::Updatable && a1.starts_with("ok") {
            ses.mark(format!("observed:upgrade-rewind:{k}:{v}"));
            rewind_seen += 1;
        }
        ses.end_case();
    }
    if rewind_seen > 0 {
        ses.note(format!("observation (not a finding, by decision): {rewind_seen} fabricated instances with a stored cw2 version below 3.1.0 accepted a royalty change, were upgraded to sg721-updatable 1 ns later (v3_1_0::upgrade rewinds royalty_updated_at) and accepted a second change at once; Lean C10_cadence_upgrade_counterexample; collections created by the current code: C10_no_rewind_reachable"));
    }

    // ---- 5. random lifetimes, random kind
    let n_life = ses.scale(1_500, 40_000);
    for n in 0..n_life {
        let kind = match n % 5 {
            0 | 1 => Kind::Base,
            2 => Kind::Nt,
            3 => Kind::Updatable,
            _ => Kind::Onchain,
        };
        ses.begin_case(&mut sut, &format!("case life k={n} kind={}", kind.name()));
        let start = t0 + rng.below(1000 * DAY);
        let mut tr = Track { seen: None, now: start, last: start, kind };
        // possibly a few failing instantiates first (single-fault mutations), then a valid one
        let mut tries = 0;
        loop {
            let valid = tries >= 2 || rng.chance(4, 5);
            let line = gen_inst(&mut rng, kind, tr.now, valid);
            let ans = ses.step(&mut sut, &line);
            ses.mark(format!("inst:{}:{}:{}", kind.name(), if valid { "valid" } else { "fault" }, o2(&ans)));
            if !valid {
                ses.count(&format!("inst-fault:{}", o2(&ans)));
            }
            let now = tr.now;
            follow(&mut tr, &line, &ans, now);
            tries += 1;
            if tr.seen.is_some() || tries > 4 {
                break;
            }
            if rng.chance(1, 3) {
                // ops against a collection that does not exist
                ses.step(&mut sut, &UpdSpec::plain(tr.now + DAY, 10, "11:5".into()).line());
            }
        }
        let n_ops = rng.range(8, 40);
        for _ in 0..n_ops {
            random_op(&mut ses, &mut sut, &mut rng, &mut tr, &all_names);
        }
        if rng.chance(1, 6) {
            // a second instantiate in the same case is refused by protocol convention (one collection per case)
            let line = gen_inst(&mut rng, kind, tr.now, true);
            ses.step(&mut sut, &line);
        }
        ses.end_case();
    }

    // ---- 6. the payout helper, pure: dense grids + boundaries
    ses.begin_case(&mut sut, "case payout-dense");
    let dense = ses.scale(20_000, 400_000) as u128;
    let shares: [u128; 14] = [0, 1, PCT / 7, 2 * PCT - 1, 2 * PCT, 2 * PCT + 1, 5 * PCT, 10 * PCT - 1, 10 * PCT, 10 * PCT + 1, 333_333_333_333_333_333, ONE - 1, ONE, ONE + 1];
    for pay in 0..dense {
        let share = shares[(pay % 14) as usize];
        let royalty = (Uint256::from(pay) * Uint256::from(share) / Uint256::from(ONE)).to_string().parse::<u128>().unwrap_or(u128::MAX);
        let room = pay.saturating_sub(royalty);
        for (j, (fee, finders)) in [(0u128, None), (room, None), (room + 1, None), (room / 2, Some(room - room / 2)), (room / 2, Some(room - room / 2 + 1)), (room.saturating_sub(1), Some(0u128))].iter().enumerate() {
            let ans = ses.step(&mut sut, &format!("payout roy=11:{share} pay={pay} fee={fee} finders={}", fmt_opt(finders)));
            if share != 0 && royalty > 0 {
                ses.mark(format!("payout-edge:{}:{}", ["nofee", "room", "room+1", "split-room", "split-room+1", "room-1"][j], o2(&ans)));
            }
        }
        if pay % 50 == 0 {
            ses.step(&mut sut, &format!("payout roy=- pay={pay} fee={} finders=-", pay + 5));
        }
        ses.mark(format!("payout-dense:{}", pay % 14));
    }
    ses.end_case();

    ses.begin_case(&mut sut, "case payout-boundaries-and-random");
    let mut amounts: Vec<u128> = vec![];
    for k in 0..128u32 {
        let p = 1u128 << k;
        amounts.extend([p - 1, p, p.saturating_add(1)]);
    }
    let mut t: u128 = 1;
    for _ in 0..38 {
        amounts.extend([t - 1, t, t + 1]);
        t = t.saturating_mul(10);
    }
    amounts.extend([u128::MAX, u128::MAX - 1]);
    let n_rand = ses.scale(100_000, 3_000_000);
    for _ in 0..n_rand {
        amounts.push(rng.sized_u128(128));
    }
    for pay in amounts {
        let share = match rng.below(10) {
            0 => 0,
            1 => *rng.pick(&shares),
            2 => rng.sized_u128(128),
            3 => ONE + rng.below(1000) as u128,
            _ => rng.below(ONE as u64 + 1) as u128,
        };
        let roy = if rng.chance(1, 15) { "-".to_string() } else { format!("{}:{share}", 10 + rng.below(4)) };
        let royalty = (Uint256::from(pay) * Uint256::from(share) / Uint256::from(ONE)).to_string().parse::<u128>().unwrap_or(u128::MAX);
        let room = pay.saturating_sub(royalty);
        let rel = rng.below(8);
        let total: u128 = match rel {
            0 => room,
            1 => room.saturating_add(1),
            2 => room.saturating_sub(1),
            3 => 0,
            4 => rng.sized_u128(128), // may overflow u128 inside the helper (a panic = refused)
            5 => pay,
            _ => (room as f64 * (rng.below(1000) as f64 / 1000.0)) as u128,
        };
        let (fee, finders): (u128, Option<u128>) = match rng.below(3) {
            0 => (total, None),
            1 => (total / 3, Some(total - total / 3)),
            _ => (total, Some(if rel == 4 { rng.sized_u128(128) } else { 0 })),
        };
        let ans = ses.step(&mut sut, &format!("payout roy={roy} pay={pay} fee={fee} finders={}", fmt_opt(&finders)));
        ses.mark(format!("payout:bits{}:rel{rel}:{}:{}", (128 - pay.leading_zeros()) / 8, if roy == "-" { "none" } else if share == 0 { "zero" } else if share > ONE { ">100" } else { "some" }, o2(&ans)));
    }
    ses.end_case();

    // regression (defect repaired in /repo 00871d3, corpus/C10/payout-fees-exceed-zero-royalty.json): fees above the payment
    // with no royalty due must be refused; at fees == payment nothing is paid
    ses.begin_case(&mut sut, "case corpus payout-fees-exceed-zero-royalty");
    let mut o = String::new();
    for l in ["payout roy=- pay=10 fee=20 finders=-", "payout roy=11:0 pay=10 fee=20 finders=-", "payout roy=- pay=10 fee=6 finders=5", "payout roy=11:0 pay=10 fee=6 finders=5",
        "payout roy=- pay=20 fee=20 finders=-", "payout roy=11:0 pay=20 fee=15 finders=5"] {
        o.push(o1(&ses.step(&mut sut, l)));
    }
    ses.mark(format!("corpus:payout-zero-royalty:{o}"));
    ses.end_case();

    // ---- coverage floor: without these the run would be vacuous (every seed, every tier)
    for kind in KINDS {
        let k = kind.name();
        for (_, v) in schema_variants(&exec_schema(kind)).iter().enumerate().map(|(i, x)| (i, x.0.clone())) {
            ses.require(format!("sent:{k}:{v}"));
        }
        ses.require(format!("tour-probe:{k}:oeoe")); // lowering accepted; then: 1 ns early refused, due accepted, same block refused
        ses.require(format!("tour-freeze:{k}:oe"));
        ses.require(format!("grid:{k}:lower/<10:edge-1:er"));
        ses.require(format!("grid:{k}:lower/<10:edge:ok"));
        ses.require(format!("grid:{k}:lower/<10:edge+1:ok"));
        ses.require(format!("grid:{k}:raise=2/<10:edge:ok"));
        ses.require(format!("grid:{k}:raise=2+1/<10:edge:er"));
        ses.require(format!("grid:{k}:raise<2/=10:edge:ok"));
        ses.require(format!("grid:{k}:raise<2/>10:edge:er"));
        ses.require(format!("grid:{k}:noold/=100:edge:ok"));
        ses.require(format!("grid:{k}:noold/>100:edge:er"));
        ses.require(format!("grid:{k}:lower/<10:edge+1:ok"));
        ses.require(format!("grid2:{k}:roy:eoee"));
        ses.require(format!("climb:{k}:0:eoe:below-cap"));
        ses.require(format!("climb:{k}:8:eoe:at-cap"));
        ses.require(format!("climb-end:{k}:eo"));
        ses.require(format!("between:{k}:ooeeooeoeeoe"));
        ses.require(format!("inst:{k}:valid:ok"));
        ses.require(format!("inst:{k}:fault:er"));
    }
    ses.require("corpus:payout-zero-royalty:eeeeoo");
    ses.require("tour-probe:base->updatable:oeeoe"); // upgrade accepted, change 1 ns after the previous one refused, then e/o/e
    ses.require("migver:updatable:3.0.99:ok:rew:");
    ses.require("migver:updatable:3.1.0:ok:norew:");
    ses.require("migver:base:3.0.99:ok:rew:");
    ses.require("migver:base:3.1.0:ok:norew:");
    ses.require("migver:base:-:ok:norew:");
    ses.require("migsoon:base:-:ok:oeeoe");
    ses.require("migsoon:updatable:3.1.0:ok:oeeoe");
    for c in ["payout-edge:room:ok", "payout-edge:room+1:er", "payout-edge:split-room:ok", "payout-edge:split-room+1:er", "payout:bits", "*:none:ok*", "*:zero:ok*"] {
        ses.require(c);
    }

    ses.note("kinds: every section runs for sg721-base, sg721-nt, sg721-updatable and sg721-metadata-onchain (monitor keys sg721-<kind>/…); message surface of each kind enumerated from schema_for!(ExecuteMsg) at run time");
    ses.note("times: first/next royalty update at last-change+24h {-1ns,0,+1ns}, same block again, sub-second offsets, backwards clock, far future; all < 2^62 ns");
    ses.note("shares: Decimal atomics incl. 0, 1, 2%±1, 10%±1, 100%±1, old, old±1, old+2%±1, uniformly random bit-length up to u128::MAX");
    ses.note("migrations: base->updatable at the current version, stored versions 2.9.0/3.0.0/3.0.99/3.1.0/3.1.1/3.15.0 (setver) for updatable, base->updatable, onchain, nt; upgrade 1 ns after a change");
    ses.note("payout: every payment below the dense bound x 14 shares x 6 fee splits around payment-royalty {-1,0,+1}; 2^k±1, 10^k±1, u128::MAX; random 128-bit incl. fee sums that overflow u128");
    if let Ok(pat) = std::env::var("C10_SHOW_CLASSES") {
        // development aid: list the marked classes starting with one of the given prefixes
        for c in ses.classes.iter().filter(|c| pat.split(',').any(|p| c.starts_with(p))) {
            println!("class {c}");
        }
    }
    ses.finish(&mut sut);
}
