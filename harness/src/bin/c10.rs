//! C10 — royalties of sg721-base: the REAL `instantiate` / `execute` / `query` entry points (under cw-multi-test,
//! instantiated by a stub "minter" contract because sg721-base insists on a contract sender) and the REAL
//! `CollectionInfoResponse::royalty_payout`, against the Lean model `LP.Royalty` (driver `drv_c10`).
//!
//! Protocol lines: see `lean/LaunchpadModel/Driver/C10.lean`. Every line carries its block time `at=<ns>`.
//! Conventions shared with the model (each is *checked* by the run, not trusted):
//!   * address id 0 -> "x" (too short), 5 -> "ACCT00005" (not normalised): rejected by `addr_validate`; else `world::addr`;
//!   * image / link id: even -> "https://…/<id>" (valid URL), odd -> "bad<id>" (`Url::parse` fails);
//!   * description = "d" repeated `desc` times; shares are Decimal atomics (10^18 = 100 %).
use cosmwasm_schema::cw_serde;
use cosmwasm_std::{
    to_json_binary, Addr, Binary, Coin, Decimal, Deps, DepsMut, Empty, Env, MessageInfo, Response, StdResult, Timestamp, Uint128, Uint256,
    WasmMsg,
};
use cw_multi_test::{BankSudo, ContractWrapper, Executor, SudoMsg};
use lp_harness::boxes::{self, App};
use lp_harness::world::*;
use lp_harness::*;
use sg721::{CollectionInfo, RoyaltyInfoResponse, UpdateCollectionInfoMsg};
use sg721_base::msg::{CollectionInfoResponse, QueryMsg};

const DAY: u64 = 24 * 60 * 60 * 1_000_000_000; // the property's "24 hours", in ns
const ONE: u128 = 1_000_000_000_000_000_000; // 100 %
const PCT: u128 = ONE / 100;
const STUB_ID: u64 = 1000; // contract0

// ------------------------------------------------------------------------------------------------ stub minter

#[cw_serde]
enum StubExec {
    Inst { code_id: u64, msg: Binary, funds: Vec<Coin> },
    Exec { contract: String, msg: Binary },
}
fn stub_instantiate(_d: DepsMut, _e: Env, _i: MessageInfo, _m: Empty) -> StdResult<Response> {
    Ok(Response::new())
}
fn stub_execute(_d: DepsMut, _e: Env, _i: MessageInfo, m: StubExec) -> StdResult<Response> {
    Ok(match m {
        StubExec::Inst { code_id, msg, funds } => Response::new().add_message(WasmMsg::Instantiate { admin: None, code_id, msg, funds, label: "collection".into() }),
        StubExec::Exec { contract, msg } => Response::new().add_message(WasmMsg::Execute { contract_addr: contract, msg, funds: vec![] }),
    })
}
fn stub_query(_d: Deps, _e: Env, _m: Empty) -> StdResult<Binary> {
    Ok(Binary::default())
}

// ------------------------------------------------------------------------------------------------ naming

fn addr_s(id: u64) -> String {
    match id {
        0 => "x".into(),
        5 => "ACCT00005".into(),
        n => addr(n),
    }
}
fn url_s(kind: &str, id: u64) -> String {
    if id % 2 == 0 {
        format!("https://{kind}.example/{id}")
    } else {
        format!("bad{id}")
    }
}
fn url_id(s: &str) -> u64 {
    let digits: String = s.chars().rev().take_while(|c| c.is_ascii_digit()).collect::<String>().chars().rev().collect();
    digits.parse().unwrap_or(999_999_999)
}
fn dec(atomics: u128) -> Decimal {
    Decimal::new(Uint128::new(atomics))
}
fn parse_roy(v: &str) -> Option<(u64, u128)> {
    let (a, s) = v.split_once(':')?;
    Some((a.parse().ok()?, s.parse().ok()?))
}

#[derive(Clone, Debug, PartialEq)]
struct Obs {
    creator: u64,
    desc: usize,
    image: u64,
    link: Option<u64>,
    explicit: Option<bool>,
    stt: Option<u64>,
    roy: Option<(u64, u128)>,
    frozen: bool,
    upd: u64,
}
impl Obs {
    fn render(o: &Option<Obs>) -> String {
        match o {
            None => "none".into(),
            Some(o) => format!(
                "creator={} desc={} image={} link={} explicit={} stt={} roy={} frozen={} upd={}",
                o.creator,
                o.desc,
                o.image,
                fmt_opt(&o.link),
                match o.explicit {
                    None => "-",
                    Some(true) => "1",
                    Some(false) => "0",
                },
                fmt_opt(&o.stt),
                match o.roy {
                    None => "-".to_string(),
                    Some((a, s)) => format!("{a}:{s}"),
                },
                o.frozen as u8,
                o.upd
            ),
        }
    }
    /// parse the observation part of an answer line (used by the generators to follow the real state)
    fn parse(ans: &str) -> Option<Obs> {
        if !ans.contains("creator=") {
            return None;
        }
        Some(Obs {
            creator: kv_u64(ans, "creator")?,
            desc: kv_u64(ans, "desc")? as usize,
            image: kv_u64(ans, "image")?,
            link: kv_opt_u64(ans, "link")?,
            explicit: match kv(ans, "explicit")? {
                "1" => Some(true),
                "0" => Some(false),
                _ => None,
            },
            stt: kv_opt_u64(ans, "stt")?,
            roy: match kv(ans, "roy")? {
                "-" => None,
                v => parse_roy(v),
            },
            frozen: kv_bool(ans, "frozen")?,
            upd: kv_u64(ans, "upd")?,
        })
    }
}

// ------------------------------------------------------------------------------------------------ world + Sut

struct World {
    app: App,
    stub: Addr,
    code: u64,
    coll: Option<Addr>,
}
impl World {
    fn new() -> World {
        let mut app = boxes::custom_mock_app();
        let stub_code = app.store_code(Box::new(ContractWrapper::new(stub_execute, stub_instantiate, stub_query)));
        let code = app.store_code(boxes::sg721_base());
        let stub = app.instantiate_contract(stub_code, a(9), &Empty {}, &[], "stub-minter", None).expect("stub");
        assert_eq!(addr_id(stub.as_str()), STUB_ID);
        for who in [stub.to_string(), addr(10), addr(11), addr(12)] {
            app.sudo(SudoMsg::Bank(BankSudo::Mint { to_address: who, amount: vec![coin_of(0, 1_000_000)] })).expect("fund");
        }
        World { app, stub, code, coll: None }
    }
    fn set_time(&mut self, at: u64) {
        self.app.update_block(|b| {
            b.time = Timestamp::from_nanos(at);
            b.height += 1;
        });
    }
    fn observe(&self) -> Option<Obs> {
        let c = self.coll.as_ref()?;
        let info: CollectionInfoResponse = self.app.wrap().query_wasm_smart(c, &QueryMsg::CollectionInfo {}).ok()?;
        let raw = |k: &str| self.app.wrap().query_wasm_raw(c.to_string(), k.as_bytes().to_vec()).ok().flatten();
        let upd: Timestamp = cosmwasm_std::from_json(raw("royalty_updated_at")?).ok()?;
        let frozen: bool = cosmwasm_std::from_json(raw("frozen_collection_info")?).ok()?;
        Some(Obs {
            creator: addr_id(&info.creator),
            desc: info.description.len(),
            image: url_id(&info.image),
            link: info.external_link.as_deref().map(url_id),
            explicit: info.explicit_content,
            stt: info.start_trading_time.map(|t| t.nanos()),
            roy: info.royalty_info.map(|r| (addr_id(&r.payment_address), r.share.atomics().u128())),
            frozen,
            upd: upd.nanos(),
        })
    }
    /// execute a collection message as `sender` (routed through the stub when the sender is the stub contract)
    fn exec_coll(&mut self, sender: u64, msg: &sg721_base::ExecuteMsg) -> bool {
        let Some(c) = self.coll.clone() else { return false };
        let stub = self.stub.clone();
        let app = &mut self.app;
        catch(|| {
            if sender == STUB_ID {
                app.execute_contract(a(9), stub, &StubExec::Exec { contract: c.to_string(), msg: to_json_binary(msg).unwrap() }, &[]).is_ok()
            } else {
                app.execute_contract(Addr::unchecked(addr_s(sender)), c, msg, &[]).is_ok()
            }
        })
        .unwrap_or(false)
    }
}

struct S {
    w: World,
    // ---- monitor bookkeeping (implementation trace only)
    prev: Option<Obs>,
    cur: Option<Obs>,
    last_line: String,
    last_out: String,
    /// block time of the instantiate / of the last accepted royalty change, as witnessed by the monitor itself
    last_change: Option<u64>,
    pending: Option<(String, String)>,
}

impl S {
    fn new() -> S {
        S { w: World::new(), prev: None, cur: None, last_line: String::new(), last_out: String::new(), last_change: None, pending: None }
    }

    fn do_inst(&mut self, line: &str) -> bool {
        let at = kv_u64(line, "at").unwrap();
        self.w.set_time(at);
        let roy = match kv(line, "roy").unwrap() {
            "-" => None,
            v => parse_roy(v).map(|(ad, s)| RoyaltyInfoResponse { payment_address: addr_s(ad), share: dec(s) }),
        };
        let msg = sg721::InstantiateMsg {
            name: "Collection".into(),
            symbol: "COL".into(),
            minter: addr_s(kv_u64(line, "minter").unwrap()),
            collection_info: CollectionInfo {
                creator: addr_s(kv_u64(line, "creator").unwrap()),
                description: "d".repeat(kv_u64(line, "desc").unwrap() as usize),
                image: url_s("img", kv_u64(line, "image").unwrap()),
                external_link: kv_opt_u64(line, "link").unwrap().map(|l| url_s("link", l)),
                explicit_content: match kv(line, "explicit").unwrap() {
                    "1" => Some(true),
                    "0" => Some(false),
                    _ => None,
                },
                start_trading_time: kv_opt_u64(line, "stt").unwrap().map(Timestamp::from_nanos),
                royalty_info: roy,
            },
        };
        let funds_amt = kv_u128(line, "funds").unwrap();
        let funds: Vec<Coin> = if funds_amt == 0 { vec![] } else { vec![coin_of(0, funds_amt)] };
        let via = kv_bool(line, "via").unwrap();
        let code = self.w.code;
        let stub = self.w.stub.clone();
        let app = &mut self.w.app;
        let res: Option<Addr> = catch(|| {
            if via {
                let r = app.execute_contract(a(9), stub, &StubExec::Inst { code_id: code, msg: to_json_binary(&msg).unwrap(), funds }, &[]).ok()?;
                let ev = r.events.iter().rev().find(|e| e.ty == "instantiate")?;
                let ad = ev.attributes.iter().find(|x| x.key == "_contract_address")?;
                Some(Addr::unchecked(ad.value.clone()))
            } else {
                app.instantiate_contract(code, a(10), &msg, &funds, "collection", None).ok()
            }
        })
        .unwrap_or(None);
        match res {
            Some(c) => {
                self.w.coll = Some(c);
                true
            }
            None => false,
        }
    }

    fn do_upd(&mut self, line: &str) -> bool {
        let roy: Option<Option<RoyaltyInfoResponse>> = match kv(line, "roy").unwrap() {
            "keep" => None,
            "clear" => Some(None),
            v => parse_roy(v).map(|(ad, s)| Some(RoyaltyInfoResponse { payment_address: addr_s(ad), share: dec(s) })),
        };
        let link: Option<Option<String>> = match kv(line, "link").unwrap() {
            "keep" => None,
            "clear" => Some(None),
            v => Some(Some(url_s("link", v.parse().unwrap()))),
        };
        let msg = sg721_base::ExecuteMsg::UpdateCollectionInfo {
            collection_info: UpdateCollectionInfoMsg {
                description: kv_opt_u64(line, "desc").unwrap().map(|n| "d".repeat(n as usize)),
                image: kv_opt_u64(line, "image").unwrap().map(|i| url_s("img", i)),
                external_link: link,
                explicit_content: match kv(line, "explicit").unwrap() {
                    "1" => Some(true),
                    "0" => Some(false),
                    _ => None,
                },
                royalty_info: roy,
                creator: kv_opt_u64(line, "creator").unwrap().map(addr_s),
            },
        };
        self.w.exec_coll(kv_u64(line, "sender").unwrap(), &msg)
    }

    fn do_other(&mut self, line: &str) -> bool {
        use sg721::ExecuteMsg as E;
        let tok = kv_u64(line, "tok").unwrap().to_string();
        let who = |k: u64| addr(10 + k % 4);
        let t = kv_u64(line, "tok").unwrap();
        let msg: sg721_base::ExecuteMsg = match kv_u64(line, "kind").unwrap() {
            0 => E::Mint { token_id: tok, owner: who(t), token_uri: Some("ipfs://x".into()), extension: None },
            1 => E::TransferNft { recipient: who(t + 1), token_id: tok },
            2 => E::Approve { spender: who(t + 2), token_id: tok, expires: None },
            3 => E::Revoke { spender: who(t + 2), token_id: tok },
            4 => E::ApproveAll { operator: who(t + 3), expires: None },
            5 => E::RevokeAll { operator: who(t + 3) },
            6 => E::Burn { token_id: tok },
            7 => E::SendNft { contract: self.w.stub.to_string(), token_id: tok, msg: Binary::default() },
            8 => E::UpdateOwnership(cw_ownable::Action::TransferOwnership { new_owner: who(t), expiry: None }),
            9 => E::UpdateOwnership(cw_ownable::Action::AcceptOwnership),
            10 => E::UpdateOwnership(cw_ownable::Action::RenounceOwnership),
            _ => E::Extension { msg: Empty {} }, // `todo!()` in the contract: a panic = failed transaction
        };
        self.w.exec_coll(kv_u64(line, "sender").unwrap(), &msg)
    }

    fn payout(info: Option<(u64, u128)>, line: &str) -> String {
        let resp = CollectionInfoResponse {
            creator: addr(10),
            description: String::new(),
            image: "https://img.example/0".into(),
            external_link: None,
            explicit_content: None,
            start_trading_time: None,
            royalty_info: info.map(|(ad, s)| RoyaltyInfoResponse { payment_address: addr_s(ad), share: dec(s) }),
        };
        Self::payout_on(&resp, line)
    }
    fn payout_on(resp: &CollectionInfoResponse, line: &str) -> String {
        let pay = kv_u128(line, "pay").unwrap();
        let fee = kv_u128(line, "fee").unwrap();
        let finders = kv_opt_u128(line, "finders").unwrap();
        catch(|| {
            let mut res = Response::new();
            match resp.royalty_payout(a(1001), Uint128::new(pay), Uint128::new(fee), finders.map(Uint128::new), &mut res) {
                Ok(amt) => format!("ok {} {}", amt.u128(), render_msgs(&res.messages)),
                Err(_) => "err".into(),
            }
        })
        .unwrap_or_else(|_| "err".into()) // u128 overflow inside the helper aborts the transaction
    }

    /// independent re-statement of the payout clause, on 256-bit integers
    fn check_payout(info: Option<(u64, u128)>, line: &str, out: &str) -> Option<(String, String)> {
        let pay = kv_u128(line, "pay")?;
        let fee = kv_u128(line, "fee")?;
        let finders = kv_opt_u128(line, "finders")?.unwrap_or(0);
        let bad = |p: &str, w: String| Some((format!("sg721-base/royalty_payout/{p}"), format!("{w} on `{line}` (royalty {:?}) => `{out}`", info)));
        match info {
            None => (out != "ok 0 -").then(|| bad("absent-pays", "no royalties configured: must pay nothing".into())).flatten(),
            Some((_, 0)) => (out != "ok 0 -").then(|| bad("zero-share-pays", "zero share: must pay nothing".into())).flatten(),
            Some((ad, share)) => {
                let floor = Uint256::from(pay) * Uint256::from(share) / Uint256::from(ONE);
                let need = Uint256::from(fee) + Uint256::from(finders) + floor;
                if Uint256::from(pay) < need {
                    (out != "err").then(|| bad("fees-exceed-accepted", format!("fees {fee}+{finders} plus royalty {floor} exceed the payment {pay}: must refuse"))).flatten()
                } else {
                    let want = format!("ok {floor} send:{ad}:0:{floor}");
                    (out != want).then(|| bad("not-floor", format!("must pay floor(payment x share) = {floor} to the royalty address (expected `{want}`)"))).flatten()
                }
            }
        }
    }
}

impl Sut for S {
    fn begin(&mut self, header: &str) -> (String, String) {
        *self = S::new();
        (header.to_string(), "case".to_string())
    }

    fn exec(&mut self, line: &str) -> (String, String) {
        let op = line.split_whitespace().next().unwrap_or("");
        self.pending = None;
        let mut model_line = line.to_string();
        let out: String = match op {
            "payout" => {
                let info = match kv(line, "roy").unwrap() {
                    "-" => None,
                    v => parse_roy(v),
                };
                let o = S::payout(info, line);
                self.pending = S::check_payout(info, line, &o);
                o
            }
            "cpay" => match self.w.coll.clone() {
                None => "err".into(),
                Some(c) => {
                    self.w.set_time(kv_u64(line, "at").unwrap());
                    let resp: CollectionInfoResponse = self.w.app.wrap().query_wasm_smart(&c, &QueryMsg::CollectionInfo {}).expect("CollectionInfo");
                    let o = S::payout_on(&resp, line);
                    let info = resp.royalty_info.as_ref().map(|r| (addr_id(&r.payment_address), r.share.atomics().u128()));
                    self.pending = S::check_payout(info, line, &o);
                    o
                }
            },
            "inst" => {
                let ok = if self.w.coll.is_some() { false } else { self.do_inst(line) };
                self.state_answer(ok)
            }
            "upd" | "freeze" | "stt" | "other" => {
                if self.w.coll.is_none() {
                    if op == "stt" || op == "other" {
                        model_line.push_str(" ok=0");
                    }
                    "err none".into()
                } else {
                    self.w.set_time(kv_u64(line, "at").unwrap());
                    let ok = match op {
                        "upd" => self.do_upd(line),
                        "freeze" => self.w.exec_coll(kv_u64(line, "sender").unwrap(), &sg721::ExecuteMsg::FreezeCollectionInfo),
                        "stt" => {
                            let t = kv_opt_u64(line, "time").unwrap().map(Timestamp::from_nanos);
                            self.w.exec_coll(kv_u64(line, "sender").unwrap(), &sg721::ExecuteMsg::UpdateStartTradingTime(t))
                        }
                        _ => self.do_other(line),
                    };
                    if op == "stt" || op == "other" {
                        model_line.push_str(if ok { " ok=1" } else { " ok=0" });
                    }
                    self.state_answer(ok)
                }
            }
            _ => "bad-op".into(),
        };
        self.last_line = line.to_string();
        self.last_out = out.clone();
        (model_line, out)
    }

    /// Direct transcription of C10 on the implementation's own observations (independent of the Lean model).
    fn monitor(&mut self) -> Option<(String, String)> {
        if let Some(p) = self.pending.take() {
            return Some(p);
        }
        let line = self.last_line.clone();
        let out = self.last_out.clone();
        let op = line.split_whitespace().next()?.to_string();
        if !matches!(op.as_str(), "inst" | "upd" | "freeze" | "stt" | "other") {
            return None;
        }
        let ok = out.starts_with("ok");
        let at = kv_u64(&line, "at")?;
        let (prev, cur) = (self.prev.clone(), self.cur.clone());
        let bad = |p: &str, w: String| Some((format!("sg721-base/{op}/{p}"), format!("{w}; op `{line}` => `{out}`")));
        // "never above 100%, at creation or after any update"
        if let Some(Obs { roy: Some((_, s)), .. }) = &cur {
            if *s > ONE {
                return bad("share-above-100", format!("stored royalty share {s} atomics is above 100%"));
            }
        }
        if op == "inst" {
            if ok && prev.is_none() {
                self.last_change = Some(at);
            }
            return None;
        }
        let (Some(prev), Some(cur)) = (prev, cur) else { return None };
        let roy_set = if op == "upd" { kv(&line, "roy").and_then(parse_roy) } else { None };
        let changed = prev.roy != cur.roy;
        // "an update that raises the share raises it by at most 2 percentage points and to at most 10%"
        if let (Some((_, o)), Some((_, n))) = (prev.roy, cur.roy) {
            if n > o {
                if n - o > 2 * PCT {
                    return bad("raise-above-2pp", format!("share raised from {o} to {n}: more than 2 percentage points"));
                }
                if n > 10 * PCT {
                    return bad("raise-above-10pct", format!("share raised from {o} to {n}: above 10%"));
                }
            }
        }
        // "any royalty change is accepted at most once per 24 hours" (first change: 24 h after creation)
        let accepted_update = ok && roy_set.is_some();
        let last_before = self.last_change;
        if changed || accepted_update {
            if let Some(last) = self.last_change {
                if (at as u128) < last as u128 + DAY as u128 {
                    return bad("cadence", format!("royalty change accepted at {at}, less than 24h after the previous change/creation at {last}"));
                }
            }
            self.last_change = Some(at);
        }
        // "lowering is always allowed within that cadence" — by the creator, on an unfrozen collection, all other fields valid
        if let (Some((ad, s)), Some((_, o)), Some(last)) = (roy_set, prev.roy, last_before) {
            let sender = kv_u64(&line, "sender")?;
            let valid_addr = |x: u64| x != 0 && x != 5;
            let others_valid = kv_opt_u64(&line, "desc")?.map_or(true, |n| n <= 512)
                && kv_opt_u64(&line, "image")?.map_or(true, |i| i % 2 == 0)
                && match kv(&line, "link")? {
                    "keep" | "clear" => true,
                    v => v.parse::<u64>().ok()? % 2 == 0,
                }
                && kv_opt_u64(&line, "creator")?.map_or(true, valid_addr);
            if s <= o && sender == prev.creator && !prev.frozen && at as u128 >= last as u128 + DAY as u128 && valid_addr(ad) && others_valid {
                if !ok || cur.roy != Some((ad, s)) {
                    return bad("lower-rejected", format!("lowering the share from {o} to {s} by the creator, 24h after {last}, was not applied"));
                }
            }
        }
        None
    }
}

impl S {
    fn state_answer(&mut self, ok: bool) -> String {
        self.prev = self.cur.take();
        self.cur = self.w.observe();
        format!("{} {}", if ok { "ok" } else { "err" }, Obs::render(&self.cur))
    }
}

// ------------------------------------------------------------------------------------------------ generators

#[derive(Clone)]
struct Track {
    obs: Option<Obs>,
    now: u64,
}

fn time_choice(rng: &mut Rng, tr: &Track) -> (u64, &'static str) {
    let base = tr.obs.as_ref().map(|o| o.upd).unwrap_or(tr.now);
    let edge = base + DAY;
    match rng.below(24) {
        0..=1 => (edge - 1, "edge-1"),
        2..=6 => (edge, "edge"),
        7..=9 => (edge + 1, "edge+1"),
        10 => (base + rng.below(DAY), "early"),
        11 => (base, "same-instant"),
        12 => (base.saturating_sub(rng.below(3 * DAY)), "backwards"),
        13 => (edge - 1 - rng.below(1_000_000_000), "edge-sub-second"),
        14 => (edge + rng.below(1_000_000_000), "edge+sub-second"),
        15 => (tr.now.max(edge) + rng.below(400 * DAY), "far"),
        _ => (edge + rng.below(3 * DAY), "late"),
    }
}

fn share_choice(rng: &mut Rng, old: Option<u128>) -> (u128, String) {
    let fixed: [u128; 16] =
        [0, 1, 2 * PCT - 1, 2 * PCT, 2 * PCT + 1, 10 * PCT - 1, 10 * PCT, 10 * PCT + 1, ONE - 1, ONE, ONE + 1, 5 * PCT, 50 * PCT, 8 * PCT, 8 * PCT + 1, 12 * PCT];
    let s = match (rng.below(16), old) {
        (0..=2, Some(o)) => o.saturating_sub(rng.range(1, 3) as u128 * PCT / 2), // lower
        (3, Some(o)) => o.saturating_sub(1),
        (4, Some(o)) => o,
        (5, Some(o)) => o + 1,
        (6, Some(o)) => o + 2 * PCT - 1,
        (7..=8, Some(o)) => o + 2 * PCT,
        (9, Some(o)) => o + 2 * PCT + 1,
        (10, Some(o)) => o + rng.below(2 * PCT as u64 + 1) as u128, // raise within the delta
        (11, Some(o)) => rng.below(o as u64 + 1) as u128,          // any lower value
        (12, _) => rng.sized_u128(128),                            // anything a Decimal can hold
        (13, _) => rng.below(12 * PCT as u64) as u128,
        _ => *rng.pick(&fixed),
    };
    (s, share_class(old, s))
}

fn share_class(old: Option<u128>, s: u128) -> String {
    let abs = if s > ONE {
        ">100"
    } else if s == ONE {
        "=100"
    } else if s > 10 * PCT {
        ">10"
    } else if s == 10 * PCT {
        "=10"
    } else if s == 0 {
        "0"
    } else {
        "<10"
    };
    let rel = match old {
        None => "noold",
        Some(o) if s < o => "lower",
        Some(o) if s == o => "equal",
        Some(o) if s - o < 2 * PCT => "raise<2",
        Some(o) if s - o == 2 * PCT => "raise=2",
        Some(o) if s - o == 2 * PCT + 1 => "raise=2+1",
        _ => "raise>2",
    };
    format!("{rel}/{abs}")
}

fn desc_choice(rng: &mut Rng) -> u64 {
    *rng.pick(&[0u64, 1, 17, 511, 512, 512, 513, 600, 40])
}
fn url_choice(rng: &mut Rng) -> u64 {
    let k = rng.below(50) * 2;
    if rng.chance(1, 8) {
        k + 1
    } else {
        k
    }
}
fn addr_choice(rng: &mut Rng) -> u64 {
    match rng.below(12) {
        0 => 0,
        1 => 5,
        k => 10 + k % 4,
    }
}

fn gen_inst(rng: &mut Rng, at: u64, valid: bool) -> String {
    let mut via = 1;
    let mut funds = 0;
    let mut minter = STUB_ID;
    let mut creator = 10 + rng.below(3);
    let mut desc = *rng.pick(&[0u64, 3, 100, 511, 512]);
    let mut image = rng.below(50) * 2;
    let mut link: Option<u64> = if rng.chance(1, 2) { Some(rng.below(50) * 2) } else { None };
    let mut roy: Option<(u64, u128)> = match rng.below(10) {
        0..=2 => None,
        3 => Some((11, 0)),
        4 => Some((11, ONE)),
        5 => Some((11, 10 * PCT)),
        6 => Some((12, 50 * PCT)),
        7 => Some((12, *rng.pick(&[1u128, 2 * PCT, 8 * PCT, 8 * PCT + 1, 10 * PCT - 1, 10 * PCT + 1, ONE - 1]))),
        _ => Some((11, rng.below(10 * PCT as u64) as u128)),
    };
    if !valid {
        match rng.below(9) {
            0 => via = 0,
            1 => funds = 1 + rng.below(5),
            2 => minter = *rng.pick(&[0u64, 5]),
            3 => creator = *rng.pick(&[0u64, 5]),
            4 => desc = *rng.pick(&[513u64, 2000]),
            5 => image = rng.below(50) * 2 + 1,
            6 => link = Some(rng.below(50) * 2 + 1),
            7 => roy = Some((*rng.pick(&[0u64, 5]), 5 * PCT)),
            _ => {
                let extra = ONE + 2 + rng.below(1000) as u128;
                roy = Some((11, *rng.pick(&[ONE + 1, 2 * ONE, u128::MAX, extra])))
            }
        }
    }
    let explicit = *rng.pick(&["-", "0", "1"]);
    let stt = if rng.chance(1, 2) { "-".to_string() } else { (at + rng.below(DAY)).to_string() };
    format!(
        "inst at={at} via={via} funds={funds} minter={minter} creator={creator} desc={desc} image={image} link={} explicit={explicit} stt={stt} roy={}",
        fmt_opt(&link),
        match roy {
            None => "-".to_string(),
            Some((a, s)) => format!("{a}:{s}"),
        }
    )
}

struct UpdSpec {
    at: u64,
    sender: u64,
    desc: Option<u64>,
    image: Option<u64>,
    link: String,
    explicit: &'static str,
    roy: String,
    creator: Option<u64>,
}
impl UpdSpec {
    fn plain(at: u64, sender: u64, roy: String) -> UpdSpec {
        UpdSpec { at, sender, desc: None, image: None, link: "keep".into(), explicit: "-", roy, creator: None }
    }
    fn line(&self) -> String {
        format!(
            "upd at={} sender={} desc={} image={} link={} explicit={} roy={} creator={}",
            self.at,
            self.sender,
            fmt_opt(&self.desc),
            fmt_opt(&self.image),
            self.link,
            self.explicit,
            self.roy,
            fmt_opt(&self.creator)
        )
    }
}

fn follow(tr: &mut Track, ans: &str, at: u64) {
    if let Some(o) = Obs::parse(ans) {
        tr.obs = Some(o);
    }
    tr.now = at;
}

/// one random op on a live collection; returns the class key
fn random_op(ses: &mut Session, sut: &mut S, rng: &mut Rng, tr: &mut Track) {
    let creator = tr.obs.as_ref().map(|o| o.creator).unwrap_or(10);
    let old = tr.obs.as_ref().and_then(|o| o.roy).map(|r| r.1);
    let frozen = tr.obs.as_ref().map(|o| o.frozen).unwrap_or(false);
    let (at, tclass) = time_choice(rng, tr);
    let sender = match rng.below(16) {
        0 => 10 + rng.below(4),
        1 => STUB_ID,
        _ => creator,
    };
    let who = if sender == creator { "creator" } else { "stranger" };
    match rng.below(130) {
        100..=129 | 0..=69 => {
            let (royk, roy, sclass) = match rng.below(12) {
                0 => ("keep", "keep".to_string(), "-".to_string()),
                1 => ("clear", "clear".to_string(), "-".to_string()),
                _ => {
                    let (s, cl) = share_choice(rng, old);
                    let ad = if rng.chance(1, 14) { *rng.pick(&[0u64, 5]) } else { 11 + rng.below(2) };
                    ("set", format!("{ad}:{s}"), format!("{cl}{}", if ad == 0 || ad == 5 { "/badaddr" } else { "" }))
                }
            };
            let mut u = UpdSpec::plain(at, sender, roy);
            let mut other = "plain";
            if rng.chance(1, 3) {
                other = "fields";
                if rng.chance(1, 2) {
                    u.desc = Some(desc_choice(rng));
                }
                if rng.chance(1, 2) {
                    u.image = Some(url_choice(rng));
                }
                u.link = match rng.below(4) {
                    0 => "keep".into(),
                    1 => "clear".into(),
                    _ => url_choice(rng).to_string(),
                };
                u.explicit = *rng.pick(&["-", "0", "1"]);
                if rng.chance(1, 6) {
                    u.creator = Some(addr_choice(rng));
                }
            }
            let ans = ses.step(sut, &u.line());
            let outcome = ans.split(' ').next().unwrap_or("?").to_string();
            ses.mark(format!("upd:{royk}:{tclass}:{sclass}:{who}:{}:{other}:{outcome}", if frozen { "frozen" } else { "live" }));
            follow(tr, &ans, at);
        }
        70 => {
            let ans = ses.step(sut, &format!("freeze at={at} sender={sender}"));
            ses.mark(format!("freeze:{who}:{}", &ans[..2]));
            follow(tr, &ans, at);
        }
        71..=79 => {
            let time = if rng.chance(1, 4) { "-".to_string() } else { (at + rng.below(DAY)).to_string() };
            let s = if rng.chance(2, 3) { STUB_ID } else { sender };
            let ans = ses.step(sut, &format!("stt at={at} sender={s} time={time}"));
            ses.mark(format!("stt:{}:{}", if s == STUB_ID { "minter" } else { "other" }, &ans[..2]));
            follow(tr, &ans, at);
        }
        80..=91 => {
            let kind = *rng.pick(&[0u64, 0, 0, 1, 2, 3, 4, 5, 6, 7, 8, 9, 10, 12]);
            let s = if kind == 0 && rng.chance(3, 4) { STUB_ID } else { 10 + rng.below(4) };
            let ans = ses.step(sut, &format!("other at={at} sender={s} kind={kind} tok={}", rng.below(6)));
            ses.mark(format!("other:{kind}:{}", &ans[..2]));
            follow(tr, &ans, at);
        }
        _ => {
            let pay = rng.sized_u128(70);
            let fee = pay / 50;
            let finders = if rng.chance(1, 2) { "-".to_string() } else { (pay / 100).to_string() };
            let ans = ses.step(sut, &format!("cpay at={at} pay={pay} fee={fee} finders={finders}"));
            ses.mark(format!("cpay:{}:{}", old.map_or("none", |s| if s == 0 { "zero" } else { "some" }), &ans[..2]));
            tr.now = at;
        }
    }
}

fn main() {
    let mut ses = Session::new("C10");
    let mut sut = S::new();
    if ses.maybe_replay(&mut sut) {
        ses.finish(&mut sut);
    }
    let mut rng = ses.rng.fork();
    let t0: u64 = 1_647_032_400_000_000_000;

    // ---- 1. boundary grid: initial share × new share (relative + absolute bounds ± 1) × time (24 h ± 1 ns)
    let initials: Vec<Option<u128>> = vec![None, Some(0), Some(1), Some(5 * PCT), Some(8 * PCT), Some(8 * PCT + 1), Some(10 * PCT - 1), Some(10 * PCT), Some(10 * PCT + 1), Some(50 * PCT), Some(ONE)];
    let mut grid_cases = 0u64;
    for init in &initials {
        let mut news: Vec<u128> = vec![0, 1, 2 * PCT - 1, 2 * PCT, 2 * PCT + 1, 10 * PCT - 1, 10 * PCT, 10 * PCT + 1, ONE - 1, ONE, ONE + 1];
        if let Some(o) = init {
            for d in [0i128, 1, -1, (2 * PCT) as i128 - 1, (2 * PCT) as i128, (2 * PCT) as i128 + 1] {
                let v = *o as i128 + d;
                if v >= 0 {
                    news.push(v as u128);
                }
            }
        }
        news.sort();
        news.dedup();
        for n in &news {
            for (dt, tname) in [(DAY - 1, "edge-1"), (DAY, "edge"), (DAY + 1, "edge+1")] {
                ses.begin_case(&mut sut, &format!("case grid init={} new={n} dt={tname}", fmt_opt(init)));
                let roy0 = init.map_or("-".to_string(), |s| format!("11:{s}"));
                ses.step(&mut sut, &format!("inst at={t0} via=1 funds=0 minter={STUB_ID} creator=10 desc=3 image=2 link=- explicit=- stt=- roy={roy0}"));
                let ans = ses.step(&mut sut, &UpdSpec::plain(t0 + dt, 10, format!("12:{n}")).line());
                ses.mark(format!("grid:{}:{tname}:{}", share_class(*init, *n), &ans[..2]));
                // second attempt exactly 24 h after whatever the anchor is now: same share again, then a lowering
                let anchor = Obs::parse(&ans).map(|o| o.upd).unwrap_or(t0);
                let ans2 = ses.step(&mut sut, &UpdSpec::plain(anchor + DAY - 1, 10, format!("12:{n}")).line());
                let ans3 = ses.step(&mut sut, &UpdSpec::plain(anchor + DAY, 10, format!("11:{}", n / 2)).line());
                ses.mark(format!("grid2:{}:{}", &ans2[..2], &ans3[..2]));
                ses.step(&mut sut, &format!("cpay at={} pay=1000000007 fee=20000000 finders=-", anchor + DAY));
                ses.end_case();
                grid_cases += 1;
            }
        }
    }
    ses.note(format!("grid: {grid_cases} cases = initial share {{none,0,1,5%,8%,8%+1,10%-1,10%,10%+1,50%,100%}} x new share {{0,1,2%±1,10%±1,100%±1,old,old±1,old+2%±1}} x first update at creation+24h {{-1ns,0,+1ns}}"));

    // ---- 2. climbs: repeated maximal raises, each exactly at the 24 h edge (can small raises pass 10 %?)
    for (i, start) in [0u128, 1, PCT / 2, 3 * PCT, 4 * PCT + 1, 9 * PCT].iter().enumerate() {
        ses.begin_case(&mut sut, &format!("case climb start={start}"));
        let mut at = t0 + i as u64;
        ses.step(&mut sut, &format!("inst at={at} via=1 funds=0 minter={STUB_ID} creator=10 desc=3 image=2 link=4 explicit=1 stt=- roy=11:{start}"));
        let mut cur = *start;
        for stepn in 0..9 {
            at += DAY;
            // try an over-sized raise first (must fail), then the maximal legal one, then one more in the same instant
            let a1 = ses.step(&mut sut, &UpdSpec::plain(at, 10, format!("11:{}", cur + 2 * PCT + 1)).line());
            let target = (cur + 2 * PCT).min(if cur < 10 * PCT { 10 * PCT } else { cur });
            let a2 = ses.step(&mut sut, &UpdSpec::plain(at, 10, format!("11:{target}")).line());
            let a3 = ses.step(&mut sut, &UpdSpec::plain(at, 10, format!("11:{}", target + 1)).line());
            if let Some(o) = Obs::parse(&a2) {
                cur = o.roy.map(|r| r.1).unwrap_or(cur);
            }
            ses.mark(format!("climb:{stepn}:{}:{}:{}:{}", &a1[..2], &a2[..2], &a3[..2], if cur >= 10 * PCT { "at-cap" } else { "below-cap" }));
        }
        // at the cap: +1 atomic must fail, lowering must pass
        at += DAY;
        ses.step(&mut sut, &UpdSpec::plain(at, 10, format!("11:{}", cur + 1)).line());
        ses.step(&mut sut, &UpdSpec::plain(at, 10, format!("11:{}", cur - 1)).line());
        ses.end_case();
    }

    // ---- 3. random lifetimes
    let n_life = ses.scale(1_500, 40_000);
    for k in 0..n_life {
        ses.begin_case(&mut sut, &format!("case life k={k}"));
        let mut tr = Track { obs: None, now: t0 + rng.below(1000 * DAY) };
        // possibly a few failing instantiates first (single-fault mutations), then a valid one
        let mut tries = 0;
        loop {
            let valid = tries >= 2 || rng.chance(4, 5);
            let line = gen_inst(&mut rng, tr.now, valid);
            let ans = ses.step(&mut sut, &line);
            ses.mark(format!("inst:{}:{}", if valid { "valid" } else { "fault" }, &ans[..2]));
            if !valid {
                ses.count(&format!("inst-fault:{}", &ans[..2]));
            }
            let now = tr.now;
            follow(&mut tr, &ans, now);
            tries += 1;
            if tr.obs.is_some() || tries > 4 {
                break;
            }
            if rng.chance(1, 3) {
                // ops against a collection that does not exist
                ses.step(&mut sut, &UpdSpec::plain(tr.now + DAY, 10, "11:5".into()).line());
            }
        }
        let n_ops = rng.range(8, 40);
        for _ in 0..n_ops {
            random_op(&mut ses, &mut sut, &mut rng, &mut tr);
        }
        if rng.chance(1, 6) {
            // a second instantiate in the same case is refused by protocol convention (one collection per case)
            let line = gen_inst(&mut rng, tr.now, true);
            ses.step(&mut sut, &line);
        }
        ses.end_case();
    }

    // ---- 4. the payout helper, pure: dense grids + boundaries
    ses.begin_case(&mut sut, "case payout-dense");
    let dense = ses.scale(20_000, 400_000) as u128;
    let shares: [u128; 14] = [0, 1, PCT / 7, 2 * PCT - 1, 2 * PCT, 2 * PCT + 1, 5 * PCT, 10 * PCT - 1, 10 * PCT, 10 * PCT + 1, 333_333_333_333_333_333, ONE - 1, ONE, ONE + 1];
    for pay in 0..dense {
        let share = shares[(pay % 14) as usize];
        let royalty = (Uint256::from(pay) * Uint256::from(share) / Uint256::from(ONE)).to_string().parse::<u128>().unwrap_or(u128::MAX);
        let room = pay.saturating_sub(royalty);
        for (fee, finders) in [(0u128, None), (room, None), (room + 1, None), (room / 2, Some(room - room / 2)), (room / 2, Some(room - room / 2 + 1)), (room.saturating_sub(1), Some(0u128))] {
            ses.step(&mut sut, &format!("payout roy=11:{share} pay={pay} fee={fee} finders={}", fmt_opt(&finders)));
        }
        if pay % 50 == 0 {
            ses.step(&mut sut, &format!("payout roy=- pay={pay} fee={} finders=-", pay + 5));
        }
        ses.mark(format!("payout-dense:{}", pay % 14));
    }
    ses.end_case();

    ses.begin_case(&mut sut, "case payout-boundaries-and-random");
    let mut amounts: Vec<u128> = vec![];
    for k in 0..128u32 {
        let p = 1u128 << k;
        amounts.extend([p - 1, p, p.saturating_add(1)]);
    }
    let mut t: u128 = 1;
    for _ in 0..38 {
        amounts.extend([t - 1, t, t + 1]);
        t = t.saturating_mul(10);
    }
    amounts.extend([u128::MAX, u128::MAX - 1]);
    let n_rand = ses.scale(100_000, 3_000_000);
    for _ in 0..n_rand {
        amounts.push(rng.sized_u128(128));
    }
    for pay in amounts {
        let share = match rng.below(10) {
            0 => 0,
            1 => *rng.pick(&shares),
            2 => rng.sized_u128(128),
            3 => ONE + rng.below(1000) as u128,
            _ => rng.below(ONE as u64 + 1) as u128,
        };
        let roy = if rng.chance(1, 15) { "-".to_string() } else { format!("{}:{share}", 10 + rng.below(4)) };
        let royalty = (Uint256::from(pay) * Uint256::from(share) / Uint256::from(ONE)).to_string().parse::<u128>().unwrap_or(u128::MAX);
        let room = pay.saturating_sub(royalty);
        let rel = rng.below(8);
        let total: u128 = match rel {
            0 => room,
            1 => room.saturating_add(1),
            2 => room.saturating_sub(1),
            3 => 0,
            4 => rng.sized_u128(128), // may overflow u128 inside the helper (a panic = refused)
            5 => pay,
            _ => (room as f64 * (rng.below(1000) as f64 / 1000.0)) as u128,
        };
        let (fee, finders): (u128, Option<u128>) = match rng.below(3) {
            0 => (total, None),
            1 => (total / 3, Some(total - total / 3)),
            _ => (total, Some(if rel == 4 { rng.sized_u128(128) } else { 0 })),
        };
        let ans = ses.step(&mut sut, &format!("payout roy={roy} pay={pay} fee={fee} finders={}", fmt_opt(&finders)));
        ses.mark(format!("payout:bits{}:rel{rel}:{}:{}", (128 - pay.leading_zeros()) / 8, if roy == "-" { "none" } else if share == 0 { "zero" } else if share > ONE { ">100" } else { "some" }, &ans[..2]));
    }
    ses.end_case();

    ses.note("times: first/next royalty update at anchor+24h {-1ns,0,+1ns}, sub-second offsets, same instant, backwards clock, far future; all < 2^62 ns");
    ses.note("shares: Decimal atomics incl. 0, 1, 2%±1, 10%±1, 100%±1, old, old±1, old+2%±1, uniformly random bit-length up to u128::MAX");
    ses.note("payout: every payment below the dense bound x 14 shares x 6 fee splits around payment-royalty {-1,0,+1}; 2^k±1, 10^k±1, u128::MAX; random 128-bit incl. fee sums that overflow u128");
    ses.finish(&mut sut);
}
