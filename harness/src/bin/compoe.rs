//! compoe — differential correspondence of the COMPOSITE model `LP.OE` (lean/LaunchpadModel/Model/OpenEditionFull.lean,
//! driver `drv_compoe`) against the REAL open-edition-factory + the three open-edition minter crates (open-edition-minter,
//! -wl-flex, -merkle-wl) + sg721 collections + the seven whitelist contracts under cw-multi-test. Protocol:
//! docs/COMPOSITE_OPEN_EDITION.md §3 (differences from docs/COMPOSITE_VENDING.md §3) and Driver/CompOe.lean. Every answer
//! carries the complete observable state (`F … M … C … B …`), also on `err`. No monitors: all output is primary.
use lp_harness::minters::*;
use lp_harness::world::{denom, denom_id};
use lp_harness::*;
use serde_json::{json, Value};
use std::collections::BTreeMap;
use std::sync::OnceLock;

const ADMIN: u64 = 10;
const WLADMIN: u64 = 11;
const PAYEE: u64 = 12;
/// the developer who receives half of every mint fee (`params.extension.dev_fee_address`)
const DEV: u64 = 13;
const BUYERS: [u64; 4] = [20, 21, 22, 23];
const STRANGER: u64 = 30;
const ACCTS: [u64; 13] = [1, 2, 3, 4, 10, 11, 12, 13, 20, 21, 22, 23, 30];
const SEC: u64 = 1_000_000_000;
/// a `dev_fee_address` / whitelist string that `addr_validate` rejects (upper case, too short)
const BAD_ADDR: &str = "X";

// ------------------------------------------------------------------------------------------------ names (cached)

fn sg1() -> &'static (String, String, String) {
    static C: OnceLock<(String, String, String)> = OnceLock::new();
    C.get_or_init(lp_harness::world::sg1_addrs)
}
fn ad(id: u64) -> String {
    match id {
        1 => sg1().0.clone(),
        2 => sg1().1.clone(),
        3 => sg1().2.clone(),
        4 => "fairburn_pool".to_string(),
        n if n >= 1000 => format!("contract{}", n - 1000),
        n => format!("acct{:05}", n),
    }
}
fn aid(s: &str) -> u64 {
    let (f, l, q) = sg1();
    if s == f {
        return 1;
    }
    if s == l {
        return 2;
    }
    if s == q {
        return 3;
    }
    if s == "fairburn_pool" {
        return 4;
    }
    if let Some(k) = s.strip_prefix("contract") {
        if let Ok(k) = k.parse::<u64>() {
            return 1000 + k;
        }
    }
    if let Some(k) = s.strip_prefix("acct") {
        if let Ok(k) = k.parse::<u64>() {
            return k;
        }
    }
    900_000_000
}

// ------------------------------------------------------------------------------------------------ merkle trees (as c04)

type LeafT = (Option<u64>, u64, Option<u64>);

fn hash(tiered: bool, data: &[u8]) -> Vec<u8> {
    if tiered {
        blake3::hash(data).as_bytes()[..16].to_vec()
    } else {
        use sha2::Digest;
        sha2::Sha256::digest(data).to_vec()
    }
}
fn leaf_string(l: &LeafT) -> String {
    format!("{}{}{}", l.0.map(|s| s.to_string()).unwrap_or_default(), ad(l.1), l.2.map(|s| s.to_string()).unwrap_or_default())
}
#[derive(Clone, Debug, Default)]
struct Tree {
    layers: Vec<Vec<Vec<u8>>>,
}
impl Tree {
    fn build(tiered: bool, leaves: &[LeafT]) -> Tree {
        let mut layers = vec![leaves.iter().map(|l| hash(tiered, leaf_string(l).as_bytes())).collect::<Vec<_>>()];
        while layers.last().unwrap().len() > 1 {
            let cur = layers.last().unwrap();
            let mut next = vec![];
            for ch in cur.chunks(2) {
                if ch.len() == 2 {
                    let mut pair = [ch[0].clone(), ch[1].clone()];
                    pair.sort();
                    next.push(hash(tiered, &pair.concat()));
                } else {
                    next.push(ch[0].clone());
                }
            }
            layers.push(next);
        }
        Tree { layers }
    }
    fn root_hex(&self, tiered: bool) -> String {
        match self.layers.last().and_then(|l| l.first()) {
            Some(r) => hex::encode(r),
            None => hex::encode(hash(tiered, b"empty-tree")),
        }
    }
    fn proof(&self, mut idx: usize) -> Vec<String> {
        let mut out = vec![];
        for layer in &self.layers[..self.layers.len().saturating_sub(1)] {
            let sib = idx ^ 1;
            if sib < layer.len() {
                out.push(hex::encode(&layer[sib]));
            }
            idx /= 2;
        }
        out
    }
}

// ------------------------------------------------------------------------------------------------ whitelist bookkeeping

#[derive(Clone, Debug, Default)]
struct StageInfo {
    start: u64,
    end: u64,
    price: u128,
    per_addr: u64,
    cnt_limit: Option<u64>,
    members: Vec<(u64, u64)>,
    leaves: Vec<LeafT>,
}
#[derive(Clone, Debug)]
struct WlRec {
    addr: String,
    kind: WlKind,
    denom: u64,
    stages: Vec<StageInfo>,
    trees: Vec<Tree>,
}
fn wl_kind_idx(k: WlKind) -> usize {
    ALL_WL.iter().position(|x| *x == k).unwrap()
}
fn is_tiered(k: WlKind) -> bool {
    matches!(k, WlKind::Tiered | WlKind::TieredFlex | WlKind::TieredMerkle)
}
fn is_merkle(k: WlKind) -> bool {
    matches!(k, WlKind::Merkle | WlKind::TieredMerkle)
}
fn is_flex(k: WlKind) -> bool {
    matches!(k, WlKind::Flex | WlKind::TieredFlex)
}
fn ox<T: std::fmt::Display>(x: &Option<T>) -> String {
    match x {
        Some(v) => v.to_string(),
        None => "x".into(),
    }
}
fn parse_ox(s: &str) -> Option<u64> {
    if s == "x" || s == "-" {
        None
    } else {
        s.parse().ok()
    }
}
impl WlRec {
    /// generator-side notion of the stage in force (only used to choose plausible buyers / proofs)
    fn active_stage(&self, now: u64) -> Option<usize> {
        if self.kind == WlKind::Immutable {
            return None;
        }
        if is_tiered(self.kind) {
            self.stages.iter().position(|s| s.start <= now && now <= s.end)
        } else {
            self.stages.first().and_then(|s| if s.start <= now && now < s.end { Some(0) } else { None })
        }
    }
}
/// `wl kind= denom= st=<start:end:price:per:cl;…> mem=<a:c,…;…> lv=<stage|x:who:alloc|x,…;…>`
fn parse_wl_line(line: &str) -> Option<(WlKind, u64, Vec<StageInfo>)> {
    let kind = *ALL_WL.get(kv_u64(line, "kind")? as usize)?;
    let denom = kv_u64(line, "denom")?;
    let groups = |key: &str| -> Vec<String> {
        match kv(line, key) {
            None | Some("-") | Some("") => vec![],
            Some(v) => v.split(';').map(String::from).collect(),
        }
    };
    let mut stages = vec![];
    let mems = groups("mem");
    let lvs = groups("lv");
    for (i, g) in groups("st").iter().enumerate() {
        let p: Vec<&str> = g.split(':').collect();
        if p.len() != 5 {
            return None;
        }
        let members: Vec<(u64, u64)> = match mems.get(i).map(|s| s.as_str()) {
            None | Some("-") | Some("") => vec![],
            Some(m) => m.split(',').filter_map(|x| x.split_once(':')).filter_map(|(a, b)| Some((a.parse().ok()?, b.parse().ok()?))).collect(),
        };
        let leaves: Vec<LeafT> = match lvs.get(i).map(|s| s.as_str()) {
            None | Some("-") | Some("") => vec![],
            Some(m) => m
                .split(',')
                .filter_map(|x| {
                    let q: Vec<&str> = x.split(':').collect();
                    if q.len() != 3 {
                        return None;
                    }
                    Some((parse_ox(q[0]), q[1].parse().ok()?, parse_ox(q[2])))
                })
                .collect(),
        };
        stages.push(StageInfo { start: p[0].parse().ok()?, end: p[1].parse().ok()?, price: p[2].parse().ok()?, per_addr: p[3].parse().ok()?, cnt_limit: parse_ox(p[4]), members, leaves });
    }
    Some((kind, denom, stages))
}

/// what a whitelist contract answers to the sender-independent queries of a minter (the `W=` witness)
#[derive(Clone, Debug, PartialEq, Default)]
struct WInfo {
    kind: usize,
    active: bool,
    pd: u64,
    pa: u128,
    limit: u64,
    mcfg: bool,
    sid: u64,
    slim: Option<u64>,
}
impl WInfo {
    fn render(&self, k: u64) -> String {
        format!("{k}:{}:{}:{}:{}:{}:{}:{}:{}", self.kind, self.active as u8, self.pd, self.pa, self.limit, self.mcfg as u8, self.sid, ox(&self.slim))
    }
}

// ------------------------------------------------------------------------------------------------ the system under test

fn nanos(v: &Value) -> Option<u64> {
    v.as_str().and_then(|s| s.parse().ok())
}
fn coin_of(v: &Value) -> (u64, u128) {
    (denom_id(v["denom"].as_str().unwrap_or("?")), v["amount"].as_str().and_then(|x| x.parse().ok()).unwrap_or(0))
}
fn rc(c: (u64, u128)) -> String {
    format!("{}:{}", c.0, c.1)
}
fn roc(v: &Value) -> String {
    if v.is_null() {
        "-".into()
    } else {
        rc(coin_of(v))
    }
}
fn funds_of(line: &str) -> Vec<(u64, u128)> {
    kv_pairs(line, "funds").unwrap_or_default().into_iter().map(|(d, a)| (d as u64, a)).collect()
}
fn coin_kv(line: &str, key: &str) -> Option<(u64, u128)> {
    let v = kv_pairs(line, key)?;
    if v.len() == 1 {
        Some((v[0].0 as u64, v[0].1))
    } else {
        None
    }
}

#[derive(Clone, Debug)]
struct MinterRec {
    addr: String,
    coll: String,
    /// index into the case's minter code table (0..5) of the code the factory instantiated
    v: usize,
    /// index into the collection code table
    ck: usize,
}

/// parsed copy of the last observation (used by the generators; never by the comparison)
#[derive(Clone, Debug, Default)]
struct Last {
    now: u64,
    // factory
    f_code: u64,
    f_allowed: Vec<u64>,
    f_frozen: bool,
    cfee: (u64, u128),
    minp: (u64, u128),
    feebps: u64,
    offset: u64,
    maxtok: u64,
    maxper: u64,
    airp: (u64, u128),
    airbps: u64,
    dev: Option<u64>,
    // minter
    exists: bool,
    v: usize,
    ck: usize,
    maddr: u64,
    caddr: u64,
    admin: u64,
    ntok: Option<u64>,
    limit: u64,
    start: u64,
    end: Option<u64>,
    price: (u64, u128),
    wl: Option<u64>,
    oc: bool,
    left: Option<u64>,
    cur: Option<(u64, u128)>,
    idx: u64,
    total: u64,
    /// MINTER_ADDRS
    ma: Vec<(u64, u64)>,
    toks: Vec<(u64, u64)>,
    trading: Option<u64>,
    owner: Option<u64>,
    pending: Option<u64>,
    creator: u64,
}

struct S {
    w: World,
    accts: Vec<u64>,
    probe: Vec<u64>,
    mcodes: Vec<u64>,
    ccodes: Vec<u64>,
    factory: String,
    minter: Option<MinterRec>,
    n_contracts: u64,
    wls: BTreeMap<u64, WlRec>,
    wsent: BTreeMap<u64, WInfo>,
    wcur: BTreeMap<u64, WInfo>,
    last: Last,
    trace: bool,
}

fn instantiated(res: &cw_multi_test::AppResponse) -> Vec<String> {
    res.events
        .iter()
        .filter(|e| e.ty == "instantiate")
        .filter_map(|e| e.attributes.iter().find(|at| at.key == "_contract_address" || at.key == "_contract_addr").map(|at| at.value.clone()))
        .collect()
}

impl S {
    fn new() -> S {
        S {
            w: World::new(GENESIS),
            accts: vec![],
            probe: vec![],
            mcodes: vec![],
            ccodes: vec![],
            factory: String::new(),
            minter: None,
            n_contracts: 0,
            wls: BTreeMap::new(),
            wsent: BTreeMap::new(),
            wcur: BTreeMap::new(),
            last: Last::default(),
            trace: std::env::var("COMPOE_TRACE").is_ok(),
        }
    }

    // ---------------------------------------------------------------- whitelist interface (W=)
    fn read_wl(&self, a: &str, kind: WlKind) -> WInfo {
        let mut i = WInfo { kind: wl_kind_idx(kind), ..Default::default() };
        if kind == WlKind::Immutable {
            return i; // `{config: …}`: none of the fields a minter reads is there
        }
        let c = self.w.query(a, &json!({"config":{}})).unwrap_or(Value::Null);
        i.active = c["is_active"].as_bool().unwrap_or(false);
        if !c["mint_price"].is_null() {
            let p = coin_of(&c["mint_price"]);
            i.pd = p.0;
            i.pa = p.1;
        }
        i.limit = c["per_address_limit"].as_u64().unwrap_or(0);
        i.mcfg = c["member_limit"].as_u64() == Some(0) && c["num_members"].as_u64() == Some(0);
        i.sid = self.w.query(a, &json!({"active_stage_id":{}})).ok().and_then(|r| r.as_u64()).unwrap_or(0);
        if i.sid >= 1 {
            i.slim = self.w.query(a, &json!({"stage":{"stage_id": i.sid - 1}})).ok().and_then(|r| r["stage"]["mint_count_limit"].as_u64());
        }
        i
    }
    /// re-read every whitelist; returns the ` W=…` suffix with the entries that changed since the last line sent
    fn refresh_w(&mut self) -> String {
        let mut ch = vec![];
        let keys: Vec<(u64, String, WlKind)> = self.wls.iter().map(|(k, r)| (*k, r.addr.clone(), r.kind)).collect();
        for (k, a, kind) in keys {
            let i = self.read_wl(&a, kind);
            if self.wsent.get(&k) != Some(&i) {
                ch.push(i.render(k));
                self.wsent.insert(k, i.clone());
            }
            self.wcur.insert(k, i);
        }
        if ch.is_empty() {
            String::new()
        } else {
            format!(" W={}", ch.join(";"))
        }
    }

    /// refresh our description of a whitelist from what the real contract reports (leaves: our own ground truth)
    fn observe(&mut self, k: u64) {
        let Some(mut info) = self.wls.get(&k).cloned() else { return };
        let a = info.addr.clone();
        let members_of = |m: &Value| -> Vec<(u64, u64)> {
            m["members"]
                .as_array()
                .map(|arr| {
                    arr.iter()
                        .map(|x| match x.as_str() {
                            Some(s) => (aid(s), 0),
                            None => (aid(x["address"].as_str().unwrap_or("")), x["mint_count"].as_u64().unwrap_or(0)),
                        })
                        .collect()
                })
                .unwrap_or_default()
        };
        match info.kind {
            WlKind::Immutable => {}
            WlKind::Plain | WlKind::Flex | WlKind::Merkle => {
                let Ok(c) = self.w.query(&a, &json!({"config":{}})) else { return };
                let (d, p) = coin_of(&c["mint_price"]);
                info.denom = d;
                if info.stages.is_empty() {
                    info.stages.push(StageInfo::default());
                }
                let st = &mut info.stages[0];
                st.start = nanos(&c["start_time"]).unwrap_or(0);
                st.end = nanos(&c["end_time"]).unwrap_or(0);
                st.price = p;
                st.per_addr = c["per_address_limit"].as_u64().unwrap_or(0);
                if info.kind != WlKind::Merkle {
                    if let Ok(m) = self.w.query(&a, &json!({"members":{"limit":100}})) {
                        st.members = members_of(&m);
                    }
                }
            }
            WlKind::Tiered | WlKind::TieredFlex | WlKind::TieredMerkle => {
                let Ok(r) = self.w.query(&a, &json!({"stages":{}})) else { return };
                let arr = r["stages"].as_array().cloned().unwrap_or_default();
                let old = info.stages.clone();
                info.stages.clear();
                for (i, s) in arr.iter().enumerate() {
                    let sg = if s["stage"].is_null() { s } else { &s["stage"] };
                    let (d, p) = coin_of(&sg["mint_price"]);
                    info.denom = d;
                    let mut st = StageInfo {
                        start: nanos(&sg["start_time"]).unwrap_or(0),
                        end: nanos(&sg["end_time"]).unwrap_or(0),
                        price: p,
                        per_addr: sg["per_address_limit"].as_u64().unwrap_or(0),
                        cnt_limit: sg["mint_count_limit"].as_u64(),
                        members: vec![],
                        leaves: old.get(i).map(|o| o.leaves.clone()).unwrap_or_default(),
                    };
                    if info.kind != WlKind::TieredMerkle {
                        if let Ok(m) = self.w.query(&a, &json!({"members":{"limit":100, "stage_id": i}})) {
                            st.members = members_of(&m);
                        }
                    }
                    info.stages.push(st);
                }
            }
        }
        self.wls.insert(k, info);
    }

    fn create_wl(&mut self, line: &str) -> bool {
        let Some((kind, denom, stages)) = parse_wl_line(line) else { return false };
        let tiered = is_tiered(kind);
        let trees: Vec<Tree> = stages.iter().map(|s| Tree::build(tiered, &s.leaves)).collect();
        let args = WlArgs {
            admin: WLADMIN,
            member_limit: 1000,
            admins_mutable: true,
            whale_cap: None,
            stages: stages
                .iter()
                .zip(trees.iter())
                .map(|(s, t)| WlStage {
                    start: s.start,
                    end: s.end,
                    mint_price: (denom, s.price),
                    per_address_limit: s.per_addr as u32,
                    mint_count_limit: s.cnt_limit.map(|x| x as u32),
                    members: s.members.iter().map(|(a, c)| (*a, *c as u32)).collect(),
                    merkle_root: t.root_hex(tiered),
                })
                .collect(),
        };
        let args = if args.stages.is_empty() {
            WlArgs { stages: vec![WlStage { start: 0, end: 0, mint_price: (0, 0), per_address_limit: 1, mint_count_limit: None, members: vec![(20, 1)], merkle_root: String::new() }], ..args }
        } else {
            args
        };
        match self.w.new_whitelist(kind, &args) {
            Ok(a) => {
                let k = aid(&a);
                self.n_contracts += 1;
                self.wls.insert(k, WlRec { addr: a, kind, denom, stages: if kind == WlKind::Immutable { vec![] } else { stages }, trees });
                self.observe(k);
                true
            }
            Err(e) => {
                if self.trace {
                    eprintln!("TRACE wl failed: {}", e.lines().last().unwrap_or(""));
                }
                false
            }
        }
    }

    fn env_action(&mut self, op: &str, line: &str) {
        if op == "wl" {
            self.create_wl(line);
            return;
        }
        let k = kv_u64(line, "a").unwrap_or(0);
        let Some(info) = self.wls.get(&k).cloned() else { return };
        let stage = kv_u64(line, "stage").unwrap_or(0);
        let msg = match op {
            "wl_time" => {
                let t = kv_u64(line, "t").unwrap_or(0).to_string();
                if kv(line, "which") == Some("start") {
                    json!({"update_start_time": t})
                } else {
                    json!({"update_end_time": t})
                }
            }
            "wl_stage" => json!({"update_stage_config": {"stage_id": stage, "start_time": kv_u64(line, "start").map(|t| t.to_string()),
                "end_time": kv_u64(line, "end").map(|t| t.to_string())}}),
            "wl_add" => {
                let a = ad(kv_u64(line, "m").unwrap_or(0));
                let m = if is_flex(info.kind) { json!({"address": a, "mint_count": kv_u64(line, "c").unwrap_or(1)}) } else { json!(a) };
                if is_tiered(info.kind) {
                    json!({"add_members": {"to_add": [m], "stage_id": stage}})
                } else {
                    json!({"add_members": {"to_add": [m]}})
                }
            }
            _ => {
                let a = ad(kv_u64(line, "m").unwrap_or(0));
                if is_tiered(info.kind) {
                    json!({"remove_members": {"to_remove": [a], "stage_id": stage}})
                } else {
                    json!({"remove_members": {"to_remove": [a]}})
                }
            }
        };
        let r = self.w.exec(&ad(WLADMIN), &info.addr, &msg, &[]);
        if self.trace {
            if let Err(e) = &r {
                eprintln!("TRACE {line} failed: {}", e.lines().last().unwrap_or(""));
            }
        }
        self.observe(k);
    }

    // ---------------------------------------------------------------- observations
    fn obs(&mut self) -> String {
        let mut l = Last { now: self.w.time(), ..Default::default() };
        let w = &self.w;
        // ---- F
        let p = w.query(&self.factory, &json!({"params":{}})).map(|v| v["params"].clone()).unwrap_or(Value::Null);
        let ext = &p["extension"];
        l.f_code = p["code_id"].as_u64().unwrap_or(u64::MAX);
        l.f_allowed = p["allowed_sg721_code_ids"].as_array().map(|a| a.iter().filter_map(|x| x.as_u64()).collect()).unwrap_or_default();
        l.f_frozen = p["frozen"].as_bool().unwrap_or(false);
        l.cfee = coin_of(&p["creation_fee"]);
        l.minp = coin_of(&p["min_mint_price"]);
        l.feebps = p["mint_fee_bps"].as_u64().unwrap_or(u64::MAX);
        l.offset = p["max_trading_offset_secs"].as_u64().unwrap_or(u64::MAX);
        l.maxtok = ext["max_token_limit"].as_u64().unwrap_or(u64::MAX);
        l.maxper = ext["max_per_address_limit"].as_u64().unwrap_or(u64::MAX);
        l.airp = coin_of(&ext["airdrop_mint_price"]);
        l.airbps = ext["airdrop_mint_fee_bps"].as_u64().unwrap_or(u64::MAX);
        // `dev_fee_address` is a free string in the contract: one of our account names, or `x`
        l.dev = ext["dev_fee_address"].as_str().map(aid).filter(|a| *a != 900_000_000);
        let probe: String = self
            .probe
            .iter()
            .map(|c| match w.query(&self.factory, &json!({"allowed_collection_code_id": c})) {
                Ok(v) => {
                    if v["allowed"].as_bool() == Some(true) {
                        "1"
                    } else {
                        "0"
                    }
                }
                Err(_) => "?",
            })
            .collect();
        let f = format!(
            "F code={} allowed={} frozen={} cfee={} minp={} feebps={} offset={} maxtok={} maxper={} airp={} airbps={} dev={} probe={}",
            l.f_code, fmt_list(&l.f_allowed), l.f_frozen as u8, rc(l.cfee), rc(l.minp), l.feebps, l.offset, l.maxtok, l.maxper, rc(l.airp), l.airbps, ox(&l.dev), probe
        );
        // ---- M, C
        let mut extra: Vec<u64> = vec![];
        let (m, c) = match &self.minter {
            None => ("M -".to_string(), "C -".to_string()),
            Some(mi) => {
                l.exists = true;
                l.v = mi.v;
                l.ck = mi.ck;
                l.maddr = aid(&mi.addr);
                let cfg = w.query(&mi.addr, &json!({"config":{}})).unwrap_or(Value::Null);
                let dump = w.dump(&mi.addr);
                let raw_item = |key: &[u8]| -> Option<Vec<u8>> { dump.iter().find(|(k, _)| k.as_slice() == key).map(|(_, v)| v.clone()) };
                let pay = cfg["payment_address"].as_str().map(aid);
                l.admin = cfg["admin"].as_str().map(aid).unwrap_or(u64::MAX);
                l.ntok = cfg["num_tokens"].as_u64();
                l.limit = cfg["per_address_limit"].as_u64().unwrap_or(u64::MAX);
                l.start = nanos(&cfg["start_time"]).unwrap_or(u64::MAX);
                l.end = nanos(&cfg["end_time"]);
                l.price = coin_of(&cfg["mint_price"]);
                l.wl = cfg["whitelist"].as_str().map(aid);
                l.oc = cfg["nft_data"]["nft_data_type"].as_str() == Some("on_chain_metadata");
                let fac = cfg["factory"].as_str().map(aid).unwrap_or(u64::MAX);
                let ccode = cfg["sg721_code_id"].as_u64().unwrap_or(u64::MAX);
                let sg721 = cfg["sg721_address"].as_str().map(aid).unwrap_or(u64::MAX);
                l.caddr = sg721;
                l.left = w.query(&mi.addr, &json!({"mintable_num_tokens":{}})).ok().and_then(|v| v["count"].as_u64());
                let mp = match w.query(&mi.addr, &json!({"mint_price":{}})) {
                    Ok(v) => {
                        l.cur = Some(coin_of(&v["current_price"]));
                        format!("{}/{}/{}/{}", rc(coin_of(&v["public_price"])), rc(coin_of(&v["airdrop_price"])), roc(&v["whitelist_price"]), rc(coin_of(&v["current_price"])))
                    }
                    Err(_) => "err".to_string(),
                };
                let st = match w.query(&mi.addr, &json!({"status":{}})) {
                    Ok(v) => {
                        let s = &v["status"];
                        format!("{}{}{}", s["is_verified"].as_bool().unwrap_or(false) as u8, s["is_blocked"].as_bool().unwrap_or(false) as u8, s["is_explicit"].as_bool().unwrap_or(false) as u8)
                    }
                    Err(_) => "???".into(),
                };
                // raw counter maps
                let names: [&[u8]; 5] = [b"ma", b"wlma", b"wlfsma", b"wlssma", b"wltsma"];
                let mut maps: Vec<Vec<(u64, u64)>> = vec![vec![]; 5];
                for (k, v) in &dump {
                    if k.len() > 2 && k[0] == 0 {
                        let n = k[1] as usize;
                        if k.len() >= 2 + n {
                            if let Some(i) = names.iter().position(|x| *x == &k[2..2 + n]) {
                                let a = String::from_utf8_lossy(&k[2 + n..]).to_string();
                                let val: u64 = std::str::from_utf8(v).ok().and_then(|s| s.trim().parse().ok()).unwrap_or(888_888);
                                if val != 0 {
                                    maps[i].push((aid(&a), val));
                                }
                            }
                        }
                    }
                }
                for mm in maps.iter_mut() {
                    mm.sort();
                }
                l.ma = maps[0].clone();
                let item_n = |key: &[u8]| -> u64 { raw_item(key).and_then(|v| String::from_utf8_lossy(&v).trim().trim_matches('"').parse().ok()).unwrap_or(0) };
                l.idx = item_n(b"token_index");
                l.total = w.query(&mi.addr, &json!({"total_mint_count":{}})).ok().and_then(|v| v["count"].as_u64()).unwrap_or(u64::MAX);
                let cnt: Vec<String> = self
                    .accts
                    .iter()
                    .map(|a| match w.query(&mi.addr, &json!({"mint_count":{"address": ad(*a)}})) {
                        Ok(v) => format!("{}:{}:{}", a, v["count"].as_u64().map(|x| x.to_string()).unwrap_or("?".into()), v["whitelist_count"].as_u64().map(|x| x.to_string()).unwrap_or("-".into())),
                        Err(_) => format!("{a}:?:?"),
                    })
                    .collect();
                let m = format!(
                    "M addr={} admin={} pay={} ntok={} limit={} start={} end={} price={} wl={} fac={} ccode={} sg721={} oc={} left={} mp={} st={} idx={} total={} ma={} wlma={} fs={} ss={} ts={} tot={},{},{} air={} cnt={}",
                    l.maddr, l.admin, fmt_opt(&pay), fmt_opt(&l.ntok), l.limit, l.start, fmt_opt(&l.end), rc(l.price), fmt_opt(&l.wl), fac, ccode, sg721, l.oc as u8, fmt_opt(&l.left), mp, st,
                    l.idx, l.total, fmt_pairs(&maps[0]), fmt_pairs(&maps[1]), fmt_pairs(&maps[2]), fmt_pairs(&maps[3]), fmt_pairs(&maps[4]),
                    item_n(b"wlfsmc"), item_n(b"wlssmc"), item_n(b"wltsmc"), item_n(b"airdrop_count"), cnt.join(",")
                );
                // ---- C
                let coll = &mi.coll;
                let n = w.query(coll, &json!({"num_tokens":{}})).ok().and_then(|v| v["count"].as_u64());
                let mut ids: Vec<String> = vec![];
                let mut after: Option<String> = None;
                loop {
                    let Ok(r) = w.query(coll, &json!({"all_tokens":{"start_after": after, "limit": 100}})) else { break };
                    let page: Vec<String> = r["tokens"].as_array().map(|a| a.iter().filter_map(|x| x.as_str().map(String::from)).collect()).unwrap_or_default();
                    if page.is_empty() {
                        break;
                    }
                    after = page.last().cloned();
                    let short = page.len() < 100;
                    ids.extend(page);
                    if short {
                        break;
                    }
                }
                let mut toks: Vec<(u64, u64)> = ids
                    .iter()
                    .map(|t| {
                        let o = w.query(coll, &json!({"owner_of":{"token_id": t}})).ok().and_then(|v| v["owner"].as_str().map(aid)).unwrap_or(u64::MAX);
                        (t.parse().unwrap_or(u64::MAX), o)
                    })
                    .collect();
                toks.sort();
                let ci = w.query(coll, &json!({"collection_info":{}})).unwrap_or(Value::Null);
                l.trading = nanos(&ci["start_trading_time"]);
                l.creator = ci["creator"].as_str().map(aid).unwrap_or(u64::MAX);
                let own: Value = match w.query(coll, &json!({"ownership":{}})) {
                    Ok(v) => v,
                    Err(_) => w.dump(coll).into_iter().find(|(k, _)| k.as_slice() == b"ownership").and_then(|(_, v)| serde_json::from_slice(&v).ok()).unwrap_or(Value::Null),
                };
                l.owner = own["owner"].as_str().map(aid);
                l.pending = own["pending_owner"].as_str().map(aid);
                let c = format!("C n={} toks={} trading={} creator={} owner={} pending={}", fmt_opt(&n), fmt_pairs(&toks), fmt_opt(&l.trading), l.creator, fmt_opt(&l.owner), fmt_opt(&l.pending));
                l.toks = toks;
                extra = vec![l.maddr, sg721];
                (m, c)
            }
        };
        // ---- B
        let bals = w.all_balances();
        let d0 = denom(0);
        let d1 = denom(1);
        let mut sup = [0u128; 2];
        let mut by: BTreeMap<&str, [u128; 2]> = BTreeMap::new();
        for ((who, dn), amt) in &bals {
            let i = if *dn == d0 {
                0
            } else if *dn == d1 {
                1
            } else {
                continue;
            };
            sup[i] += *amt;
            by.entry(who.as_str()).or_insert([0, 0])[i] += *amt;
        }
        let mut who: Vec<u64> = self.accts.clone();
        who.push(aid(&self.factory));
        who.extend(extra);
        let b: Vec<String> = who
            .iter()
            .map(|a| {
                let x = by.get(ad(*a).as_str()).cloned().unwrap_or([0, 0]);
                format!("{}:{}:{}", a, x[0], x[1])
            })
            .collect();
        self.last = l;
        format!("{f} {m} {c} B {} sup={}:{}", b.join(","), sup[0], sup[1])
    }

    // ---------------------------------------------------------------- ops
    fn proof_hashes(&self, spec: &str) -> (Value, bool) {
        match spec {
            "-" => (Value::Null, false),
            "e" => (json!([]), true),
            "b" => (json!(["zz-not-hex", "1234"]), true),
            "j" => {
                let tiered = self.last.wl.and_then(|k| self.wls.get(&k)).map(|i| is_tiered(i.kind)).unwrap_or(false);
                let n = if tiered { 16 } else { 32 };
                (json!([hex::encode(vec![0xabu8; n]), hex::encode(vec![0x17u8; n])]), true)
            }
            p => {
                // p.<wl addr id>.<stage idx>.<stage|x>.<who>.<alloc|x>
                let q: Vec<&str> = p.split('.').collect();
                if q.len() != 6 {
                    return (json!([]), true);
                }
                let k: u64 = q[1].parse().unwrap_or(0);
                let i: usize = q[2].parse().unwrap_or(0);
                let leaf: LeafT = (parse_ox(q[3]), q[4].parse().unwrap_or(0), parse_ox(q[5]));
                let Some(info) = self.wls.get(&k) else { return (json!([]), true) };
                let Some(st) = info.stages.get(i) else { return (json!([]), true) };
                match st.leaves.iter().position(|l| *l == leaf) {
                    Some(pos) if i < info.trees.len() => (json!(info.trees[i].proof(pos)), true),
                    _ => (json!([hex::encode(vec![1u8; if is_tiered(info.kind) { 16 } else { 32 }])]), true),
                }
            }
        }
    }

    fn dbg(&self, line: &str, r: &Result<cw_multi_test::AppResponse, String>) {
        if self.trace {
            if let Err(e) = r {
                eprintln!("TRACE {line} => {}", e.lines().last().unwrap_or("").rsplit("}: ").next().unwrap_or(""));
            }
        }
    }

    /// executes one family op; returns (witness suffix, ok)
    fn run_op(&mut self, op: &str, line: &str) -> Option<(String, bool)> {
        let sender = kv_u64(line, "sender").unwrap_or(0);
        let funds = funds_of(line);
        let who = ad(sender);
        let mi = self.minter.clone();
        Some(match op {
            "fund" => {
                let a = kv_u64(line, "a")?;
                let d = kv_u64(line, "d")?;
                let amt = kv_u128(line, "amt")?;
                self.w.fund(&ad(a), d, amt);
                (String::new(), true)
            }
            "create" => {
                let maddr = 1000 + self.n_contracts;
                let caddr = maddr + 1;
                let wit = format!(" maddr={maddr} caddr={caddr}");
                if mi.is_some() {
                    return Some((wit, false)); // one minter per case (never generated)
                }
                let code = kv_u64(line, "code")?;
                let creator = kv_u64(line, "creator")?;
                let wl = kv_opt_u64(line, "wl")?;
                let wlvalid = kv_bool(line, "wlvalid").unwrap_or(true);
                let collok = kv_bool(line, "collok").unwrap_or(true);
                let nftok = kv_bool(line, "nftok")?;
                let onchain = kv_bool(line, "onchain")?;
                let uri = kv_bool(line, "uri")?;
                let a = CreateArgs {
                    creator,
                    sg721_code_id: code,
                    num_tokens: kv_opt_u64(line, "ntok")?.map(|n| n as u32),
                    per_address_limit: kv_u64(line, "limit")? as u32,
                    start_time: kv_u64(line, "start")?,
                    end_time: kv_opt_u64(line, "end")?,
                    mint_price: coin_kv(line, "price")?,
                    payment_address: kv_opt_u64(line, "pay")?,
                    whitelist: wl.map(|k| if wlvalid { ad(k) } else { BAD_ADDR.to_string() }),
                    start_trading_time: kv_opt_u64(line, "trading")?,
                    royalty: if collok { None } else { Some((creator, "2.0".to_string())) },
                    mint_tokens: vec![],
                    funds: funds.clone(),
                };
                let mut msg = create_minter_json(MinterKind::OpenEdition, &a);
                let good_uri = "ipfs://bafybeigi3bwpvyvsmnbj46ra4hyffcxdeaj6ntfk5jpic5mx27x6ih2qvq/1.json";
                let meta = json!({"image": if uri { "https://example.com/edition.png" } else { "not a url" }, "image_data": null,
                    "external_url": "https://example.com/", "description": "an edition", "name": "Edition",
                    "attributes": [{"display_type": null, "trait_type": "kind", "value": "open"}], "background_color": null,
                    "animation_url": null, "youtube_url": null});
                // `NftData::valid_nft_data`: exactly the field that belongs to the declared type
                msg["create_minter"]["init_msg"]["nft_data"] = match (onchain, nftok) {
                    (false, true) => json!({"nft_data_type": "off_chain_metadata", "extension": null, "token_uri": if uri { good_uri } else { "not a url" }}),
                    (true, true) => json!({"nft_data_type": "on_chain_metadata", "extension": meta, "token_uri": null}),
                    // off-chain without a token_uri
                    (false, false) => json!({"nft_data_type": "off_chain_metadata", "extension": null, "token_uri": null}),
                    // both set
                    (true, false) => json!({"nft_data_type": "on_chain_metadata", "extension": meta, "token_uri": good_uri}),
                };
                let fcode = self.w.query(&self.factory, &json!({"params":{}})).ok().and_then(|v| v["params"]["code_id"].as_u64()).unwrap_or(0);
                let r = self.w.exec(&who, &self.factory.clone(), &msg, &funds);
                self.dbg(line, &r);
                match r {
                    Ok(res) => {
                        let addrs = instantiated(&res);
                        if addrs.len() != 2 || aid(&addrs[0]) != maddr || aid(&addrs[1]) != caddr {
                            return Some((format!(" maddr={maddr} caddr={caddr} MISPREDICTED={:?}", addrs), true));
                        }
                        self.n_contracts += 2;
                        let v = self.mcodes.iter().position(|c| *c == fcode).unwrap_or(99);
                        let ck = self.ccodes.iter().position(|c| *c == code).unwrap_or(99);
                        self.minter = Some(MinterRec { addr: addrs[0].clone(), coll: addrs[1].clone(), v, ck });
                        (wit, true)
                    }
                    Err(_) => (wit, false),
                }
            }
            "inst_direct" => {
                let v = kv_u64(line, "v").unwrap_or(0) as usize % 3;
                let p = self.w.default_params(MinterKind::OpenEdition);
                let mut a = self.w.default_create(MinterKind::OpenEdition, &p);
                a.creator = sender;
                let msg = create_minter_json(MinterKind::OpenEdition, &a)["create_minter"].clone();
                let code = self.mcodes[v];
                let r = self.w.instantiate(code, &who, &msg, &[], None);
                if r.is_ok() {
                    self.n_contracts += 2;
                }
                (String::new(), r.is_ok())
            }
            "sudo_params" => {
                let c = |key: &str| -> Value {
                    match coin_kv(line, key) {
                        Some(x) => jcoin(x),
                        None => Value::Null,
                    }
                };
                let l = |key: &str| -> Value {
                    match kv_list(line, key) {
                        Some(x) => json!(x.iter().map(|y| *y as u64).collect::<Vec<u64>>()),
                        None => Value::Null,
                    }
                };
                let dev = match kv(line, "dev") {
                    None => Value::Null,
                    Some("x") => json!(BAD_ADDR),
                    Some(a) => json!(ad(a.parse().ok()?)),
                };
                let msg = json!({"update_params": {
                    "code_id": kv_u64(line, "code"), "add_sg721_code_ids": l("addc"), "rm_sg721_code_ids": l("rmc"),
                    "frozen": kv_bool(line, "frozen"), "creation_fee": c("cfee"), "min_mint_price": c("minp"),
                    "mint_fee_bps": kv_u64(line, "feebps"), "max_trading_offset_secs": kv_u64(line, "offset"),
                    "extension": {"max_token_limit": kv_u64(line, "maxtok"), "max_per_address_limit": kv_u64(line, "maxper"),
                        "min_mint_price": c("xminp"), "airdrop_mint_price": c("airp"), "airdrop_mint_fee_bps": kv_u64(line, "airbps"),
                        "dev_fee_address": dev}}});
                let r = self.w.sudo(&self.factory.clone(), &msg);
                self.dbg(line, &r);
                (String::new(), r.is_ok())
            }
            "mint" => {
                let stage = kv_opt_u64(line, "stage").unwrap_or(None);
                let alloc = kv_opt_u64(line, "alloc").unwrap_or(None);
                let spec = kv(line, "proof").unwrap_or("-").to_string();
                let (ph, presented) = self.proof_hashes(&spec);
                // the sender-dependent whitelist answers, read BEFORE the op
                let (mut mem, mut leaf, mut mcnt) = (false, false, 0u64);
                if let Some(mi) = &mi {
                    let cfg = self.w.query(&mi.addr, &json!({"config":{}})).unwrap_or(Value::Null);
                    if let Some(wa) = cfg["whitelist"].as_str() {
                        mem = self.w.query(wa, &json!({"has_member":{"member": who}})).ok().and_then(|r| r["has_member"].as_bool()).unwrap_or(false);
                        if presented {
                            let ls = leaf_string(&(stage, sender, alloc));
                            leaf = self.w.query(wa, &json!({"has_member":{"member": ls, "proof_hashes": ph}})).ok().and_then(|r| r["has_member"].as_bool()).unwrap_or(false);
                        }
                        mcnt = self.w.query(wa, &json!({"member":{"member": who}})).ok().and_then(|r| r["mint_count"].as_u64()).unwrap_or(0);
                    }
                }
                let sv = format!(" mem={} leaf={} mcnt={}", mem as u8, leaf as u8, mcnt);
                let Some(mi) = mi else { return Some((sv, false)) };
                let msg = if mi.v == 2 {
                    json!({"mint": {"stage": stage, "proof_hashes": ph, "allocation": alloc}})
                } else {
                    let mut o = serde_json::Map::new();
                    if let Some(s) = stage {
                        o.insert("stage".into(), json!(s));
                    }
                    if presented {
                        o.insert("proof_hashes".into(), ph.clone());
                    }
                    if let Some(a) = alloc {
                        o.insert("allocation".into(), json!(a));
                    }
                    json!({"mint": Value::Object(o)})
                };
                let r = self.w.exec(&who, &mi.addr, &msg, &funds);
                self.dbg(line, &r);
                (sv, r.is_ok())
            }
            "mint_to" => {
                let Some(mi) = mi else { return Some((String::new(), false)) };
                let rcpt = kv_u64(line, "rcpt")?;
                let r = self.w.exec(&who, &mi.addr, &json!({"mint_to": {"recipient": ad(rcpt)}}), &funds);
                self.dbg(line, &r);
                (String::new(), r.is_ok())
            }
            "sudo_status" => {
                let Some(mi) = mi else { return Some((String::new(), false)) };
                let r = self.w.sudo(&mi.addr, &json!({"update_status": {"is_verified": kv_bool(line, "v")?, "is_blocked": kv_bool(line, "b")?, "is_explicit": kv_bool(line, "e")?}}));
                (String::new(), r.is_ok())
            }
            "set_wl" | "purge" | "burn" | "upd_price" | "upd_start" | "upd_end" | "upd_trading" | "upd_limit" => {
                let Some(mi) = mi else { return Some((String::new(), false)) };
                let msg = match op {
                    "set_wl" => {
                        let wl = kv_u64(line, "wl")?;
                        let valid = kv_bool(line, "valid").unwrap_or(true);
                        json!({"set_whitelist": {"whitelist": if valid { ad(wl) } else { BAD_ADDR.to_string() }}})
                    }
                    "purge" => json!({"purge": {}}),
                    "burn" => json!({"burn_remaining": {}}),
                    "upd_price" => json!({"update_mint_price": {"price": kv_u128(line, "price")?.to_string()}}),
                    "upd_start" => json!({"update_start_time": jtime(kv_u64(line, "t")?)}),
                    "upd_end" => json!({"update_end_time": jtime(kv_u64(line, "t")?)}),
                    "upd_trading" => json!({"update_start_trading_time": jopt_time(kv_opt_u64(line, "t")?)}),
                    _ => json!({"update_per_address_limit": {"per_address_limit": kv_u64(line, "n")?}}),
                };
                let r = self.w.exec(&who, &mi.addr, &msg, &funds);
                self.dbg(line, &r);
                (String::new(), r.is_ok())
            }
            "c_transfer" | "c_burn" | "c_trading" | "c_creator" | "c_freeze" | "c_own" => {
                let Some(mi) = mi else { return Some((String::new(), false)) };
                let msg = match op {
                    "c_transfer" => json!({"transfer_nft": {"recipient": ad(kv_u64(line, "to")?), "token_id": kv_u64(line, "id")?.to_string()}}),
                    "c_burn" => json!({"burn": {"token_id": kv_u64(line, "id")?.to_string()}}),
                    "c_trading" => json!({"update_start_trading_time": jopt_time(kv_opt_u64(line, "t")?)}),
                    "c_creator" => {
                        let info = json!({"creator": ad(kv_u64(line, "new")?)});
                        if mi.ck == 2 {
                            json!({"update_collection_info": {"new_collection_info": info}})
                        } else {
                            json!({"update_collection_info": {"collection_info": info}})
                        }
                    }
                    "c_freeze" => {
                        if mi.ck == 0 || mi.ck == 3 {
                            json!("freeze_collection_info")
                        } else {
                            json!({"freeze_collection_info": {}})
                        }
                    }
                    _ => match kv(line, "act")? {
                        "transfer" => json!({"update_ownership": {"transfer_ownership": {"new_owner": ad(kv_u64(line, "new")?), "expiry": null}}}),
                        "accept" => json!({"update_ownership": "accept_ownership"}),
                        "renounce" => json!({"update_ownership": "renounce_ownership"}),
                        _ => return None,
                    },
                };
                let r = self.w.exec(&who, &mi.coll, &msg, &[]);
                self.dbg(line, &r);
                (String::new(), r.is_ok())
            }
            _ => return None,
        })
    }
}

impl Sut for S {
    fn begin(&mut self, header: &str) -> (String, String) {
        let now = kv_u64(header, "now").expect("now");
        let mut w = World::new(now);
        let l64 = |key: &str| -> Vec<u64> { kv_list(header, key).unwrap_or_default().iter().map(|x| *x as u64).collect() };
        let mcodes = l64("mcodes");
        let ccodes = l64("ccodes");
        let real_m: Vec<u64> = w.codes.minters[6..9].to_vec();
        let real_c = vec![w.codes.sg721_base, w.codes.sg721_updatable, w.codes.sg721_nt, w.codes.sg721_metadata_onchain];
        assert!(mcodes == real_m && ccodes == real_c, "header code tables {:?} {:?} differ from the world's {:?} {:?}", mcodes, ccodes, real_m, real_c);
        let p = FactoryParams {
            code_id: kv_u64(header, "code").expect("code"),
            allowed_sg721_code_ids: l64("allowed"),
            frozen: kv_bool(header, "frozen").expect("frozen"),
            creation_fee: coin_kv(header, "cfee").expect("cfee"),
            min_mint_price: coin_kv(header, "minp").expect("minp"),
            mint_fee_bps: kv_u64(header, "feebps").expect("feebps"),
            max_trading_offset_secs: kv_u64(header, "offset").expect("offset"),
            max_token_limit: kv_u64(header, "maxtok").expect("maxtok") as u32,
            max_per_address_limit: kv_u64(header, "maxper").expect("maxper") as u32,
            airdrop_mint_price: coin_kv(header, "airp").expect("airp"),
            airdrop_mint_fee_bps: kv_u64(header, "airbps").expect("airbps"),
            shuffle_fee: (0, 0),
            dev_fee_address: 0,
        };
        // EXACTLY the header's params (the factory's `instantiate` validates nothing, not even `dev_fee_address`)
        let mut pj = p.to_json(FactoryKind::OpenEdition);
        pj["extension"]["dev_fee_address"] = match kv(header, "dev").expect("dev") {
            "x" => json!(BAD_ADDR),
            a => json!(ad(a.parse().expect("dev id"))),
        };
        let fcode = w.codes.open_edition_factory;
        let factory = w.instantiate(fcode, &ad(90), &json!({"params": pj}), &[], None).expect("factory");
        assert_eq!(aid(&factory), kv_u64(header, "fac").expect("fac"), "factory address");
        self.w = w;
        self.accts = l64("accts");
        self.probe = l64("probe");
        self.mcodes = mcodes;
        self.ccodes = ccodes;
        self.factory = factory;
        self.minter = None;
        self.n_contracts = 1;
        self.wls.clear();
        self.wsent.clear();
        self.wcur.clear();
        (header.to_string(), format!("case {}", self.obs()))
    }

    fn exec(&mut self, line: &str) -> (String, String) {
        let op = line.split_whitespace().next().unwrap_or("").to_string();
        match op.as_str() {
            "wl" | "wl_time" | "wl_stage" | "wl_add" | "wl_rm" => {
                let pool = ad(4);
                let p0 = self.w.balance(&pool, 0);
                self.env_action(&op, line);
                let wsuf = self.refresh_w();
                let d = self.w.balance(&pool, 0) - p0;
                return (format!("env pool={d}{wsuf}"), format!("env {}", self.obs()));
            }
            "t" => {
                let Some(t) = kv_u64(line, "now") else { return (line.to_string(), "bad-op".into()) };
                if t < self.w.time() {
                    return (line.to_string(), format!("err {}", self.obs()));
                }
                self.w.set_time(t);
                let wsuf = self.refresh_w();
                return (format!("{line}{wsuf}"), format!("ok {}", self.obs()));
            }
            _ => {}
        }
        let wsuf = self.refresh_w();
        match self.run_op(&op, line) {
            Some((wit, ok)) => (format!("{line}{wit}{wsuf}"), format!("{} {}", if ok { "ok" } else { "err" }, self.obs())),
            None => (format!("{line}{wsuf}"), "bad-op".to_string()),
        }
    }
}

// ------------------------------------------------------------------------------------------------ generators
//GEN-BEGIN
struct G {
    rng: Rng,
    mc: Vec<u64>,
    cc: Vec<u64>,
    /// code ids that exist but are no open-edition minter (a collection, the factory itself, a whitelist, a vending minter)
    non_minter: Vec<u64>,
}

#[derive(Clone, Debug)]
struct Hdr {
    now: u64,
    code: u64,
    allowed: Vec<u64>,
    frozen: bool,
    cfee: (u64, u128),
    minp: (u64, u128),
    feebps: u64,
    offset: u64,
    maxtok: u64,
    maxper: u64,
    airp: (u64, u128),
    airbps: u64,
    dev: Option<u64>,
}
impl Hdr {
    fn std(now: u64, code: u64, cc: &[u64]) -> Hdr {
        Hdr { now, code, allowed: cc.to_vec(), frozen: false, cfee: (0, 5_000_000_000), minp: (0, 50_000_000), feebps: 1000, offset: 604_800, maxtok: 10_000, maxper: 50, airp: (0, 5_000_000), airbps: 10_000, dev: Some(DEV) }
    }
    fn line(&self, g: &G, tag: &str) -> String {
        format!(
            "case now={} fac=1000 mcodes={} ccodes={} accts={} probe={},1,9999 code={} allowed={} frozen={} cfee={} minp={} feebps={} offset={} maxtok={} maxper={} airp={} airbps={} dev={} {tag}",
            self.now, fmt_list(&g.mc), fmt_list(&g.cc), fmt_list(&ACCTS), fmt_list(&g.cc), self.code, fmt_list(&self.allowed), self.frozen as u8, rc(self.cfee), rc(self.minp),
            self.feebps, self.offset, self.maxtok, self.maxper, rc(self.airp), self.airbps, ox(&self.dev)
        )
    }
}

fn rel(now: u64, t: u64) -> &'static str {
    if now < t {
        "lt"
    } else if now == t {
        "eq"
    } else {
        "gt"
    }
}
/// generator-side copy of `LP.OE.mintParses` (only used to choose plausible collection kinds; never by the comparison)
fn mint_parses(onchain: bool, ck: usize) -> bool {
    onchain || ck != 3
}

/// `ses.mark`; with COMPOE_DUMP set every class is also counted (so that the report's distribution lists them)
fn mk(ses: &mut Session, class: String) {
    static DUMP: OnceLock<bool> = OnceLock::new();
    if *DUMP.get_or_init(|| std::env::var("COMPOE_DUMP").is_ok()) {
        ses.count(&format!("class:{class}"));
    }
    ses.mark(class);
}

fn classify(ses: &mut Session, sut: &S, pre: &Last, line: &str, out: &str) {
    let op = line.split_whitespace().next().unwrap_or("?");
    let oc = out.split_whitespace().next().unwrap_or("?");
    let post = &sut.last;
    let v = if pre.exists { pre.v.to_string() } else { sut.mcodes.iter().position(|c| *c == pre.f_code).map(|x| x.to_string()).unwrap_or("x".into()) };
    let left_class = |l: Option<u64>| match l {
        None => "x",
        Some(0) => "0",
        Some(1) => "1",
        _ => "n",
    };
    let st = if !pre.exists {
        "nominter".to_string()
    } else {
        format!("start-{}-end-{}-left-{}", rel(pre.now, pre.start), pre.end.map(|e| rel(pre.now, e)).unwrap_or("x"), left_class(pre.left))
    };
    let ed = if !pre.exists { "-".to_string() } else { format!("{}{}", if pre.ntok.is_some() { "cap" } else { "unc" }, if pre.oc { "-oc" } else { "" }) };
    let kind_of = |k: Option<u64>| -> String {
        match k {
            None => "-".into(),
            Some(k) => sut.wls.get(&k).map(|r| wl_kind_idx(r.kind).to_string()).unwrap_or("?".into()),
        }
    };
    match op {
        "mint" => {
            let wk = kind_of(pre.wl);
            let act = pre.wl.and_then(|k| sut.wcur.get(&k)).map(|i| i.active);
            let pf = kv(line, "proof").map(|p| &p[..1]).unwrap_or("n");
            mk(ses, format!("v{v}/mint/{oc}/{st}/wl{wk}-act{}/pf{pf}/{ed}", act.map(|a| (a as u8).to_string()).unwrap_or("x".into())));
            if oc == "ok" && act == Some(true) {
                mk(ses, format!("wlmint-ok/wl{wk}/v{v}"));
                ses.count(&format!("wlmint-ok:wl{wk}:v{v}"));
            }
            if oc == "err" && act == Some(true) && pre.exists && pre.v == 2 && pf == "-" {
                mk(ses, format!("merkle-missing-proof/wl{wk}"));
            }
        }
        "create" | "set_wl" => {
            let target = kv_opt_u64(line, "wl").unwrap_or(None);
            let wk = kind_of(target);
            mk(ses, format!("v{v}/{op}/{oc}/{st}/wl{wk}"));
            if target.is_some() && kv(line, "wlvalid") != Some("0") && kv(line, "valid") != Some("0") {
                mk(ses, format!("attach/wl{wk}/{op}/{oc}/v{v}"));
            }
            if op == "create" {
                let ck = kv_u64(line, "code").and_then(|c| sut.ccodes.iter().position(|x| *x == c)).map(|x| x.to_string()).unwrap_or("x".into());
                mk(ses, format!(
                    "create/{oc}/v{v}/ck{ck}/oc{}/nft{}/ntok{}/end{}",
                    kv(line, "onchain").unwrap_or("?"),
                    kv(line, "nftok").unwrap_or("?"),
                    if kv(line, "ntok") == Some("-") { "x" } else { "n" },
                    if kv(line, "end") == Some("-") { "x" } else { "t" }
                ));
                if oc == "ok" && post.exists && post.ntok.is_none() {
                    mk(ses, format!("edition/uncapped/create/ok/v{v}"));
                }
            }
        }
        "c_transfer" | "c_burn" | "c_trading" | "c_creator" | "c_freeze" | "c_own" => {
            mk(ses, format!("v{v}/{op}/{oc}/ck{}/{}", pre.ck, kv(line, "act").unwrap_or("-")));
        }
        "sudo_params" => {
            let keys: Vec<&str> = line.split_whitespace().skip(1).filter_map(|w| w.split_once('=').map(|x| x.0)).collect();
            mk(ses, format!("v{v}/sudo_params/{oc}/{}", keys.join("+")));
        }
        "mint_to" | "purge" | "burn" | "upd_price" | "upd_end" => mk(ses, format!("v{v}/{op}/{oc}/{st}/{ed}")),
        _ => mk(ses, format!("v{v}/{op}/{oc}/{st}")),
    }
    if (op == "mint" || op == "mint_to") && oc == "ok" && pre.exists {
        if pre.ntok.is_none() {
            mk(ses, format!("edition/uncapped/mint/ok/v{v}"));
        }
        if pre.oc {
            mk(ses, format!("edition/onchain/mint/ok/v{v}/ck{}", pre.ck));
        }
        if pre.ntok.is_some() && post.left == Some(0) {
            mk(ses, format!("edition/capped/soldout/v{v}"));
        }
        if pre.ntok.is_none() && post.left == Some(0) {
            mk(ses, format!("edition/uncapped/factory-cap-reached/v{v}"));
        }
    }
    if (op == "mint" || op == "mint_to") && pre.exists {
        mk(ses, format!("mintparse/{oc}/oc{}/ck{}", pre.oc as u8, pre.ck));
        ses.count(&format!("mintparse:oc{}:ck{}:{oc}", pre.oc as u8, pre.ck));
    }
}

fn step(ses: &mut Session, sut: &mut S, line: &str) -> bool {
    let pre = sut.last.clone();
    let out = ses.step(sut, line);
    if sut.trace {
        eprintln!("TRACE {line} => {}", &out[..out.len().min(3)]);
    }
    classify(ses, sut, &pre, line, &out);
    out.starts_with("ok")
}
fn expect_ok(ses: &mut Session, sut: &mut S, line: &str) {
    if !step(ses, sut, line) {
        eprintln!("TOUR-UNEXPECTED err: {line}");
        ses.count("tour-unexpected-err");
    }
}
fn funds_str(c: Option<(u64, u128)>) -> String {
    match c {
        Some((_, 0)) | None => "-".into(),
        Some((d, a)) => format!("{d}:{a}"),
    }
}
/// single-fault mutation of an attached payment
fn mut_funds(rng: &mut Rng, base: (u64, u128)) -> String {
    let (d, a) = base;
    match rng.below(7) {
        0 => format!("{d}:{}", a + 1),
        1 if a > 0 => format!("{d}:{}", a - 1),
        2 => format!("{}:{}", 1 - d.min(1), a.max(1)),
        3 => format!("{d}:{},{}:5", a.max(1), 1 - d.min(1)),
        4 if a > 0 => "-".into(),
        5 => format!("{d}:0"),
        _ => format!("{d}:{}", a + 1),
    }
}
/// stage windows relative to the mint start S (as c04)
fn windows(shape: u64, s: u64) -> Vec<(u64, u64)> {
    match shape % 8 {
        0 => vec![(s - 600, s - 400), (s - 400, s - 200), (s - 150, s - 100)],
        1 => vec![(s - 300, s + 300)],
        2 => vec![(s + 100, s + 300), (s + 305, s + 400)],
        3 => vec![(s - 200, s)],
        4 => vec![(s, s + 200)],
        5 => vec![(s - 400, s - 100), (s - 100, s + 100), (s + 100, s + 250)],
        6 => vec![(s - 500, s - 499)],
        _ => vec![(s - 50, s + 900), (s + 950, s + 1200)],
    }
}
fn wl_line(kind: WlKind, denom: u64, wins: &[(u64, u64)], base_price: u128, rng: &mut Rng, tag: u64) -> String {
    let n = if is_tiered(kind) { wins.len().min(3) } else { 1 };
    let mut st = vec![];
    let mut mem = vec![];
    let mut lv = vec![];
    for i in 0..n {
        let (a, b) = wins[i];
        let per = if is_flex(kind) { 0 } else { 1 + rng.below(3) };
        let cl = if is_tiered(kind) && rng.chance(1, 3) { (1 + rng.below(3)).to_string() } else { "x".into() };
        st.push(format!("{a}:{b}:{}:{per}:{cl}", base_price + 1000 * i as u128));
        let ms: Vec<u64> = BUYERS.iter().cloned().filter(|m| (*m as usize + i) % 4 != 3).collect();
        if is_merkle(kind) {
            let mut leaves: Vec<String> = vec![format!("x:{}:x", 9000 + 10 * tag + i as u64)];
            for (j, m) in ms.iter().enumerate() {
                match (j + i) % 3 {
                    0 => leaves.push(format!("x:{m}:x")),
                    1 => leaves.push(format!("x:{m}:{}", 2 + j)),
                    _ => leaves.push(format!("{}:{m}:{}", i + 1, 1 + j)),
                }
            }
            lv.push(leaves.join(","));
            mem.push("-".to_string());
        } else {
            mem.push(ms.iter().map(|m| format!("{m}:{}", if is_flex(kind) { 1 + (m % 3) } else { 0 })).collect::<Vec<_>>().join(","));
            lv.push("-".to_string());
        }
    }
    if kind == WlKind::Immutable {
        return format!("wl kind={} denom={denom} st=- mem=- lv=-", wl_kind_idx(kind));
    }
    format!("wl kind={} denom={denom} st={} mem={} lv={}", wl_kind_idx(kind), st.join(";"), mem.join(";"), lv.join(";"))
}
/// the mint line a buyer would send (Merkle minter: proofs by the right / the wrong sender, other trees, junk)
fn mint_line(sut: &S, buyer: u64, funds: &str, mode: u64) -> String {
    let l = &sut.last;
    let merkle_minter = l.exists && l.v == 2;
    if !merkle_minter {
        // plain / flex `Mint {}` has no fields; rarely send some anyway (serde rejects them)
        return match mode % 40 {
            37 => format!("mint sender={buyer} funds={funds} stage=1 alloc=- proof=-"),
            38 => format!("mint sender={buyer} funds={funds} stage=- alloc=- proof=j"),
            39 => format!("mint sender={buyer} funds={funds} stage=- alloc=2 proof=-"),
            _ => format!("mint sender={buyer} funds={funds} stage=- alloc=- proof=-"),
        };
    }
    let now = l.now;
    let info = l.wl.and_then(|k| sut.wls.get(&k).map(|i| (k, i)));
    let mut stage = "-".to_string();
    let mut alloc = "-".to_string();
    let mut proof = "-".to_string();
    if let Some((k, i)) = info {
        if is_merkle(i.kind) && !i.stages.is_empty() {
            let ti = i.active_stage(now).unwrap_or(0);
            let own = i.stages[ti].leaves.iter().find(|l| l.1 == buyer).cloned();
            let other = i.stages[ti].leaves.iter().find(|l| l.1 != buyer && l.1 < 9000).cloned();
            let enc = |t: usize, l: &LeafT| format!("p.{k}.{t}.{}.{}.{}", ox(&l.0), l.1, ox(&l.2));
            match mode % 10 {
                0 | 1 | 2 => {
                    if let Some(l) = own.clone().or(other.clone()) {
                        stage = fmt_opt(&l.0);
                        alloc = fmt_opt(&l.2);
                        proof = enc(ti, &l);
                    }
                }
                3 => {
                    if let Some(l) = other {
                        proof = enc(ti, &l);
                        if let Some(o) = own {
                            stage = fmt_opt(&o.0);
                            alloc = fmt_opt(&o.2);
                        }
                    }
                }
                4 => {
                    if let Some(l) = own {
                        stage = fmt_opt(&l.0);
                        alloc = (l.2.unwrap_or(1) + 5).to_string();
                        proof = enc(ti, &l);
                    }
                }
                5 => {
                    let tj = (ti + 1) % i.stages.len();
                    if let Some(l) = i.stages[tj].leaves.iter().find(|l| l.1 == buyer).cloned() {
                        stage = fmt_opt(&l.0);
                        alloc = fmt_opt(&l.2);
                        proof = enc(tj, &l);
                    }
                }
                6 => proof = "j".into(),
                8 => {
                    if let Some((k2, i2)) = sut.wls.iter().find(|(k2, i2)| **k2 != k && is_merkle(i2.kind) && !i2.stages.is_empty()) {
                        if let Some(l) = i2.stages[0].leaves.iter().find(|l| l.1 == buyer).cloned() {
                            stage = fmt_opt(&l.0);
                            alloc = fmt_opt(&l.2);
                            proof = format!("p.{k2}.0.{}.{}.{}", ox(&l.0), l.1, ox(&l.2));
                        }
                    }
                }
                9 => {
                    let l: LeafT = (own.as_ref().and_then(|o| o.0), buyer, Some(own.as_ref().and_then(|o| o.2).unwrap_or(1) + 40));
                    stage = fmt_opt(&l.0);
                    alloc = fmt_opt(&l.2);
                    proof = enc(ti, &l);
                }
                _ => proof = if mode % 20 == 7 { "b".into() } else if mode % 20 == 17 { "e".into() } else { "-".into() },
            }
        } else if mode % 4 == 3 {
            proof = "j".into();
            alloc = "7".into();
        } else if mode % 4 == 2 {
            // a list whitelist behind a Merkle minter: the proof-carrying `HasMember` does not parse there
            proof = "e".into();
        }
    } else if mode % 9 == 8 {
        proof = "j".into();
        stage = "1".into();
    }
    format!("mint sender={buyer} funds={funds} stage={stage} alloc={alloc} proof={proof}")
}

#[derive(Clone, Debug)]
struct CreateSpec {
    sender: u64,
    funds: String,
    code: u64,
    creator: u64,
    trading: Option<u64>,
    nftok: bool,
    onchain: bool,
    uri: bool,
    pay: Option<u64>,
    start: u64,
    end: Option<u64>,
    ntok: Option<u64>,
    price: (u64, u128),
    limit: u64,
    wl: Option<u64>,
    wlvalid: bool,
    collok: bool,
}
impl CreateSpec {
    fn line(&self) -> String {
        format!(
            "create sender={} funds={} code={} creator={} trading={} nftok={} onchain={} uri={} pay={} start={} end={} ntok={} price={} limit={} wl={} wlvalid={} collok={}",
            self.sender, self.funds, self.code, self.creator, fmt_opt(&self.trading), self.nftok as u8, self.onchain as u8, self.uri as u8, fmt_opt(&self.pay), self.start, fmt_opt(&self.end), fmt_opt(&self.ntok), rc(self.price), self.limit, fmt_opt(&self.wl), self.wlvalid as u8, self.collok as u8
        )
    }
    /// a plain valid creation for the deterministic scenarios
    fn basic(code: u64, start: u64, end: Option<u64>, ntok: Option<u64>, wl: Option<u64>) -> CreateSpec {
        CreateSpec { sender: ADMIN, funds: "0:5000000000".into(), code, creator: ADMIN, trading: None, nftok: true, onchain: false, uri: true, pay: Some(PAYEE), start, end, ntok, price: (0, 100_000_000), limit: 2, wl, wlvalid: true, collok: true }
    }
}
fn valid_create(sut: &S, g: &mut G, start: u64, end: Option<u64>, ntok: Option<u64>, wl: Option<u64>) -> CreateSpec {
    let l = &sut.last;
    let onchain = g.rng.chance(1, 3);
    let colls: Vec<u64> = l.f_allowed.iter().cloned().filter(|c| g.cc.contains(c)).collect();
    let good: Vec<u64> = colls.iter().cloned().filter(|c| mint_parses(onchain, g.cc.iter().position(|x| x == c).unwrap())).collect();
    // a collection that cannot take this edition's `Mint` never mints: keep it rare
    let mut code = if colls.is_empty() {
        g.cc[0]
    } else if !good.is_empty() && g.rng.chance(7, 8) {
        *g.rng.pick(&good)
    } else {
        *g.rng.pick(&colls)
    };
    if code == g.cc[2] && g.rng.chance(1, 3) && !good.is_empty() {
        code = *g.rng.pick(&good);
    }
    let limit = (1 + g.rng.below(3)).min(l.maxper.max(1));
    let price = (l.minp.0, if g.rng.chance(1, 6) { l.minp.1.max(if ntok.is_none() { 1 } else { 0 }) } else { l.minp.1 + 50_000_000 + g.rng.below(3) as u128 });
    CreateSpec {
        sender: ADMIN,
        funds: funds_str(Some(l.cfee)),
        code,
        creator: ADMIN,
        trading: None,
        nftok: true,
        onchain,
        uri: true,
        pay: if g.rng.chance(2, 3) { Some(PAYEE) } else { None },
        start,
        end,
        ntok,
        price,
        limit,
        wl,
        wlvalid: true,
        collok: true,
    }
}

/// one single-fault (or boundary) mutation of an otherwise valid CreateMinter
fn mutate_create(sut: &S, g: &mut G, c: &mut CreateSpec) -> &'static str {
    let l = sut.last.clone();
    let bound_t = l.offset.saturating_mul(SEC).saturating_add(c.start);
    match g.rng.below(36) {
        0 => {
            c.funds = if l.cfee.1 > 1 { format!("{}:{}", l.cfee.0, l.cfee.1 - 1) } else { "-".into() };
            "fee-1"
        }
        1 => {
            c.funds = format!("{}:{}", l.cfee.0, l.cfee.1 + 1);
            "fee+1"
        }
        2 => {
            c.funds = format!("{}:{}", 1 - l.cfee.0.min(1), l.cfee.1.max(1));
            "fee-denom"
        }
        3 => {
            c.funds = format!("{}:{},{}:7", l.cfee.0, l.cfee.1.max(1), 1 - l.cfee.0.min(1));
            "fee-two-coins"
        }
        4 => {
            c.funds = "-".into();
            "fee-none"
        }
        5 => {
            c.code = *g.rng.pick(&[9999u64, g.mc[0], 1]);
            "code-not-allowed"
        }
        6 => {
            c.ntok = Some(0);
            "ntok-0"
        }
        7 => {
            c.ntok = Some(l.maxtok + 1);
            "ntok-max+1"
        }
        8 => {
            if l.maxtok <= 150 {
                c.ntok = Some(l.maxtok);
            }
            "ntok-max"
        }
        9 => {
            c.limit = 0;
            "limit-0"
        }
        10 => {
            c.limit = l.maxper + 1;
            "limit-max+1"
        }
        11 => {
            c.limit = l.maxper;
            "limit-max"
        }
        12 => {
            c.price.1 = l.minp.1.saturating_sub(1);
            "price-floor-1"
        }
        13 => {
            c.price.1 = l.minp.1;
            "price-floor"
        }
        14 => {
            c.price.0 = 1 - l.minp.0.min(1);
            "price-denom"
        }
        15 => {
            c.uri = false;
            "uri"
        }
        16 => {
            c.start = l.now - 1;
            "start-now-1"
        }
        17 => {
            c.start = l.now;
            "start-now"
        }
        18 => {
            c.start = l.now + 1;
            if let Some(e) = c.end {
                c.end = Some(e.max(c.start + 1));
            }
            "start-now+1"
        }
        19 => {
            c.trading = Some(bound_t + 1);
            "trading-bound+1"
        }
        20 => {
            c.trading = Some(bound_t);
            "trading-bound"
        }
        21 => {
            c.wl = Some(*g.rng.pick(&[999u64, 1000, 998]));
            "wl-no-contract"
        }
        22 => {
            c.wlvalid = false;
            if c.wl.is_none() {
                c.wl = Some(999);
            }
            "wl-invalid-string"
        }
        23 => {
            c.collok = false;
            "coll-bad"
        }
        24 => {
            c.sender = 31; // never funded
            "sender-poor"
        }
        25 => {
            c.creator = STRANGER;
            "creator-other"
        }
        26 => {
            c.trading = Some(c.start.saturating_sub(10));
            "trading-early"
        }
        27 => {
            c.nftok = false;
            "nft-invalid"
        }
        28 => {
            c.end = None;
            c.ntok = None;
            "neither-end-nor-cap"
        }
        29 => {
            c.end = Some(c.start);
            "end-eq-start"
        }
        30 => {
            c.end = Some(c.start + 1);
            "end-start+1"
        }
        31 => {
            c.end = Some(c.start - 1);
            "end-start-1"
        }
        32 => {
            c.price.1 = 0;
            "price-0"
        }
        33 => {
            c.onchain = !c.onchain;
            "flip-onchain"
        }
        34 => {
            c.ntok = None;
            if c.end.is_none() {
                c.end = Some(c.start + 700);
            }
            "uncapped"
        }
        _ => {
            c.end = Some(l.now);
            "end-now"
        }
    }
}

fn interesting_instants(sut: &S) -> Vec<u64> {
    let l = &sut.last;
    let mut v = vec![];
    if l.exists {
        v.push(l.start);
        if let Some(e) = l.end {
            v.push(e);
        }
        v.push(l.start.saturating_add(l.offset.saturating_mul(SEC)));
        if let Some(t) = l.trading {
            v.push(t);
        }
    }
    for i in sut.wls.values() {
        for st in &i.stages {
            v.push(st.start);
            v.push(st.end);
        }
    }
    v.sort();
    v.dedup();
    v
}

fn sender_or_stranger(g: &mut G, proper: u64) -> u64 {
    if g.rng.chance(1, 9) {
        *g.rng.pick(&[STRANGER, 21, PAYEE])
    } else {
        proper
    }
}
fn np_funds(g: &mut G) -> &'static str {
    if g.rng.chance(1, 14) {
        "0:1"
    } else {
        "-"
    }
}
/// a buyer with a good chance of being entitled right now
fn pick_buyer(sut: &S, g: &mut G) -> u64 {
    let l = &sut.last;
    let entitled: Vec<u64> = l
        .wl
        .and_then(|k| sut.wls.get(&k))
        .and_then(|i| i.active_stage(l.now).map(|si| if is_merkle(i.kind) { i.stages[si].leaves.iter().map(|x| x.1).filter(|a| *a < 9000).collect() } else { i.stages[si].members.iter().map(|m| m.0).collect() }))
        .unwrap_or_default();
    if !entitled.is_empty() && g.rng.chance(3, 4) {
        *g.rng.pick(&entitled)
    } else if g.rng.chance(1, 8) {
        *g.rng.pick(&[STRANGER, ADMIN])
    } else {
        let fresh: Vec<u64> = BUYERS.iter().cloned().filter(|b| l.ma.iter().find(|e| e.0 == *b).map(|e| e.1).unwrap_or(0) < l.limit).collect();
        if !fresh.is_empty() && g.rng.chance(4, 5) {
            *g.rng.pick(&fresh)
        } else {
            *g.rng.pick(&BUYERS)
        }
    }
}
fn do_mint(ses: &mut Session, sut: &mut S, g: &mut G, buyer: u64) -> bool {
    let cur = sut.last.cur.unwrap_or(sut.last.price);
    let funds = if g.rng.chance(1, 5) { mut_funds(&mut g.rng, cur) } else { funds_str(Some(cur)) };
    let mode = if g.rng.chance(2, 3) { g.rng.below(3) } else { g.rng.below(40) };
    let line = mint_line(sut, buyer, &funds, mode);
    step(ses, sut, &line)
}
fn do_time(ses: &mut Session, sut: &mut S, g: &mut G) {
    let now = sut.last.now;
    let inst = interesting_instants(sut);
    let mut cands: Vec<u64> = inst.iter().flat_map(|t| [t.saturating_sub(1), *t, t + 1]).filter(|t| *t > now).collect();
    cands.sort();
    cands.dedup();
    let t = if !cands.is_empty() && g.rng.chance(4, 5) {
        cands[(g.rng.below(4) as usize).min(cands.len() - 1)]
    } else if g.rng.chance(1, 10) {
        now.saturating_sub(1 + g.rng.below(5)) // the clock never runs backwards: refused on both sides
    } else if g.rng.chance(1, 10) {
        now // next block, same time
    } else {
        now + 1 + g.rng.below(300)
    };
    step(ses, sut, &format!("t now={t}"));
}
fn do_sudo_params(ses: &mut Session, sut: &mut S, g: &mut G) {
    let l = sut.last.clone();
    let line = match g.rng.below(23) {
        0 => format!("sudo_params feebps={}", g.rng.pick(&[0u64, 1, 500, 1000, 9999, 10_000, 10_001, 20_000])),
        1 => format!("sudo_params airp=0:{}", g.rng.pick(&[0u128, 1, 7_000_000, 50_000_000])),
        2 => format!("sudo_params airp=1:{}", g.rng.pick(&[0u128, 5, 4_000_000])), // any denom is accepted here
        3 => format!("sudo_params dev={}", g.rng.pick(&["x", "13", "13", "30", "10", "1"])),
        4 => format!("sudo_params xminp={}", g.rng.pick(&["0:1", "1:7", "0:900000000"])), // ignored by the code
        5 => format!("sudo_params cfee={}", g.rng.pick(&["1:1000", "0:5000000000", "0:2", "0:1", "0:0", "1:0"])),
        6 => format!("sudo_params minp=0:{}", g.rng.pick(&[0u128, 1, 50_000_000, 50_000_001, 100_000_000, 100_000_001, 49_999_999])),
        7 => "sudo_params minp=1:50000000".to_string(),
        8 => format!("sudo_params frozen={}", g.rng.below(2)),
        9 => {
            let c = *g.rng.pick(&[g.cc[0], g.cc[1], g.cc[2], g.cc[3], 9999, g.mc[1]]);
            format!("sudo_params addc={c},{c},{}", g.rng.pick(&[g.cc[0], 7777]))
        }
        10 => format!("sudo_params rmc={}", g.rng.pick(&[g.cc[0], g.cc[1], g.cc[3], 7777])),
        11 => format!("sudo_params addc={} rmc={}", g.cc[2], g.cc[2]),
        12 => format!("sudo_params offset={}", g.rng.pick(&[0u64, 1, 2, 60, 604_800])),
        13 => format!("sudo_params maxtok={}", g.rng.pick(&[1u64, 5, 12, 150, 10_000])),
        14 => format!("sudo_params maxper={}", g.rng.pick(&[1u64, 2, 3, 5, 50])),
        15 => format!("sudo_params airbps={}", g.rng.pick(&[0u64, 1, 5000, 10_000, 10_001])),
        16 => format!("sudo_params code={}", g.rng.pick(&[g.mc[0], g.mc[1], g.mc[2], 9999, g.non_minter[0], g.non_minter[3]])),
        17 => "sudo_params".to_string(),
        18 => format!("sudo_params feebps={} minp=1:9 maxtok=77 dev=x", l.feebps + 1), // one bad denom: nothing at all is saved
        19 => format!("sudo_params xminp=1:3 minp=0:{}", l.minp.1),
        20 => format!("sudo_params dev=x feebps={}", g.rng.pick(&[0u64, 1000])),
        21 => format!("sudo_params airp=0:0 airbps={}", g.rng.pick(&[0u64, 10_000])),
        _ => format!("sudo_params code={} frozen=0 cfee={} minp={} feebps={} offset={} maxtok={} maxper={} airp={} airbps={} dev={} addc=- rmc=-", l.f_code, rc(l.cfee), rc(l.minp), l.feebps, l.offset, l.maxtok, l.maxper, rc(l.airp), l.airbps, ox(&l.dev)),
    };
    step(ses, sut, &line);
}

fn do_wl_admin(ses: &mut Session, sut: &mut S, g: &mut G) {
    let keys: Vec<u64> = sut.wls.keys().cloned().collect();
    if keys.is_empty() {
        return;
    }
    let k = *g.rng.pick(&keys);
    let info = sut.wls[&k].clone();
    if info.stages.is_empty() {
        step(ses, sut, &format!("wl_add a={k} stage=0 m=20 c=1"));
        return;
    }
    let now = sut.last.now;
    let si = g.rng.below(info.stages.len() as u64);
    let st = &info.stages[si as usize];
    let ms = sut.last.start;
    let near = [now.saturating_sub(1), now, now + 1, now + 50, st.start + 1, st.end.saturating_sub(1), st.end + 1, ms, ms + 1];
    match g.rng.below(5) {
        0 | 1 => {
            if is_tiered(info.kind) {
                let a = *g.rng.pick(&near);
                let b = a + 1 + g.rng.below(300);
                step(ses, sut, &format!("wl_stage a={k} stage={si} start={a} end={b}"));
            } else {
                let which = if g.rng.chance(1, 2) { "start" } else { "end" };
                step(ses, sut, &format!("wl_time a={k} which={which} t={}", g.rng.pick(&near)));
            }
        }
        2 | 3 => {
            let a = if g.rng.chance(1, 3) { STRANGER } else { *g.rng.pick(&BUYERS) };
            step(ses, sut, &format!("wl_add a={k} stage={si} m={a} c={}", 1 + g.rng.below(3)));
        }
        _ => {
            let a = *g.rng.pick(&BUYERS);
            step(ses, sut, &format!("wl_rm a={k} stage={si} m={a}"));
        }
    }
}
fn do_coll_op(ses: &mut Session, sut: &mut S, g: &mut G) {
    let l = sut.last.clone();
    if !l.exists {
        step(ses, sut, &format!("c_freeze sender={ADMIN}"));
        return;
    }
    let owner_of_some = l.toks.first().cloned();
    match g.rng.below(12) {
        0 | 1 => {
            if let Some((id, o)) = if l.toks.is_empty() { None } else { Some(*g.rng.pick(&l.toks)) } {
                let s = if g.rng.chance(1, 5) { STRANGER } else { o };
                step(ses, sut, &format!("c_transfer sender={s} id={id} to={}", g.rng.pick(&[20u64, 21, 30, 12])));
            } else {
                step(ses, sut, &format!("c_transfer sender=20 id=1 to=21"));
            }
        }
        2 => {
            if let Some((id, o)) = owner_of_some {
                let s = if g.rng.chance(1, 3) { STRANGER } else { o };
                step(ses, sut, &format!("c_burn sender={s} id={id}"));
            } else {
                step(ses, sut, &format!("c_burn sender=20 id={}", 1 + g.rng.below(4)));
            }
        }
        3 | 4 => {
            let s = *g.rng.pick(&[l.maddr, l.maddr, ADMIN, STRANGER]);
            let t = match g.rng.below(4) {
                0 => "-".to_string(),
                1 => l.now.to_string(),
                2 => (l.now + 1000).to_string(),
                _ => l.now.saturating_sub(5).to_string(),
            };
            step(ses, sut, &format!("c_trading sender={s} t={t}"));
        }
        5 | 6 => {
            let s = *g.rng.pick(&[l.creator, l.creator, ADMIN, STRANGER]);
            step(ses, sut, &format!("c_creator sender={s} new={}", g.rng.pick(&[ADMIN, STRANGER, 21])));
        }
        7 => {
            let s = *g.rng.pick(&[l.creator, l.creator, STRANGER]);
            step(ses, sut, &format!("c_freeze sender={s}"));
        }
        _ => {
            // ownership of the collection: transfer by the minter (the cw_ownable owner), accept by the pending owner
            let own = l.owner.unwrap_or(l.maddr);
            match g.rng.below(6) {
                0 | 1 => {
                    let s = if g.rng.chance(1, 4) { STRANGER } else { own };
                    step(ses, sut, &format!("c_own sender={s} act=transfer new={}", g.rng.pick(&[STRANGER, 21, l.maddr])));
                }
                2 | 3 => {
                    let s = l.pending.unwrap_or(STRANGER);
                    step(ses, sut, &format!("c_own sender={s} act=accept new=0"));
                }
                4 => {
                    step(ses, sut, &format!("c_own sender={} act=accept new=0", 22));
                }
                _ => {
                    let s = if g.rng.chance(1, 2) { STRANGER } else { own };
                    if g.rng.chance(1, 3) {
                        step(ses, sut, &format!("c_own sender={s} act=renounce new=0"));
                    } else {
                        step(ses, sut, &format!("c_own sender={s} act=transfer new={}", l.maddr));
                    }
                }
            }
        }
    }
}
/// 0 no minter, 1 before the start, 2 running, 3 nothing left, 4 ended
fn phase_of(l: &Last) -> u8 {
    if !l.exists {
        0
    } else if matches!(l.end, Some(e) if l.now >= e) {
        4
    } else if l.left == Some(0) {
        3
    } else if l.now < l.start {
        1
    } else {
        2
    }
}

/// one random step of the walk
fn rand_op(ses: &mut Session, sut: &mut S, g: &mut G) {
    let l = sut.last.clone();
    let admin = if l.exists { l.admin } else { ADMIN };
    // phase-aware choice: ops that are bound to fail in the current phase are kept, but rare (single-fault, mostly valid)
    let wl_active = l.wl.and_then(|k| sut.wcur.get(&k)).map(|i| i.active).unwrap_or(false);
    let phase = phase_of(&l);
    let mut r = g.rng.below(100);
    for _ in 0..4 {
        let futile = match (phase, r) {
            (0, 13..=79) | (0, 91..=95) => true,
            (1, 13..=34) => !wl_active,
            (1, 42..=48) => l.end.is_some(),
            (2, 55..=58) | (2, 72..=77) => true,
            (2, 42..=48) => l.end.is_some(),
            (3, 13..=41) | (3, 46..=48) | (3, 55..=58) | (3, 72..=77) => true,
            (4, 13..=41) | (4, 49..=63) | (4, 72..=77) => true,
            _ => false,
        };
        if futile && g.rng.chance(5, 6) {
            r = g.rng.below(100);
        } else {
            break;
        }
    }
    if phase == 1 && !wl_active && r <= 12 && g.rng.chance(1, 2) {
        // go to the next opening: a stage of the attached whitelist, or the public start (exactly, or one ns around it)
        let mut opens: Vec<u64> = vec![l.start];
        if let Some(i) = l.wl.and_then(|k| sut.wls.get(&k)) {
            opens.extend(i.stages.iter().map(|s| s.start));
        }
        opens.retain(|t| *t > l.now);
        opens.sort();
        if let Some(t) = opens.first() {
            let t = match g.rng.below(6) {
                0 => t - 1,
                1 => t + 1,
                _ => *t,
            };
            step(ses, sut, &format!("t now={}", t.max(l.now)));
            return;
        }
    }
    match r {
        0..=12 => do_time(ses, sut, g),
        13..=34 => {
            let b = pick_buyer(sut, g);
            let n = if g.rng.chance(1, 4) { 1 + g.rng.below(3) } else { 1 };
            for _ in 0..n {
                do_mint(ses, sut, g, b);
            }
        }
        35..=41 => {
            let s = sender_or_stranger(g, admin);
            let funds = if g.rng.chance(1, 6) { mut_funds(&mut g.rng, l.airp) } else { funds_str(Some(l.airp)) };
            step(ses, sut, &format!("mint_to sender={s} funds={funds} rcpt={}", g.rng.pick(&[20u64, 21, 22, 30, 12])));
        }
        42..=45 => {
            let f = np_funds(g);
            step(ses, sut, &format!("purge sender={} funds={f}", g.rng.pick(&[STRANGER, ADMIN, 20])));
        }
        46..=48 => {
            let s = sender_or_stranger(g, admin);
            let f = np_funds(g);
            // a capped edition without an end time can be closed at any moment: not too early in the walk
            if l.end.is_none() && phase <= 2 && g.rng.chance(2, 3) {
                do_time(ses, sut, g);
            } else {
                step(ses, sut, &format!("burn sender={s} funds={f}"));
            }
        }
        49..=54 => {
            let s = sender_or_stranger(g, admin);
            let f = np_funds(g);
            let p = match g.rng.below(9) {
                0 => l.price.1,
                1 => l.price.1.saturating_sub(1),
                2 => l.price.1 + 1,
                3 => l.minp.1,
                4 => l.minp.1.saturating_sub(1),
                5 => 0,
                6 => 1,
                _ => l.price.1 + 10_000_000,
            };
            step(ses, sut, &format!("upd_price sender={s} funds={f} price={p}"));
        }
        55..=58 => {
            let s = sender_or_stranger(g, admin);
            let f = np_funds(g);
            let mut c: Vec<u64> = vec![l.now.saturating_sub(1), l.now, l.now + 1, l.start, l.start + 1, l.start.saturating_sub(1), l.start + 37];
            if let Some(e) = l.end {
                c.extend([e - 1, e, e + 1]);
            }
            for t in interesting_instants(sut) {
                c.push(t);
            }
            step(ses, sut, &format!("upd_start sender={s} funds={f} t={}", g.rng.pick(&c)));
        }
        59..=63 => {
            let s = sender_or_stranger(g, admin);
            let f = np_funds(g);
            let e = l.end.unwrap_or(l.start + 500);
            let c: Vec<u64> = vec![l.now.saturating_sub(1), l.now, l.now + 1, l.start.saturating_sub(1), l.start, l.start + 1, e - 1, e, e + 1, e + 300, l.now + 40];
            step(ses, sut, &format!("upd_end sender={s} funds={f} t={}", g.rng.pick(&c)));
        }
        64..=67 => {
            let s = sender_or_stranger(g, admin);
            let f = np_funds(g);
            let b = l.start.saturating_add(l.offset.saturating_mul(SEC));
            let t = match g.rng.below(9) {
                0 => "-".to_string(),
                1 => l.now.to_string(),
                2 => l.now.saturating_sub(1).to_string(),
                3 => (l.now + 1).to_string(),
                4 => b.to_string(),
                5 => (b + 1).to_string(),
                6 => b.saturating_sub(1).to_string(),
                7 => l.start.to_string(),
                _ => (l.now + g.rng.below(5000)).to_string(),
            };
            step(ses, sut, &format!("upd_trading sender={s} funds={f} t={t}"));
        }
        68..=71 => {
            let s = sender_or_stranger(g, admin);
            let f = np_funds(g);
            let n = *g.rng.pick(&[0u64, 1, 2, 3, 4, l.maxper, l.maxper + 1]);
            step(ses, sut, &format!("upd_limit sender={s} funds={f} n={n}"));
        }
        72..=77 => {
            let s = sender_or_stranger(g, admin);
            let f = np_funds(g);
            let keys: Vec<u64> = sut.wls.keys().cloned().collect();
            let (wl, valid) = match g.rng.below(12) {
                0 => (999, 1),
                1 => (1000, 1),
                2 => (999, 0),
                3 => (l.maddr.max(1), 1),
                _ => {
                    let idle: Vec<u64> = keys.iter().cloned().filter(|k| sut.wcur.get(k).map(|i| !i.active).unwrap_or(true)).collect();
                    (if keys.is_empty() { 998 } else if !idle.is_empty() && g.rng.chance(3, 4) { *g.rng.pick(&idle) } else { *g.rng.pick(&keys) }, 1)
                }
            };
            step(ses, sut, &format!("set_wl sender={s} funds={f} wl={wl} valid={valid}"));
        }
        78..=79 => {
            step(ses, sut, &format!("sudo_status v={} b={} e={}", g.rng.below(2), g.rng.below(2), g.rng.below(2)));
        }
        80..=85 => do_sudo_params(ses, sut, g),
        86..=90 => do_wl_admin(ses, sut, g),
        91..=95 => do_coll_op(ses, sut, g),
        96..=97 => {
            let a = *g.rng.pick(&[20u64, 21, 22, 23, 30, 10]);
            step(ses, sut, &format!("fund a={a} d={} amt={}", g.rng.below(2), g.rng.pick(&[0u128, 1, 100_000_000, 1_000_000_000])));
        }
        _ => {
            step(ses, sut, &format!("inst_direct sender={} v={}", g.rng.pick(&[ADMIN, STRANGER]), g.rng.below(3)));
        }
    }
}

/// probes at the current instant that do not move the schedule when they succeed
fn battery(ses: &mut Session, sut: &mut S, g: &mut G) {
    let l = sut.last.clone();
    if !l.exists {
        return;
    }
    let wl_active = l.wl.and_then(|k| sut.wcur.get(&k)).map(|i| i.active).unwrap_or(false);
    let near = |t: u64| l.now + 2 >= t && l.now <= t + 2;
    let near_end = l.end.map(near).unwrap_or(false);
    if (l.left != Some(0) || g.rng.chance(1, 4)) && (l.now >= l.start || wl_active || g.rng.chance(1, 4)) {
        let b = pick_buyer(sut, g);
        do_mint(ses, sut, g, b);
        let o = *g.rng.pick(&[STRANGER, 23, 22]);
        let cur = sut.last.cur.unwrap_or(sut.last.price);
        let mode = g.rng.below(20);
        let line = mint_line(sut, o, &funds_str(Some(cur)), mode);
        step(ses, sut, &line);
    }
    if l.now < l.start || near(l.start) || g.rng.chance(1, 5) {
        step(ses, sut, &format!("upd_start sender={} funds=- t={}", l.admin, l.start));
        if let Some(k) = l.wl {
            step(ses, sut, &format!("set_wl sender={} funds=- wl={k} valid=1", l.admin));
        }
    }
    if g.rng.chance(1, 2) || near_end {
        step(ses, sut, &format!("mint_to sender={} funds={} rcpt=22", l.admin, funds_str(Some(l.airp))));
    }
    if near_end {
        // the three comparisons against `end_time`: `>=` (mint, price, end time), `<=` (purge, burn)
        let e = l.end.unwrap();
        step(ses, sut, &format!("upd_end sender={} funds=- t={e}", l.admin));
        step(ses, sut, &format!("purge sender={STRANGER} funds=-"));
        if g.rng.chance(1, 3) {
            step(ses, sut, &format!("burn sender={} funds=-", l.admin));
        }
    }
    let pick = if l.now < l.start && g.rng.chance(4, 5) { 2 } else { g.rng.below(4) };
    match pick {
        0 => {
            if let Some(e) = l.end {
                step(ses, sut, &format!("upd_end sender={} funds=- t={}", l.admin, e + g.rng.below(2)));
            }
        }
        1 => {
            step(ses, sut, &format!("upd_limit sender={} funds=- n={}", l.admin, l.limit));
        }
        2 => {
            let t = l.trading.unwrap_or(l.now).max(l.now);
            step(ses, sut, &format!("upd_trading sender={} funds=- t={t}", l.admin));
        }
        _ => {
            step(ses, sut, &format!("upd_price sender={} funds=- price={}", l.admin, sut.last.price.1.saturating_sub(1)));
        }
    }
}

fn fund_all(ses: &mut Session, sut: &mut S, g: &mut G, second_denom: bool) {
    step(ses, sut, &format!("fund a={ADMIN} d=0 amt=1000000000000"));
    for b in [20u64, 21, 22, STRANGER] {
        step(ses, sut, &format!("fund a={b} d=0 amt=100000000000"));
    }
    // buyer 23 is sometimes broke / short of one mint
    let a23 = *g.rng.pick(&[0u128, 50_000_000, 100_000_000_000, 100_000_000_000, 100_000_000_000, 100_000_000_000, 100_000_000_000, 100_000_000_000]);
    if a23 > 0 {
        step(ses, sut, &format!("fund a=23 d=0 amt={a23}"));
    }
    if second_denom {
        for b in [ADMIN, 20, 21, 22] {
            step(ses, sut, &format!("fund a={b} d=1 amt=100000000000"));
        }
    }
}
fn fund_std(ses: &mut Session, sut: &mut S) {
    step(ses, sut, &format!("fund a={ADMIN} d=0 amt=1000000000000"));
    for b in [20u64, 21, 22, 23, 30] {
        step(ses, sut, &format!("fund a={b} d=0 amt=100000000000"));
    }
}

/// the whitelist description used by the deterministic scenarios: members 20 (2 mints) and 21 (1 mint) in stage 1,
/// 21 and 22 in stage 2; `shift` moves the windows
fn tour_wl(wk: WlKind, s: u64, shift: u64) -> String {
    let per = |n: u64| if is_flex(wk) { 0 } else { n };
    let st = if is_tiered(wk) {
        format!("{}:{}:60000000:{}:x;{}:{}:61000000:{}:2", s - 3000 + shift, s - 2000 + shift, per(2), s - 1990 + shift, s - 1000 + shift, per(1))
    } else {
        format!("{}:{}:60000000:{}:x", s - 3000 + shift, s - 2000 + shift, per(2))
    };
    let (mem, lv) = match wk {
        WlKind::Plain | WlKind::Flex => ("20:2,21:1".to_string(), "-".to_string()),
        WlKind::Tiered | WlKind::TieredFlex => ("20:2,21:1;21:1,22:2".to_string(), "-;-".to_string()),
        WlKind::Merkle => ("-".to_string(), "x:20:x,x:21:2,x:9001:x".to_string()),
        _ => ("-;-".to_string(), "1:20:2,x:21:x,x:9001:x;2:22:1,x:9002:x".to_string()),
    };
    format!("wl kind={} denom=0 st={st} mem={mem} lv={lv}", wl_kind_idx(wk))
}

/// deterministic scenarios (independent of the seed): every message kind succeeds once for variant `v`, with whitelist
/// mints through the two whitelist kinds that belong to the variant.
/// shape 0: capped edition with an end time, off-chain, list / Merkle whitelist; every configuration message; collection
///          interface; closed by `BurnRemaining` + `Purge` after the end.
/// shape 1: uncapped on-chain edition with an end time, tiered whitelist (both stages); `Purge` / `BurnRemaining` after the end.
/// shape 2: capped edition without an end time, sold out by mints, then `Purge`.
fn tour(ses: &mut Session, sut: &mut S, g: &mut G, v: usize, shape: usize) {
    let now = GENESIS + 1_000_000 + 1000 * (3 * v + shape) as u64;
    let s = now + 5000;
    let e = s + 4000;
    let h = Hdr::std(now, g.mc[v], &g.cc);
    ses.begin_case(sut, &h.line(g, &format!("tour v={v} shape={shape}")));
    fund_std(ses, sut);
    if shape == 2 {
        let c = CreateSpec { limit: 2, ..CreateSpec::basic(g.cc[1], s, None, Some(3), None) };
        expect_ok(ses, sut, &c.line());
        expect_ok(ses, sut, &format!("t now={s}"));
        step(ses, sut, &format!("upd_end sender={ADMIN} funds=- t={}", s + 100)); // no end time was defined
        expect_ok(ses, sut, "mint sender=20 funds=0:100000000 stage=- alloc=- proof=-");
        step(ses, sut, "purge sender=30 funds=-"); // not sold out
        expect_ok(ses, sut, "mint sender=20 funds=0:100000000 stage=- alloc=- proof=-");
        step(ses, sut, "mint sender=20 funds=0:100000000 stage=- alloc=- proof=-"); // per-address limit
        expect_ok(ses, sut, &format!("mint_to sender={ADMIN} funds=0:5000000 rcpt=22"));
        step(ses, sut, "mint sender=21 funds=0:100000000 stage=- alloc=- proof=-"); // sold out
        step(ses, sut, &format!("burn sender={ADMIN} funds=-")); // sold out
        expect_ok(ses, sut, "purge sender=30 funds=-");
        step(ses, sut, "mint sender=23 funds=0:100000000 stage=- alloc=- proof=-"); // sold out for good
        ses.end_case();
        return;
    }
    let wk = match (v, shape) {
        (0, 0) => WlKind::Plain,
        (0, _) => WlKind::Tiered,
        (1, 0) => WlKind::Flex,
        (1, _) => WlKind::TieredFlex,
        (_, 0) => WlKind::Merkle,
        _ => WlKind::TieredMerkle,
    };
    step(ses, sut, &tour_wl(wk, s, 0));
    step(ses, sut, &tour_wl(wk, s, 7));
    let (wa, wb) = (1001u64, 1002u64);
    // immutable whitelist: can never be attached (its Config answer has another layout)
    step(ses, sut, "wl kind=6 denom=0 st=- mem=- lv=-");
    let onchain = shape == 1;
    let ck = if onchain { [3usize, 1, 3][v] } else { 0 };
    let ntok = if shape == 0 { Some(9) } else { None };
    let c = CreateSpec { onchain, wl: Some(1003), ..CreateSpec::basic(g.cc[ck], s, Some(e), ntok, None) };
    step(ses, sut, &c.line());
    step(ses, sut, &format!("inst_direct sender=10 v={v}"));
    let c = CreateSpec { wl: Some(wa), ..c };
    expect_ok(ses, sut, &c.line());
    step(ses, sut, &format!("set_wl sender={ADMIN} funds=- wl=1003 valid=1"));
    expect_ok(ses, sut, &format!("set_wl sender={ADMIN} funds=- wl={wb} valid=1"));
    expect_ok(ses, sut, &format!("set_wl sender={ADMIN} funds=- wl={wa} valid=1"));
    expect_ok(ses, sut, &format!("upd_start sender={ADMIN} funds=- t={s}"));
    expect_ok(ses, sut, &format!("upd_end sender={ADMIN} funds=- t={}", e + 1));
    expect_ok(ses, sut, &format!("upd_end sender={ADMIN} funds=- t={e}"));
    expect_ok(ses, sut, &format!("upd_price sender={ADMIN} funds=- price=100000001"));
    expect_ok(ses, sut, &format!("upd_limit sender={ADMIN} funds=- n=3"));
    if ck != 2 {
        expect_ok(ses, sut, &format!("upd_trading sender={ADMIN} funds=- t={}", s + 1));
    }
    expect_ok(ses, sut, "sudo_status v=1 b=0 e=1");
    expect_ok(ses, sut, "sudo_params feebps=1000");
    // whitelist window (stage 1)
    expect_ok(ses, sut, &format!("t now={}", s - 3000));
    let wl_mint = match wk {
        WlKind::Merkle => format!("mint sender=20 funds=0:60000000 stage=- alloc=- proof=p.{wa}.0.x.20.x"),
        WlKind::TieredMerkle => format!("mint sender=20 funds=0:60000000 stage=1 alloc=2 proof=p.{wa}.0.1.20.2"),
        _ => "mint sender=20 funds=0:60000000 stage=- alloc=- proof=-".to_string(),
    };
    expect_ok(ses, sut, &wl_mint);
    step(ses, sut, "mint sender=30 funds=0:60000000 stage=- alloc=- proof=-");
    if v == 2 {
        step(ses, sut, "mint sender=20 funds=0:60000000 stage=- alloc=- proof=-"); // MissingProofHashes
    }
    if is_tiered(wk) {
        // stage 2: 22 is a member there
        expect_ok(ses, sut, &format!("t now={}", s - 1990));
        let m2 = match wk {
            WlKind::TieredMerkle => format!("mint sender=22 funds=0:61000000 stage=2 alloc=1 proof=p.{wa}.1.2.22.1"),
            _ => "mint sender=22 funds=0:61000000 stage=- alloc=- proof=-".to_string(),
        };
        expect_ok(ses, sut, &m2);
        step(ses, sut, &m2); // plain / merkle: limit 1 reached; flex: member count 2
    }
    // public sale
    expect_ok(ses, sut, &format!("t now={s}"));
    expect_ok(ses, sut, "mint sender=21 funds=0:100000001 stage=- alloc=- proof=-");
    expect_ok(ses, sut, &format!("mint_to sender={ADMIN} funds=0:5000000 rcpt=22"));
    expect_ok(ses, sut, &format!("upd_price sender={ADMIN} funds=- price=99000000"));
    expect_ok(ses, sut, "mint sender=21 funds=0:99000000 stage=- alloc=- proof=-");
    if shape == 0 {
        // collection interface
        if let Some((id, o)) = sut.last.toks.first().cloned() {
            expect_ok(ses, sut, &format!("c_transfer sender={o} id={id} to=30"));
            expect_ok(ses, sut, &format!("c_burn sender=30 id={id}"));
        }
        expect_ok(ses, sut, &format!("c_creator sender={ADMIN} new=21"));
        expect_ok(ses, sut, "c_freeze sender=21");
        let m = sut.last.maddr;
        expect_ok(ses, sut, &format!("c_trading sender={m} t=-"));
        expect_ok(ses, sut, &format!("c_own sender={m} act=transfer new=30"));
        expect_ok(ses, sut, "c_own sender=30 act=accept new=0");
        step(ses, sut, &format!("mint_to sender={ADMIN} funds=0:5000000 rcpt=22")); // the minter no longer owns the collection
        expect_ok(ses, sut, &format!("c_own sender=30 act=transfer new={m}"));
        expect_ok(ses, sut, &format!("c_own sender={m} act=accept new=0"));
        expect_ok(ses, sut, &format!("mint_to sender={ADMIN} funds=0:5000000 rcpt=22"));
    }
    // the end: `>=` for mints, `<=` for purge / burn
    expect_ok(ses, sut, &format!("t now={}", e - 1));
    expect_ok(ses, sut, "mint sender=23 funds=0:99000000 stage=- alloc=- proof=-");
    step(ses, sut, &format!("burn sender={ADMIN} funds=-"));
    expect_ok(ses, sut, &format!("t now={e}"));
    step(ses, sut, "mint sender=23 funds=0:99000000 stage=- alloc=- proof=-");
    step(ses, sut, &format!("mint_to sender={ADMIN} funds=0:5000000 rcpt=22"));
    step(ses, sut, &format!("upd_end sender={ADMIN} funds=- t={}", e + 10));
    step(ses, sut, &format!("upd_price sender={ADMIN} funds=- price=98000000"));
    step(ses, sut, "purge sender=30 funds=-");
    step(ses, sut, &format!("burn sender={ADMIN} funds=-"));
    expect_ok(ses, sut, &format!("t now={}", e + 1));
    if shape == 0 {
        step(ses, sut, "purge sender=30 funds=-"); // plain / merkle: accepted after the end; flex: not sold out
        expect_ok(ses, sut, &format!("burn sender={ADMIN} funds=-"));
        expect_ok(ses, sut, "purge sender=30 funds=-");
    } else {
        expect_ok(ses, sut, "purge sender=30 funds=-");
        // flex: no counter at all -> `unwrap` on None panics; the others burn what is left of the captured factory cap
        step(ses, sut, &format!("burn sender={ADMIN} funds=-"));
    }
    step(ses, sut, "mint sender=22 funds=0:99000000 stage=- alloc=- proof=-");
    ses.end_case();
}

/// on-chain / off-chain edition x the four collection contracts: which `Mint` shapes does the collection parse?
fn matrix_case(ses: &mut Session, sut: &mut S, g: &mut G, v: usize, onchain: bool, ck: usize) {
    let now = GENESIS + 3_000_000 + (100 * v + 10 * ck) as u64;
    let s = now + 100;
    let h = Hdr::std(now, g.mc[v], &g.cc);
    ses.begin_case(sut, &h.line(g, &format!("matrix v={v} onchain={} ck={ck}", onchain as u8)));
    fund_std(ses, sut);
    let c = CreateSpec { onchain, ..CreateSpec::basic(g.cc[ck], s, Some(s + 1000), if ck % 2 == 0 { Some(4) } else { None }, None) };
    step(ses, sut, &c.line());
    step(ses, sut, &format!("t now={s}"));
    step(ses, sut, "mint sender=20 funds=0:100000000 stage=- alloc=- proof=-");
    step(ses, sut, &format!("mint_to sender={ADMIN} funds=0:5000000 rcpt=21"));
    if let Some((id, o)) = sut.last.toks.first().cloned() {
        step(ses, sut, &format!("c_transfer sender={o} id={id} to=22"));
        step(ses, sut, &format!("c_burn sender={o} id={id}"));
        step(ses, sut, "c_burn sender=22 id=1");
    }
    step(ses, sut, "mint sender=20 funds=0:100000000 stage=- alloc=- proof=-");
    ses.end_case();
}

/// deterministic single-topic scenarios
fn special_case(ses: &mut Session, sut: &mut S, g: &mut G, v: usize, k: usize) {
    let now = GENESIS + 4_000_000 + (100 * v + 10 * k) as u64;
    let s = now + 2000;
    let e = s + 3000;
    let mut h = Hdr::std(now, g.mc[v], &g.cc);
    let mint20 = |p: u128| format!("mint sender=20 funds={} stage=- alloc=- proof=-", funds_str(Some((0, p))));
    let airdrop = |p: (u64, u128)| format!("mint_to sender={ADMIN} funds={} rcpt=22", funds_str(Some(p)));
    match k {
        0 => {
            // uncapped edition + whitelist: -wl-flex also applies the minter's own per-address limit to whitelist mints
            ses.begin_case(sut, &h.line(g, &format!("special v={v} k=uncapped-wl-limit")));
            fund_std(ses, sut);
            let wk = [WlKind::Plain, WlKind::Flex, WlKind::Merkle][v];
            let st = format!("{}:{}:60000000:{}:x", s - 1000, s - 100, if v == 1 { 0 } else { 3 });
            let (mem, lv) = if v == 2 { ("-".to_string(), "x:20:3,x:21:x".to_string()) } else { ("20:3,21:1".to_string(), "-".to_string()) };
            step(ses, sut, &format!("wl kind={} denom=0 st={st} mem={mem} lv={lv}", wl_kind_idx(wk)));
            let c = CreateSpec { limit: 1, wl: Some(1001), ..CreateSpec::basic(g.cc[0], s, Some(e), None, None) };
            expect_ok(ses, sut, &c.line());
            expect_ok(ses, sut, &format!("t now={}", s - 1000));
            let m = if v == 2 { "mint sender=20 funds=0:60000000 stage=- alloc=3 proof=p.1001.0.x.20.3".to_string() } else { mint20(60_000_000) };
            expect_ok(ses, sut, &m);
            let second = step(ses, sut, &m);
            mk(ses, format!("special/uncapped-wl-limit/v{v}/second-{}", if second { "ok" } else { "err" }));
            expect_ok(ses, sut, &format!("upd_limit sender={ADMIN} funds=- n=2"));
            step(ses, sut, &m);
            step(ses, sut, &m);
            step(ses, sut, &m);
            expect_ok(ses, sut, &format!("t now={s}"));
            step(ses, sut, &mint20(100_000_000));
        }
        1 => {
            // proof hashes are mandatory for the Merkle minter while the whitelist is active (whatever the whitelist kind)
            ses.begin_case(sut, &h.line(g, &format!("special v={v} k=proof")));
            fund_std(ses, sut);
            step(ses, sut, &format!("wl kind=4 denom=0 st={}:{}:60000000:2:x mem=- lv=x:20:x,x:21:x", s - 1000, s - 100));
            step(ses, sut, &format!("wl kind=0 denom=0 st={}:{}:60000000:2:x mem=20:0,21:0 lv=-", s - 1000, s - 100));
            step(ses, sut, &format!("wl kind=1 denom=0 st={}:{}:60000000:0:x mem=20:2,21:1 lv=-", s - 1000, s - 100));
            let wl = [1002u64, 1003, 1001][v];
            let c = CreateSpec { wl: Some(wl), ..CreateSpec::basic(g.cc[0], s, Some(e), Some(5), None) };
            expect_ok(ses, sut, &c.line());
            // cross attachments: what each minter's `Config` dialect accepts
            for other in [1001u64, 1002, 1003] {
                step(ses, sut, &format!("set_wl sender={ADMIN} funds=- wl={other} valid=1"));
            }
            step(ses, sut, &format!("set_wl sender={ADMIN} funds=- wl={wl} valid=1"));
            expect_ok(ses, sut, &format!("t now={}", s - 1000));
            step(ses, sut, &mint20(60_000_000));
            step(ses, sut, "mint sender=20 funds=0:60000000 stage=- alloc=- proof=e");
            step(ses, sut, "mint sender=20 funds=0:60000000 stage=- alloc=- proof=p.1001.0.x.20.x");
            step(ses, sut, "mint sender=21 funds=0:60000000 stage=- alloc=- proof=p.1001.0.x.20.x");
            expect_ok(ses, sut, &format!("t now={}", s - 100));
            step(ses, sut, &mint20(100_000_000)); // nothing is active and the sale has not started
            expect_ok(ses, sut, &format!("t now={s}"));
            expect_ok(ses, sut, &mint20(100_000_000));
        }
        2 => {
            // an invalid developer address only matters when the fee is non-zero
            h.dev = None;
            h.feebps = 0;
            h.airbps = 0;
            ses.begin_case(sut, &h.line(g, &format!("special v={v} k=dev")));
            fund_std(ses, sut);
            expect_ok(ses, sut, &CreateSpec::basic(g.cc[0], s, Some(e), Some(9), None).line());
            expect_ok(ses, sut, &format!("t now={s}"));
            expect_ok(ses, sut, &mint20(100_000_000));
            expect_ok(ses, sut, &airdrop((0, 5_000_000)));
            expect_ok(ses, sut, "sudo_params feebps=1");
            step(ses, sut, &mint20(100_000_000)); // fee 10 000: the address is validated now
            expect_ok(ses, sut, "sudo_params feebps=0 airbps=1");
            expect_ok(ses, sut, &mint20(100_000_000));
            step(ses, sut, &airdrop((0, 5_000_000)));
            expect_ok(ses, sut, "sudo_params dev=30 feebps=1000");
            expect_ok(ses, sut, &airdrop((0, 5_000_000)));
            step(ses, sut, "mint sender=21 funds=0:100000000 stage=- alloc=- proof=-");
            expect_ok(ses, sut, "sudo_params dev=x feebps=0 airbps=0 airp=0:1");
            expect_ok(ses, sut, &airdrop((0, 1)));
            // price 1, 50 %: the fee rounds to zero -> no fee message, no validation
            expect_ok(ses, sut, "sudo_params airbps=5000");
            expect_ok(ses, sut, &airdrop((0, 1)));
        }
        3 => {
            // fee bps above 100 %: `checked_sub` fails
            h.feebps = 10_001;
            h.airbps = 20_000;
            ses.begin_case(sut, &h.line(g, &format!("special v={v} k=bps")));
            fund_std(ses, sut);
            expect_ok(ses, sut, &CreateSpec::basic(g.cc[0], s, Some(e), Some(9), None).line());
            expect_ok(ses, sut, &format!("t now={s}"));
            step(ses, sut, &mint20(100_000_000));
            step(ses, sut, &airdrop((0, 5_000_000)));
            expect_ok(ses, sut, "sudo_params feebps=10000 airbps=10000");
            expect_ok(ses, sut, &mint20(100_000_000));
            expect_ok(ses, sut, &airdrop((0, 5_000_000)));
            expect_ok(ses, sut, "sudo_params feebps=9999 airbps=1");
            expect_ok(ses, sut, &mint20(100_000_000));
            expect_ok(ses, sut, &airdrop((0, 5_000_000)));
            // fee 1: the 50 % / 20 % / rest split has zero parts -> the bank refuses the empty send
            expect_ok(ses, sut, "sudo_params airp=0:3 airbps=5000");
            step(ses, sut, &airdrop((0, 3)));
            expect_ok(ses, sut, "sudo_params airp=0:40 airbps=5000");
            step(ses, sut, &airdrop((0, 40)));
        }
        4 => {
            // creation fee and prices in the second denom
            h.cfee = (1, 1000);
            h.minp = (1, 700);
            h.airp = (1, 90);
            ses.begin_case(sut, &h.line(g, &format!("special v={v} k=denom1")));
            fund_std(ses, sut);
            for b in [ADMIN, 20, 21] {
                step(ses, sut, &format!("fund a={b} d=1 amt=100000000"));
            }
            let c = CreateSpec { funds: "1:1000".into(), price: (1, 1000), ..CreateSpec::basic(g.cc[1], s, Some(e), None, None) };
            step(ses, sut, &CreateSpec { funds: "0:1000".into(), ..c.clone() }.line());
            step(ses, sut, &CreateSpec { funds: "1:1001".into(), ..c.clone() }.line());
            step(ses, sut, &CreateSpec { funds: "1:999".into(), ..c.clone() }.line());
            step(ses, sut, &CreateSpec { price: (0, 1000), ..c.clone() }.line());
            expect_ok(ses, sut, &c.line());
            expect_ok(ses, sut, &format!("t now={s}"));
            step(ses, sut, &mint20(1000));
            expect_ok(ses, sut, "mint sender=20 funds=1:1000 stage=- alloc=- proof=-");
            step(ses, sut, &airdrop((0, 90)));
            expect_ok(ses, sut, &airdrop((1, 90)));
            expect_ok(ses, sut, "sudo_params airp=0:77");
            expect_ok(ses, sut, &airdrop((0, 77)));
            step(ses, sut, "sudo_params minp=1:5");
        }
        5 => {
            // airdrop price zero: no uncapped edition may be created, an existing one refuses `MintTo`
            h.airp = (0, 0);
            ses.begin_case(sut, &h.line(g, &format!("special v={v} k=airdrop0")));
            fund_std(ses, sut);
            let unc = CreateSpec::basic(g.cc[0], s, Some(e), None, None);
            step(ses, sut, &unc.line());
            if v == 0 {
                expect_ok(ses, sut, &CreateSpec::basic(g.cc[0], s, Some(e), Some(5), None).line());
                expect_ok(ses, sut, &format!("t now={s}"));
                expect_ok(ses, sut, &airdrop((0, 0)));
                step(ses, sut, &airdrop((0, 1)));
            } else {
                expect_ok(ses, sut, "sudo_params airp=0:10");
                expect_ok(ses, sut, &unc.line());
                expect_ok(ses, sut, &format!("t now={s}"));
                expect_ok(ses, sut, &airdrop((0, 10)));
                expect_ok(ses, sut, "sudo_params airp=0:0");
                step(ses, sut, &airdrop((0, 0)));
                step(ses, sut, &airdrop((0, 1)));
                expect_ok(ses, sut, &mint20(100_000_000));
                expect_ok(ses, sut, "sudo_params airp=1:0");
                step(ses, sut, &airdrop((0, 0)));
            }
        }
        6 => {
            // price zero: allowed for a capped edition only
            h.minp = (0, 0);
            ses.begin_case(sut, &h.line(g, &format!("special v={v} k=price0")));
            fund_std(ses, sut);
            let capped = v != 1;
            let c = CreateSpec { price: (0, 0), ..CreateSpec::basic(g.cc[0], s, Some(e), if capped { Some(5) } else { None }, None) };
            let ok = step(ses, sut, &c.line());
            mk(ses, format!("special/price0/create/{}/{}", if capped { "capped" } else { "uncapped" }, if ok { "ok" } else { "err" }));
            if !ok {
                expect_ok(ses, sut, &CreateSpec { price: (0, 1), ..c.clone() }.line());
            }
            step(ses, sut, &format!("upd_price sender={ADMIN} funds=- price=2"));
            step(ses, sut, &format!("upd_price sender={ADMIN} funds=- price=0"));
            expect_ok(ses, sut, &format!("t now={s}"));
            let p = sut.last.price.1;
            step(ses, sut, &mint20(p));
            step(ses, sut, &format!("upd_price sender={ADMIN} funds=- price=0"));
            let p = sut.last.price.1;
            step(ses, sut, &mint20(p));
            step(ses, sut, &mint20(1));
        }
        _ => {
            // the collection changes hands: later mints fail; renounced ownership is final
            ses.begin_case(sut, &h.line(g, &format!("special v={v} k=ownership")));
            fund_std(ses, sut);
            expect_ok(ses, sut, &CreateSpec::basic(g.cc[0], s, None, Some(7), None).line());
            expect_ok(ses, sut, &format!("t now={s}"));
            expect_ok(ses, sut, &mint20(100_000_000));
            let m = sut.last.maddr;
            expect_ok(ses, sut, &format!("c_own sender={m} act=transfer new=30"));
            expect_ok(ses, sut, &mint20(100_000_000)); // pending only
            expect_ok(ses, sut, "c_own sender=30 act=accept new=0");
            step(ses, sut, "mint sender=21 funds=0:100000000 stage=- alloc=- proof=-");
            step(ses, sut, &airdrop((0, 5_000_000)));
            step(ses, sut, &format!("upd_trading sender={ADMIN} funds=- t={}", s + 10));
            if v == 2 {
                expect_ok(ses, sut, "c_own sender=30 act=renounce new=0");
            } else {
                expect_ok(ses, sut, &format!("c_own sender=30 act=transfer new={m}"));
                expect_ok(ses, sut, &format!("c_own sender={m} act=accept new=0"));
            }
            step(ses, sut, "mint sender=21 funds=0:100000000 stage=- alloc=- proof=-");
            step(ses, sut, &format!("burn sender={ADMIN} funds=-"));
            step(ses, sut, "purge sender=30 funds=-");
        }
    }
    ses.end_case();
}

/// exact boundary instants of the clock rules: start ± 1 ns, end ± 1 ns, start + offset ± 1 ns — each visited at −1 / 0 / +1 ns
/// with the messages that read it
fn rules_case(ses: &mut Session, sut: &mut S, g: &mut G, idx: u64) {
    let v = (idx % 3) as usize;
    let now = GENESIS + 2_000_000 + g.rng.below(50_000);
    let s = now + 1000 + g.rng.below(500);
    let e = s + 50 + g.rng.below(400);
    let mut h = Hdr::std(now, g.mc[v], &g.cc);
    h.offset = *g.rng.pick(&[0u64, 1, 3, 60]);
    h.airp = (0, *g.rng.pick(&[1u128, 3_000_000]));
    if g.rng.chance(1, 4) {
        h.maxtok = *g.rng.pick(&[2u64, 4, 6]);
    }
    ses.begin_case(sut, &h.line(g, &format!("rules idx={idx}")));
    fund_all(ses, sut, g, false);
    let capped = g.rng.chance(1, 2);
    let ntok = if capped { Some((4 + g.rng.below(6)).min(h.maxtok)) } else { None };
    let mut c = valid_create(sut, g, s, Some(e), ntok, None);
    c.onchain = false;
    c.code = g.cc[(idx % 2) as usize];
    c.price = (0, 100_000_000);
    step(ses, sut, &c.line());
    let a = ADMIN;
    let bound = s + h.offset * SEC;
    // before the start: price may go up or down, start / end may move, trading time only up to the bound and not into the past
    step(ses, sut, &format!("upd_price sender={a} funds=- price=120000000"));
    step(ses, sut, &format!("upd_trading sender={a} funds=- t={}", bound + 1));
    step(ses, sut, &format!("upd_trading sender={a} funds=- t={bound}"));
    step(ses, sut, &format!("upd_trading sender={a} funds=- t={}", now.saturating_sub(1)));
    step(ses, sut, &format!("upd_trading sender={a} funds=- t={now}"));
    step(ses, sut, &format!("upd_start sender={a} funds=- t={}", e + 1));
    step(ses, sut, &format!("upd_start sender={a} funds=- t={e}"));
    step(ses, sut, &format!("upd_start sender={a} funds=- t={s}"));
    step(ses, sut, &format!("upd_end sender={a} funds=- t={}", s - 1));
    step(ses, sut, &format!("upd_end sender={a} funds=- t={s}"));
    step(ses, sut, &format!("upd_end sender={a} funds=- t={e}"));
    for d in [0u64, 1, 2] {
        let t = s - 1 + d;
        step(ses, sut, &format!("t now={t}"));
        step(ses, sut, &format!("upd_price sender={a} funds=- price=120000000"));
        step(ses, sut, &format!("upd_start sender={a} funds=- t={s}"));
        let b = *g.rng.pick(&BUYERS);
        do_mint(ses, sut, g, b);
        step(ses, sut, &format!("upd_trading sender={a} funds=- t={}", t.max(bound.min(t + 5))));
        step(ses, sut, &format!("upd_end sender={a} funds=- t={t}"));
        step(ses, sut, &format!("upd_end sender={a} funds=- t={e}"));
    }
    step(ses, sut, &format!("upd_price sender={a} funds=- price=119999999"));
    for _ in 0..3 {
        rand_op(ses, sut, g);
    }
    // the end
    let e = sut.last.end.unwrap_or(e);
    for d in [0u64, 1, 2] {
        let t = e - 1 + d;
        if t < sut.last.now {
            continue;
        }
        step(ses, sut, &format!("t now={t}"));
        let b = *g.rng.pick(&BUYERS);
        do_mint(ses, sut, g, b);
        step(ses, sut, &format!("mint_to sender={a} funds={} rcpt=21", funds_str(Some(sut.last.airp))));
        step(ses, sut, &format!("upd_price sender={a} funds=- price={}", sut.last.price.1.saturating_sub(1)));
        if d != 1 || g.rng.chance(1, 2) {
            step(ses, sut, &format!("upd_end sender={a} funds=- t={}", t.max(e)));
        }
        step(ses, sut, &format!("purge sender={STRANGER} funds=-"));
        if d == 2 || g.rng.chance(1, 3) {
            step(ses, sut, &format!("burn sender={a} funds=-"));
        }
    }
    step(ses, sut, &format!("purge sender={STRANGER} funds=-"));
    for _ in 0..4 {
        rand_op(ses, sut, g);
    }
    ses.end_case();
}

fn compatible(v: usize) -> Vec<WlKind> {
    match v {
        1 => vec![WlKind::Flex, WlKind::TieredFlex],
        2 => vec![WlKind::Merkle, WlKind::TieredMerkle, WlKind::Merkle, WlKind::TieredMerkle, WlKind::Plain, WlKind::Tiered],
        _ => vec![WlKind::Plain, WlKind::Tiered],
    }
}

fn random_case(ses: &mut Session, sut: &mut S, g: &mut G, idx: u64) {
    let v = (idx % 3) as usize;
    let early = g.rng.chance(1, 60);
    let now = if early { 5 + g.rng.below(1000) } else { GENESIS + 1_000_000 + g.rng.below(100_000) };
    let s = now + 1500 + g.rng.below(2000);
    let mut h = Hdr::std(now, g.mc[v], &g.cc);
    // which code the factory starts with
    let code_mode = g.rng.below(20);
    match code_mode {
        0 | 1 => h.code = g.mc[(v + 1 + g.rng.below(2) as usize) % 3],
        2 => h.code = 9999,
        3 => h.code = *g.rng.pick(&g.non_minter),
        _ => {}
    }
    let second_denom = g.rng.chance(1, 4);
    if g.rng.chance(1, 6) {
        h.minp = *g.rng.pick(&[(0u64, 0u128), (1, 1000), (0, 1), (0, 60_000_500)]);
    }
    if h.minp.0 == 1 || second_denom && g.rng.chance(1, 3) {
        h.minp.0 = 1;
    }
    if g.rng.chance(1, 8) {
        h.cfee = *g.rng.pick(&[(1u64, 1000u128), (0, 2), (0, 1), (0, 0), (0, 3), (1, 0), (1, 1000)]);
    }
    if g.rng.chance(1, 5) {
        h.feebps = *g.rng.pick(&[0u64, 1, 500, 9999, 10_000, 10_001]);
    }
    h.offset = *g.rng.pick(&[0u64, 1, 60, 604_800, 604_800]);
    if g.rng.chance(1, 4) {
        h.maxtok = *g.rng.pick(&[3u64, 5, 12, 150]);
    }
    if g.rng.chance(1, 6) {
        h.maxper = *g.rng.pick(&[1u64, 2, 3, 5]);
    }
    if g.rng.chance(1, 3) {
        h.airp = *g.rng.pick(&[(0u64, 0u128), (0, 0), (0, 1), (0, 7_000_000), (0, 50_000_000), (0, 3), (1, 40)]);
    }
    if g.rng.chance(1, 4) {
        h.airbps = *g.rng.pick(&[0u64, 1, 5000, 10_001]);
    }
    if g.rng.chance(1, 8) {
        h.dev = *g.rng.pick(&[None, None, Some(STRANGER), Some(ADMIN), Some(1)]);
        if h.dev.is_none() && g.rng.chance(1, 2) {
            h.feebps = 0;
        }
    }
    if g.rng.chance(1, 15) {
        h.frozen = true;
    }
    if g.rng.chance(1, 10) {
        h.allowed = match g.rng.below(4) {
            0 => vec![],
            1 => vec![g.cc[0], g.cc[0], g.mc[0]],
            2 => vec![g.cc[1], 9999, g.cc[1], g.cc[2]],
            _ => vec![g.cc[3]],
        };
    }
    let needs_d1 = h.minp.0 == 1 || h.cfee.0 == 1 || h.airp.0 == 1 || second_denom;
    ses.begin_case(sut, &h.line(g, &format!("random idx={idx}")));
    fund_all(ses, sut, g, needs_d1);

    // whitelists
    let nwl = g.rng.below(4);
    let comp = compatible(v);
    for k in 0..nwl {
        let wk = if g.rng.chance(3, 4) { *g.rng.pick(&comp) } else { *g.rng.pick(&ALL_WL) };
        let shape = g.rng.below(8);
        let shift = g.rng.below(40);
        let wins: Vec<(u64, u64)> = windows(shape, s).iter().map(|(a, b)| (a + shift, b + shift)).collect();
        let wd = if g.rng.chance(1, 10) { 1 - h.minp.0 } else { h.minp.0 };
        let bp = if g.rng.chance(3, 4) { h.minp.1 + 10_000_000 } else { *g.rng.pick(&[60_000_000u128, 50_000_000, 49_999_999, 0, 120_000_000]) };
        let l = wl_line(wk, wd, &wins, bp, &mut g.rng, k);
        step(ses, sut, &l);
    }
    // ops without a minter
    if g.rng.chance(1, 4) {
        for _ in 0..(1 + g.rng.below(3)) {
            rand_op(ses, sut, g);
        }
    }
    if g.rng.chance(1, 3) {
        do_sudo_params(ses, sut, g);
    }
    // the edition: capped / uncapped, with / without an end time
    let shape = g.rng.below(10);
    let end = if shape < 3 { None } else { Some(s + *g.rng.pick(&[1u64, 40, 300, 700, 1500, 2600])) };
    // creation attempts: faults first, then repairs of the factory, then a plainly valid one
    for attempt in 0..5 {
        if sut.last.exists {
            break;
        }
        let l = sut.last.clone();
        let keys: Vec<u64> = sut.wls.keys().cloned().collect();
        let wl = if !keys.is_empty() && g.rng.chance(2, 3) { Some(*g.rng.pick(&keys)) } else { None };
        let ntok = if shape < 3 || shape < 6 { Some((2 + g.rng.below(10)).min(l.maxtok.max(1))) } else { None };
        let mut c = valid_create(sut, g, s, end, ntok, wl);
        if attempt < 2 && g.rng.chance(1, 3) {
            let what = mutate_create(sut, g, &mut c);
            ses.count(&format!("create-mutation:{what}"));
        }
        if attempt >= 3 {
            c.wl = None;
        }
        if step(ses, sut, &c.line()) {
            break;
        }
        // repair what the factory refuses
        let l = sut.last.clone();
        let cur_v = g.mc.iter().position(|c| *c == l.f_code);
        if cur_v.is_none() || (attempt >= 1 && cur_v != Some(v)) {
            step(ses, sut, &format!("sudo_params code={}", g.mc[v]));
        }
        if l.f_frozen {
            step(ses, sut, "sudo_params frozen=0");
        }
        if !l.f_allowed.iter().any(|c| g.cc.contains(c)) {
            step(ses, sut, &format!("sudo_params addc={}", fmt_list(&g.cc)));
        }
        if l.cfee.1 < 2 {
            step(ses, sut, "sudo_params cfee=0:5000000000");
        }
        if attempt >= 1 && l.airp.1 == 0 && ntok.is_none() {
            step(ses, sut, "sudo_params airp=0:4000000");
        }
    }
    // a late switch of the factory's code id must not change what the existing minter is
    if sut.last.exists && g.rng.chance(1, 6) {
        step(ses, sut, &format!("sudo_params code={}", g.mc[(v + 1) % 3]));
    }
    let steps = 14 + g.rng.below(22);
    let sweep = g.rng.chance(1, 4);
    if sweep && sut.last.exists {
        // boundary sweep: t-1, t, t+1 around every instant, in order
        let mut points: Vec<u64> = vec![];
        for t in interesting_instants(sut) {
            points.extend([t.saturating_sub(1), t, t + 1]);
        }
        points.sort();
        points.dedup();
        let mut n = 0;
        for p in points {
            if p < sut.last.now || n > 12 {
                continue;
            }
            n += 1;
            step(ses, sut, &format!("t now={p}"));
            battery(ses, sut, g);
            if g.rng.chance(1, 3) {
                rand_op(ses, sut, g);
            }
        }
    } else {
        for _ in 0..steps {
            rand_op(ses, sut, g);
            if sut.last.exists && phase_of(&sut.last) >= 3 && g.rng.chance(1, 4) {
                break;
            }
        }
    }
    // finale: sell out through airdrops / run past the end, then purge / burn / mint on the closed minter
    if sut.last.exists && g.rng.chance(1, 2) {
        let small = matches!(sut.last.left, Some(n) if n <= 14);
        if small && g.rng.chance(2, 3) {
            let mut guard = 0;
            while sut.last.left != Some(0) && guard < 16 {
                guard += 1;
                let l = sut.last.clone();
                let ok = step(ses, sut, &format!("mint_to sender={} funds={} rcpt={}", l.admin, funds_str(Some(l.airp)), g.rng.pick(&[20u64, 21, 22])));
                if !ok {
                    break;
                }
            }
        } else if let Some(e) = sut.last.end {
            let t = (e + g.rng.below(2)).max(sut.last.now);
            step(ses, sut, &format!("t now={t}"));
            step(ses, sut, &format!("purge sender={STRANGER} funds=-"));
            step(ses, sut, &format!("t now={}", t + 1));
        }
        step(ses, sut, &format!("purge sender={STRANGER} funds=-"));
        let l = sut.last.clone();
        step(ses, sut, &format!("burn sender={} funds=-", l.admin));
        step(ses, sut, &format!("purge sender={STRANGER} funds=-"));
        let b = pick_buyer(sut, g);
        do_mint(ses, sut, g, b);
        step(ses, sut, &format!("mint_to sender={} funds={} rcpt=20", l.admin, funds_str(Some(l.airp))));
    }
    ses.end_case();
}

fn main() {
    let mut ses = Session::new("compoe");
    let mut sut = S::new();
    if ses.maybe_replay(&mut sut) {
        ses.finish(&mut sut);
    }
    let w = World::new(GENESIS);
    let mut g = G {
        rng: ses.rng.fork(),
        mc: w.codes.minters[6..9].to_vec(),
        cc: vec![w.codes.sg721_base, w.codes.sg721_updatable, w.codes.sg721_nt, w.codes.sg721_metadata_onchain],
        non_minter: vec![w.codes.sg721_base, w.codes.open_edition_factory, w.codes.wl[0], w.codes.minters[0]],
    };
    drop(w);
    // coverage floor
    for v in 0..3 {
        for op in ["create", "mint", "mint_to", "set_wl", "purge", "burn", "upd_price", "upd_start", "upd_end", "upd_trading", "upd_limit", "sudo_status"] {
            ses.require(format!("v{v}/{op}/ok/"));
        }
        ses.require(format!("v{v}/inst_direct/err/"));
        ses.require(format!("edition/uncapped/create/ok/v{v}"));
        ses.require(format!("edition/uncapped/mint/ok/v{v}"));
        ses.require(format!("edition/capped/soldout/v{v}"));
        ses.require(format!("edition/onchain/mint/ok/v{v}"));
    }
    for k in 0..6 {
        ses.require(format!("attach/wl{k}/create/ok/"));
        ses.require(format!("attach/wl{k}/set_wl/ok/"));
        ses.require(format!("wlmint-ok/wl{k}/"));
    }
    ses.require("attach/wl6/create/err/");
    ses.require("attach/wl6/set_wl/err/");
    for op in ["c_transfer", "c_burn", "c_trading", "c_creator", "c_freeze"] {
        ses.require(format!("*/{op}/ok/*"));
    }
    for act in ["transfer", "accept"] {
        ses.require(format!("*/{act}*"));
    }
    ses.require("*/sudo_params/ok/*");
    ses.require("*/sudo_params/err/*");
    ses.require("merkle-missing-proof/");
    ses.require("special/uncapped-wl-limit/v1/second-err");

    for v in 0..3 {
        for shape in 0..3 {
            tour(&mut ses, &mut sut, &mut g, v, shape);
        }
    }
    for v in 0..3 {
        for ck in 0..4 {
            matrix_case(&mut ses, &mut sut, &mut g, v, false, ck);
            matrix_case(&mut ses, &mut sut, &mut g, v, true, ck);
        }
        for k in 0..8 {
            special_case(&mut ses, &mut sut, &mut g, v, k);
        }
    }
    let n = ses.scale(600, 6000);
    for idx in 0..n {
        random_case(&mut ses, &mut sut, &mut g, idx);
        if idx % 20 == 7 {
            rules_case(&mut ses, &mut sut, &mut g, idx / 20);
        }
    }
    ses.finish(&mut sut);
}
//GEN-END
