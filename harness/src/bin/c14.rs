//! C14 — Merkle whitelist membership is complete and sound.
//!
//! The REAL `whitelist-merkletree` (SHA-256) and `tiered-whitelist-merkletree` (BLAKE3 truncated to 16 bytes) contracts
//! and the three Merkle minters run in a cw-multi-test `App`. Trees and proofs come from `rs_merkle` with LOCAL sorting
//! hashers (copies of the shape of the repo's test hasher — not the repo's own, so that a change to the contract that is
//! mirrored in the repo's test module cannot silently move the monitors with it); a second, hand-rolled layered builder
//! computes every root again and the inner-node preimages. Every line is also executed by the Lean driver
//! (`LP.Merkle`, `LP.MerkleWl`, Lean SHA-256 / BLAKE3).
//!
//! Protocol and the primary / drift split: see `lean/LaunchpadModel/Driver/C14.lean`.
//!
//! What the monitors know independently of the code under test:
//! * the root(s) the harness SENT at instantiate (`sent_roots`) and the member list each root commits to (`by_root`);
//! * each member's own `rs_merkle` proof;
//! * its own count of the whitelist mints it saw accepted per `(sender, window)` (`ghost_mints`);
//! * the message surface, enumerated at RUN TIME from `schema_for!(ExecuteMsg)`: a variant this harness has no protocol
//!   op for is SENT (raw JSON, arguments from the schema, another VALID root wherever a string is wanted) under the same
//!   monitors, so a newly dispatched `update_merkle_tree` yields a replay instead of a harness that no longer compiles.
use std::collections::{BTreeMap, BTreeSet, HashMap, HashSet};

use cosmwasm_std::{coin, Addr, BlockInfo, Empty, Timestamp};
use cw_multi_test::{BankSudo, Executor, SudoMsg};
use lp_harness::boxes::{self, App};
use lp_harness::world::*;
use lp_harness::*;
use rs_merkle::{Hasher, MerkleTree};
use serde_json::{json, Value};

const GENESIS: u64 = sg_utils::GENESIS_MINT_START_TIME;
/// public sale of every minter starts here (far beyond every whitelist window of a case): public mints are closed
const HORIZON: u64 = GENESIS + 1_000_000_000_000_000;
/// the whitelist price the harness configures (what it attaches to a mint is what the minter QUOTES, see `op_mint`)
const WL_PRICE: u128 = 100_000_000;
const CREATOR: u64 = 10;

/// creation fee of the whitelist contract, from the crate itself (the Lean side uses the regenerated constant)
fn creation_fee(tiered: bool) -> u128 {
    if tiered {
        tiered_whitelist_merkletree::contract::CREATION_FEE
    } else {
        whitelist_mtree::contract::CREATION_FEE
    }
}

// ------------------------------------------------------------------------------------------------ trees

fn sha256_32(data: &[u8]) -> [u8; 32] {
    use sha2::Digest;
    sha2::Sha256::digest(data).into()
}
fn blake3_16(data: &[u8]) -> [u8; 16] {
    blake3::hash(data).as_bytes()[..16].try_into().unwrap()
}

/// local SHA-256 sorting hasher (same shape as `whitelist-merkletree/src/tests/hasher.rs`, deliberately NOT imported)
#[derive(Clone)]
struct SortingSha256Hasher {}
impl Hasher for SortingSha256Hasher {
    type Hash = [u8; 32];
    fn concat_and_hash(left: &Self::Hash, right: Option<&Self::Hash>) -> Self::Hash {
        match right {
            Some(right_node) => {
                let mut both = [left, right_node];
                both.sort_unstable();
                let mut concatenated: Vec<u8> = (*both[0]).into();
                concatenated.append(&mut (*both[1]).into());
                Self::hash(&concatenated)
            }
            None => *left,
        }
    }
    fn hash(data: &[u8]) -> Self::Hash {
        sha256_32(data)
    }
}

/// BLAKE3/16 twin (the tiered crate ships no hasher of its own)
#[derive(Clone)]
struct SortingBlake3Hasher {}
impl Hasher for SortingBlake3Hasher {
    type Hash = [u8; 16];
    fn concat_and_hash(left: &Self::Hash, right: Option<&Self::Hash>) -> Self::Hash {
        match right {
            Some(right_node) => {
                let mut both = [left, right_node];
                both.sort_unstable();
                let mut concatenated: Vec<u8> = (*both[0]).into();
                concatenated.append(&mut (*both[1]).into());
                Self::hash(&concatenated)
            }
            None => *left,
        }
    }
    fn hash(data: &[u8]) -> Self::Hash {
        blake3_16(data)
    }
}

enum Tree {
    Sha(MerkleTree<SortingSha256Hasher>),
    B3(MerkleTree<SortingBlake3Hasher>),
}
impl Tree {
    fn build(tiered: bool, members: &[String]) -> Tree {
        if tiered {
            let leaves: Vec<[u8; 16]> = members.iter().map(|m| SortingBlake3Hasher::hash(m.as_bytes())).collect();
            Tree::B3(MerkleTree::<SortingBlake3Hasher>::from_leaves(&leaves))
        } else {
            let leaves: Vec<[u8; 32]> = members.iter().map(|m| SortingSha256Hasher::hash(m.as_bytes())).collect();
            Tree::Sha(MerkleTree::<SortingSha256Hasher>::from_leaves(&leaves))
        }
    }
    fn root_hex(&self) -> Option<String> {
        match self {
            Tree::Sha(t) => t.root_hex(),
            Tree::B3(t) => t.root_hex(),
        }
    }
    fn proof_hex(&self, i: usize) -> Vec<String> {
        match self {
            Tree::Sha(t) => t.proof(&[i]).proof_hashes_hex(),
            Tree::B3(t) => t.proof(&[i]).proof_hashes_hex(),
        }
    }
}

/// the layered construction once more, by hand (no rs_merkle): root and the preimage of every inner node
fn own_layers(tiered: bool, members: &[String]) -> (Option<Vec<u8>>, HashSet<Vec<u8>>) {
    let h = |d: &[u8]| -> Vec<u8> {
        if tiered {
            blake3_16(d).to_vec()
        } else {
            sha256_32(d).to_vec()
        }
    };
    let mut layer: Vec<Vec<u8>> = members.iter().map(|m| h(m.as_bytes())).collect();
    let mut inner = HashSet::new();
    if layer.is_empty() {
        return (None, inner);
    }
    while layer.len() > 1 {
        let mut up = Vec::with_capacity((layer.len() + 1) / 2);
        for pair in layer.chunks(2) {
            if pair.len() == 2 {
                let (x, y) = if pair[0] <= pair[1] { (&pair[0], &pair[1]) } else { (&pair[1], &pair[0]) };
                let mut pre = x.clone();
                pre.extend_from_slice(y);
                up.push(h(&pre));
                inner.insert(pre);
            } else {
                up.push(pair[0].clone());
            }
        }
        layer = up;
    }
    (Some(layer.remove(0)), inner)
}

/// what the harness knows about a list it committed to
struct Committed {
    slot: u64,
    set: HashSet<String>,
    /// preimages of the inner nodes (the strings the partial soundness theorem excepts: no leaf/inner domain separation)
    inner: HashSet<Vec<u8>>,
}

// ------------------------------------------------------------------------------------------------ the message surface (run time)

/// the `ExecuteMsg` variants of one crate as enumerated from its JSON schema at run time
struct Surface {
    /// (variant name, schema of its payload)
    variants: Vec<(String, Value)>,
    defs: Value,
}

/// variant names this harness has a protocol op for
fn known_variants(tiered: bool) -> &'static [(&'static str, &'static str)] {
    if tiered {
        &[("update_stage_config", "update_stage"), ("update_admins", "update_admins"), ("freeze", "freeze")]
    } else {
        &[("update_start_time", "update_start"), ("update_end_time", "update_end"), ("update_admins", "update_admins"), ("freeze", "freeze")]
    }
}

fn surface_of(tiered: bool) -> Surface {
    let root = if tiered {
        serde_json::to_value(cosmwasm_schema::schema_for!(tiered_whitelist_merkletree::msg::ExecuteMsg))
    } else {
        serde_json::to_value(cosmwasm_schema::schema_for!(whitelist_mtree::msg::ExecuteMsg))
    }
    .unwrap_or(Value::Null);
    let mut variants = vec![];
    for alt in root["oneOf"].as_array().or(root["anyOf"].as_array()).cloned().unwrap_or_default() {
        if let Some(names) = alt["enum"].as_array() {
            for n in names {
                if let Some(n) = n.as_str() {
                    variants.push((n.to_string(), Value::Null));
                }
            }
        } else if let Some(props) = alt["properties"].as_object() {
            for (k, sch) in props {
                variants.push((k.clone(), sch.clone()));
            }
        }
    }
    Surface { variants, defs: root["definitions"].clone() }
}

struct Fill<'a> {
    defs: &'a Value,
    /// put wherever a string is wanted: another VALID root, so that a root-writing message gets past `verify_merkle_root`
    text: &'a str,
    /// length of string arrays
    n: usize,
    int: u64,
    /// fill optional fields too
    opts: bool,
}
impl<'a> Fill<'a> {
    fn is_stringy(&self, schema: &Value, depth: u32) -> bool {
        if depth > 10 {
            return false;
        }
        if let Some(r) = schema["$ref"].as_str() {
            let name = r.rsplit('/').next().unwrap_or("");
            return self.is_stringy(&self.defs[name], depth + 1);
        }
        schema["type"] == "string"
    }
    /// a JSON value the schema admits: required fields (all fields with `opts`), numbers = `int` (as string for the
    /// cosmwasm number types), strings = `text`, string arrays = `[text; n]`
    fn value(&self, schema: &Value, depth: u32) -> Value {
        if depth > 10 {
            return Value::Null;
        }
        if let Some(r) = schema["$ref"].as_str() {
            let name = r.rsplit('/').next().unwrap_or("");
            if ["Uint64", "Uint128", "Uint256", "Timestamp", "Decimal", "Int64", "Int128"].contains(&name) {
                return json!(self.int.to_string());
            }
            return self.value(&self.defs[name], depth + 1);
        }
        for key in ["allOf", "anyOf", "oneOf"] {
            if let Some(a) = schema[key].as_array() {
                if key != "allOf" && a.iter().any(|x| x["type"] == "null") {
                    if !self.opts {
                        return Value::Null;
                    }
                    if let Some(first) = a.iter().find(|x| x["type"] != "null") {
                        return self.value(first, depth + 1);
                    }
                    return Value::Null;
                }
                if let Some(first) = a.first() {
                    return self.value(first, depth + 1);
                }
            }
        }
        if let Some(e) = schema["enum"].as_array() {
            return e.first().cloned().unwrap_or(Value::Null);
        }
        let ty = match &schema["type"] {
            Value::String(s) => s.clone(),
            Value::Array(a) => {
                if a.iter().any(|x| x == "null") && !self.opts {
                    return Value::Null;
                }
                a.iter().filter_map(|x| x.as_str()).find(|x| *x != "null").unwrap_or("object").to_string()
            }
            _ => "object".to_string(),
        };
        match ty.as_str() {
            "object" => {
                let mut o = serde_json::Map::new();
                let keys: Vec<String> = if self.opts {
                    schema["properties"].as_object().map(|p| p.keys().cloned().collect()).unwrap_or_default()
                } else {
                    schema["required"].as_array().cloned().unwrap_or_default().iter().filter_map(|k| k.as_str().map(String::from)).collect()
                };
                for k in keys {
                    o.insert(k.clone(), self.value(&schema["properties"][&k], depth + 1));
                }
                Value::Object(o)
            }
            "array" => {
                let items = &schema["items"];
                if self.is_stringy(items, depth + 1) {
                    json!(vec![self.text.to_string(); self.n])
                } else if self.opts {
                    json!([self.value(items, depth + 1)])
                } else {
                    json!([])
                }
            }
            "string" => json!(self.text),
            "integer" | "number" => json!(self.int),
            "boolean" => json!(false),
            _ => Value::Null,
        }
    }
}

/// The JSON for `exec op=raw name=<variant> shape=<k> root=<hex> nroots=<n>`: schema-guided when the variant exists in the
/// crate's `ExecuteMsg`, otherwise a guess at how `execute_update_merkle_tree` (present in both sources, not dispatched)
/// would be exposed.
fn raw_message(surface: &Surface, name: &str, shape: u64, root: &str, nroots: usize, now: u64) -> Value {
    if let Some((_, sch)) = surface.variants.iter().find(|(n, _)| n == name) {
        if sch.is_null() {
            return json!(name); // unit variant
        }
        let f = Fill { defs: &surface.defs, text: root, n: if shape & 2 == 2 { 1 } else { nroots.max(1) }, int: now, opts: shape & 1 == 1 };
        let mut o = serde_json::Map::new();
        o.insert(name.to_string(), f.value(sch, 0));
        return Value::Object(o);
    }
    let roots = vec![root.to_string(); nroots.max(1)];
    let body = match shape {
        0 => json!({"merkle_root": root, "merkle_tree_uri": null}),
        1 => json!({"merkle_roots": roots, "merkle_tree_uris": null}),
        2 => json!(root),
        3 => json!(roots),
        4 => json!({"merkle_root": root, "merkle_tree_uri": "ipfs://tree"}),
        5 => json!({"merkle_roots": roots, "merkle_tree_uris": ["ipfs://tree"]}),
        _ => json!({}),
    };
    let mut o = serde_json::Map::new();
    o.insert(name.to_string(), body);
    Value::Object(o)
}

// ------------------------------------------------------------------------------------------------ Sut

struct S {
    tiered: bool,
    pending: Vec<String>,
    slots: BTreeMap<u64, (Tree, Vec<String>)>,
    /// lower-case root hex -> what the harness committed to with it
    by_root: HashMap<String, Committed>,
    app: Option<App>,
    wl: Option<Addr>,
    wl_code: u64,
    minter: Option<Addr>,
    /// the root(s) of the `inst` line, exactly as sent
    sent_roots: Vec<String>,
    /// (sender, window key) -> whitelist mints the harness saw accepted
    ghost_mints: HashMap<(String, u64), u64>,
    height: u64,
    viol: Option<(String, String)>,
    surface: [Surface; 2],
    /// classes / notes for the session (drained by `Ctx::step`)
    marks: Vec<String>,
    notes: BTreeSet<String>,
}

fn no_surface() -> [Surface; 2] {
    [Surface { variants: vec![], defs: Value::Null }, Surface { variants: vec![], defs: Value::Null }]
}

fn fresh(tiered: bool, surface: [Surface; 2]) -> S {
    S {
        tiered,
        pending: vec![],
        slots: BTreeMap::new(),
        by_root: HashMap::new(),
        app: None,
        wl: None,
        wl_code: 0,
        minter: None,
        sent_roots: vec![],
        ghost_mints: HashMap::new(),
        height: 100,
        viol: None,
        surface,
        marks: vec![],
        notes: BTreeSet::new(),
    }
}

fn ts(n: u64) -> String {
    n.to_string()
}
fn str_list(v: &str) -> Vec<String> {
    if v == "-" {
        vec![]
    } else {
        v.split(',').map(|s| s.to_string()).collect()
    }
}
fn fmt_strs(v: &[String]) -> String {
    if v.is_empty() {
        "-".into()
    } else {
        v.join(",")
    }
}
fn hex_arg(line: &str, key: &str) -> Option<String> {
    let h = kv(line, key)?;
    String::from_utf8(hex::decode(h).ok()?).ok()
}
fn is_hex_of(s: &str, nbytes: usize) -> bool {
    s.len() == 2 * nbytes && s.bytes().all(|c| c.is_ascii_hexdigit())
}
fn leaf_string(stage: Option<u64>, sender: &str, alloc: Option<u64>) -> String {
    // independent re-statement of the minters' `format!` arms
    let mut s = String::new();
    if let Some(st) = stage {
        s.push_str(&st.to_string());
    }
    s.push_str(sender);
    if let Some(a) = alloc {
        s.push_str(&a.to_string());
    }
    s
}

impl S {
    fn n(&self) -> usize {
        if self.tiered {
            16
        } else {
            32
        }
    }
    fn cname(&self) -> &'static str {
        if self.tiered {
            "tiered-whitelist-merkletree"
        } else {
            "whitelist-merkletree"
        }
    }
    fn set_time(&mut self, now: u64) {
        self.height += 1;
        let h = self.height;
        if let Some(app) = self.app.as_mut() {
            app.set_block(BlockInfo { height: h, time: Timestamp::from_nanos(now), chain_id: "stargaze-1".into() });
        }
    }
    fn mint_to(&mut self, to: &str, amt: u128, d: &str) {
        if amt == 0 {
            return;
        }
        let app = self.app.as_mut().unwrap();
        let _ = catch(|| app.sudo(SudoMsg::Bank(BankSudo::Mint { to_address: to.to_string(), amount: vec![coin(amt, d)] })));
    }
    fn query(&self, c: &Addr, q: &Value) -> Result<Value, String> {
        let app = self.app.as_ref().unwrap();
        catch(|| app.wrap().query_wasm_smart::<Value>(c.clone(), q).map_err(|e| e.to_string()))?
    }

    fn roots(&self) -> Result<Vec<String>, String> {
        let wl = self.wl.clone().unwrap();
        if self.tiered {
            let v = self.query(&wl, &json!({"merkle_roots": {}}))?;
            Ok(v["merkle_roots"].as_array().ok_or("no merkle_roots")?.iter().map(|x| x.as_str().unwrap_or("?").to_string()).collect())
        } else {
            let v = self.query(&wl, &json!({"merkle_root": {}}))?;
            Ok(vec![v["merkle_root"].as_str().ok_or("no merkle_root")?.to_string()])
        }
    }
    fn admins(&self) -> (Vec<u64>, bool) {
        match self.query(&self.wl.clone().unwrap(), &json!({"admin_list": {}})) {
            Ok(v) => (
                v["admins"].as_array().map(|a| a.iter().map(|x| addr_id(x.as_str().unwrap_or(""))).collect()).unwrap_or_default(),
                v["mutable"].as_bool().unwrap_or(false),
            ),
            Err(_) => (vec![], false),
        }
    }
    /// (start, end, pal, denom) of every stage, through the crate's typed `state::CONFIG` (the `Stages` query indexes
    /// MERKLE_ROOTS and panics when there are fewer roots than stages)
    fn stages(&self) -> Vec<(u64, u64, u64, u64)> {
        let app = self.app.as_ref().unwrap();
        let st = app.contract_storage(&self.wl.clone().unwrap());
        // read as untyped JSON: no dependence on the struct's field layout beyond the four field names used here
        let raw: serde_json::Value = st.get(tiered_whitelist_merkletree::state::CONFIG.as_slice()).and_then(|b| serde_json::from_slice(&b).ok()).unwrap_or(serde_json::Value::Null);
        let ts = |v: &serde_json::Value| v.as_str().and_then(|x| x.parse::<u64>().ok()).unwrap_or(0);
        raw["stages"]
            .as_array()
            .map(|a| a.iter().map(|s| (ts(&s["start_time"]), ts(&s["end_time"]), s["per_address_limit"].as_u64().unwrap_or(0), denom_id(s["mint_price"]["denom"].as_str().unwrap_or("")))).collect())
            .unwrap_or_default()
    }
    /// (start, end, pal) of the plain whitelist, through its `Config` query
    fn plain_cfg(&self) -> (u64, u64, u64, bool) {
        match self.query(&self.wl.clone().unwrap(), &json!({"config": {}})) {
            Ok(c) => (
                c["start_time"].as_str().and_then(|s| s.parse().ok()).unwrap_or(0),
                c["end_time"].as_str().and_then(|s| s.parse().ok()).unwrap_or(0),
                c["per_address_limit"].as_u64().unwrap_or(0),
                c["is_active"].as_bool().unwrap_or(false),
            ),
            Err(_) => (0, 0, 0, false),
        }
    }
    /// The property's notion of "window in force" evaluated by the harness on the configured windows:
    /// tiered = the first stage whose window contains `now`, both ends inclusive → `Some(i)`;
    /// plain  = `start ≤ now < end` → `Some(0)`. (`None` = no window.) Used by the monitors only.
    fn window_idx(&self, now: u64) -> Option<usize> {
        if self.tiered {
            self.stages().iter().position(|s| s.0 <= now && now <= s.1)
        } else {
            let (s, e, _, _) = self.plain_cfg();
            if s <= now && now < e {
                Some(0)
            } else {
                None
            }
        }
    }
    /// the minter-side key of the window in force (0 = plain list, i+1 = tiered stage i)
    fn window_key(&self, now: u64) -> Option<u64> {
        self.window_idx(now).map(|i| if self.tiered { i as u64 + 1 } else { 0 })
    }
    /// what the contract itself reports as active (primary column `active=`)
    fn reported_active(&self) -> String {
        let wl = self.wl.clone().unwrap();
        if self.tiered {
            match self.query(&wl, &json!({"active_stage_id": {}})) {
                Ok(v) => v.as_u64().map(|x| x.to_string()).unwrap_or_else(|| "?".into()),
                Err(_) => "query-failed".into(),
            }
        } else {
            (self.plain_cfg().3 as u8).to_string()
        }
    }
    fn obs_primary(&self) -> String {
        let roots = self.roots().unwrap_or_else(|_| vec!["query-failed".to_string()]);
        format!("roots={} active={}", fmt_strs(&roots), self.reported_active())
    }
    /// (drift column, witness fields) — the configuration C11/C12/C13 own
    fn obs_cfg(&self) -> (String, String) {
        let (admins, mutable) = self.admins();
        if self.tiered {
            let stages = self.stages();
            let st = if stages.is_empty() { "-".to_string() } else { stages.iter().map(|s| format!("{}:{}:{}:{}", s.0, s.1, s.2, s.3)).collect::<Vec<_>>().join(";") };
            (
                format!("stages={} admins={} mut={}", st, fmt_list(&admins), mutable as u8),
                format!("w_stages={} w_admins={} w_mut={}", st, fmt_list(&admins), mutable as u8),
            )
        } else {
            let (start, end, pal, _) = self.plain_cfg();
            (
                format!("start={start} end={end} pal={pal} admins={} mut={}", fmt_list(&admins), mutable as u8),
                format!("w_start={start} w_end={end} w_pal={pal} w_admins={} w_mut={}", fmt_list(&admins), mutable as u8),
            )
        }
    }
    /// MONITOR "the root cannot be changed by any call": the stored root(s) are the ones the harness SENT
    fn check_roots_unchanged(&mut self, op: &str) {
        if self.viol.is_some() || self.wl.is_none() {
            return;
        }
        match self.roots() {
            Ok(r) => {
                // (hex case is not a change of the commitment: a contract that normalises the case of what it was sent is
                // judged by the membership answers — primary column — not here)
                let same = r.len() == self.sent_roots.len() && r.iter().zip(self.sent_roots.iter()).all(|(x, y)| x.eq_ignore_ascii_case(y));
                if !same {
                    self.viol = Some((format!("{}/{op}/root-changed", self.cname()), format!("stored root(s) {:?} differ from the root(s) sent at instantiate {:?}", r, self.sent_roots)));
                }
            }
            Err(e) => {
                self.notes.insert(format!("root query failed after `{op}`: {}", &e[..e.len().min(120)]));
                self.marks.push("monitor:root-query-failed".into());
            }
        }
    }

    // ---------------------------------------------------------------------------------------- ops

    fn op_hash(&self, line: &str) -> String {
        let Some(h) = kv(line, "m") else { return "bad-op".into() };
        let Ok(m) = hex::decode(h) else { return "bad-op".into() };
        match kv(line, "alg") {
            Some("sha256") => format!("ok {}", hex::encode(sha256_32(&m))),
            Some("blake3") => format!("ok {}", hex::encode(blake3::hash(&m).as_bytes())),
            Some("blake3_16") => format!("ok {}", hex::encode(blake3_16(&m))),
            _ => "bad-op".into(),
        }
    }

    fn op_build(&mut self, line: &str) -> String {
        let slot = kv_u64(line, "slot").unwrap();
        let members = std::mem::take(&mut self.pending);
        let tree = Tree::build(self.tiered, &members);
        let root = tree.root_hex();
        let (own_root, inner) = own_layers(self.tiered, &members);
        if own_root.as_ref().map(hex::encode) != root {
            self.notes.insert(format!("UNEXPECTED: rs_merkle root {:?} differs from the hand-rolled layered root {:?}", root, own_root.map(hex::encode)));
            self.marks.push("UNEXPECTED:own-root-differs".into());
        }
        if let Some(r) = &root {
            self.by_root.insert(r.clone(), Committed { slot, set: members.iter().cloned().collect(), inner });
        }
        self.slots.insert(slot, (tree, members));
        format!("ok {}", root.unwrap_or_else(|| "-".into()))
    }

    fn op_proof(&self, line: &str) -> String {
        let slot = kv_u64(line, "slot").unwrap();
        let i = kv_u64(line, "i").unwrap() as usize;
        let Some((tree, _)) = self.slots.get(&slot) else { return "bad-op".into() };
        match catch(|| tree.proof_hex(i)) {
            Ok(p) => format!("ok {}", fmt_strs(&p)),
            Err(_) => "err".into(),
        }
    }

    fn op_inst(&mut self, line: &str) -> (String, String) {
        let now = kv_u64(line, "now").unwrap();
        let mut app = boxes::custom_mock_app();
        self.wl_code = app.store_code(if self.tiered { boxes::tiered_whitelist_mtree() } else { boxes::whitelist_mtree() });
        self.app = Some(app);
        self.wl = None;
        self.minter = None;
        self.ghost_mints.clear();
        self.set_time(now);
        let funds_p = kv_pairs(line, "funds").unwrap();
        for (d, amt) in &funds_p {
            self.mint_to(&addr(CREATOR), *amt, &denom(*d as u64));
        }
        let funds = coins_of(&funds_p);
        let mut admins: Vec<String> = kv_list(line, "admins").unwrap().iter().map(|i| addr(*i as u64)).collect();
        if !kv_bool(line, "admins_ok").unwrap() {
            admins.push("Ab".into()); // rejected by addr_validate
        }
        let mutable = kv_bool(line, "mutable").unwrap();
        let uri_ok = kv_bool(line, "uri_ok").unwrap();
        let (msg, sent) = if self.tiered {
            let roots = str_list(kv(line, "roots").unwrap());
            let stages: Vec<Value> = match kv(line, "stages").unwrap() {
                "-" => vec![],
                s => s
                    .split(';')
                    .enumerate()
                    .map(|(i, st)| {
                        let f: Vec<u64> = st.split(':').map(|x| x.parse().unwrap()).collect();
                        json!({"name": format!("stage{i}"), "start_time": ts(f[0]), "end_time": ts(f[1]),
                               "mint_price": {"denom": denom(f[3]), "amount": WL_PRICE.to_string()},
                               "per_address_limit": f[2], "mint_count_limit": null})
                    })
                    .collect(),
            };
            let uris: Value = if !uri_ok { json!(["ipfs://ok", "not a url"]) } else if roots.len() % 2 == 0 { Value::Null } else { json!(["ipfs://tree"]) };
            (json!({"stages": stages, "merkle_roots": roots, "merkle_tree_uris": uris, "admins": admins, "admins_mutable": mutable}), roots)
        } else {
            let root = kv(line, "root").unwrap();
            let uri: Value = if !uri_ok { json!("not a url") } else if kv_u64(line, "start").unwrap() % 2 == 0 { Value::Null } else { json!("ipfs://tree") };
            (
                json!({"merkle_root": root, "merkle_tree_uri": uri, "start_time": ts(kv_u64(line, "start").unwrap()), "end_time": ts(kv_u64(line, "end").unwrap()),
                   "mint_price": {"denom": denom(0), "amount": WL_PRICE.to_string()}, "per_address_limit": kv_u64(line, "pal").unwrap(),
                   "admins": admins, "admins_mutable": mutable}),
                vec![root.to_string()],
            )
        };
        let code = self.wl_code;
        let app = self.app.as_mut().unwrap();
        let r = catch(|| app.instantiate_contract(code, a(CREATOR), &msg, &funds, "wl", Some(addr(CREATOR))));
        match r {
            Ok(Ok(w)) => {
                self.wl = Some(w);
                self.sent_roots = sent.clone();
                // MONITOR "malformed hashes … never a positive answer" at instantiate: a root that is not hex of the digest size was stored
                if let Some(bad) = sent.iter().find(|r| !is_hex_of(r, self.n())) {
                    self.viol = Some((format!("{}/instantiate/malformed-root-accepted", self.cname()), format!("instantiate accepted the malformed root `{}`", &bad[..bad.len().min(80)])));
                }
                self.check_roots_unchanged("instantiate");
                match kv(line, "minter") {
                    None | Some("none") => {}
                    Some(k) => {
                        if let Err(e) = self.setup_minter(k) {
                            return (format!("{line} res=1"), format!("bad-minter-setup:{}", e.replace(' ', "_")));
                        }
                    }
                }
                (format!("{line} res=1"), format!("ok {} ## v=ok {}", self.obs_primary(), self.obs_cfg().0))
            }
            _ => (format!("{line} res=0"), "err ## v=err".into()),
        }
    }

    fn setup_minter(&mut self, kind: &str) -> Result<(), String> {
        let wl = self.wl.clone().unwrap();
        let app = self.app.as_mut().unwrap();
        let sg721 = app.store_code(boxes::sg721_base());
        let ustars = |amt: u128| json!({"denom": denom(0), "amount": amt.to_string()});
        let collection = json!({"code_id": sg721, "name": "Collection Name", "symbol": "COL",
            "info": {"creator": addr(CREATOR), "description": "Stargaze Monkeys", "image": "https://example.com/image.png",
                     "external_link": null, "explicit_content": false, "start_trading_time": null, "royalty_info": null}});
        let (factory_code, minter_code, params, init_msg) = match kind {
            "vm" | "vmf" => {
                let mc = app.store_code(if kind == "vm" { boxes::vending_minter_merkle_wl() } else { boxes::vending_minter_merkle_wl_featured() });
                let fc = app.store_code(boxes::vending_factory());
                (
                    fc,
                    mc,
                    json!({"max_token_limit": 10000, "max_per_address_limit": 50, "airdrop_mint_price": ustars(0), "airdrop_mint_fee_bps": 10000, "shuffle_fee": ustars(500_000_000)}),
                    json!({"base_token_uri": "ipfs://aldkfjads", "payment_address": null, "start_time": ts(HORIZON), "num_tokens": 2000,
                           "mint_price": ustars(200_000_000), "per_address_limit": 3, "whitelist": wl.to_string()}),
                )
            }
            "oem" => {
                let mc = app.store_code(boxes::open_edition_minter_merkle_wl());
                let fc = app.store_code(boxes::open_edition_factory());
                (
                    fc,
                    mc,
                    json!({"max_token_limit": 10000, "max_per_address_limit": 10, "airdrop_mint_fee_bps": 100, "airdrop_mint_price": ustars(100_000_000), "dev_fee_address": addr(77)}),
                    json!({"nft_data": {"nft_data_type": "off_chain_metadata", "extension": null, "token_uri": "ipfs://bafybeiavall5udkxkdtdm4djezoxrmfc6o5fn2ug3ymrlvibvwmwydgrkm/1.jpg"},
                           "start_time": ts(HORIZON), "end_time": ts(HORIZON + 1_000_000_000_000), "mint_price": ustars(200_000_000), "per_address_limit": 3,
                           "num_tokens": null, "payment_address": null, "whitelist": wl.to_string()}),
                )
            }
            k => return Err(format!("unknown minter kind {k}")),
        };
        let fparams = json!({"params": {"code_id": minter_code, "allowed_sg721_code_ids": [sg721], "frozen": false, "creation_fee": ustars(5_000_000_000),
            "min_mint_price": ustars(50_000_000), "mint_fee_bps": 1000, "max_trading_offset_secs": 604800, "extension": params}});
        let factory = app.instantiate_contract(factory_code, a(CREATOR), &fparams, &[], "factory", None).map_err(|e| format!("factory: {:#}", e))?;
        app.sudo(SudoMsg::Bank(BankSudo::Mint { to_address: addr(CREATOR), amount: vec![coin(5_000_000_000, denom(0))] })).unwrap();
        let create = json!({"create_minter": {"init_msg": init_msg, "collection_params": collection}});
        // the minter is the contract instantiated from `minter_code` (no dependence on event attribute names or on
        // cw-multi-test's address numbering): compare the set of contracts of that code before and after
        let res = app.execute_contract(a(CREATOR), factory, &create, &[coin(5_000_000_000, denom(0))]).map_err(|e| format!("create_minter: {:#}", e))?;
        let mut cands: Vec<String> = res.events.iter().flat_map(|e| e.attributes.iter().map(|a| a.value.clone())).collect();
        cands.sort();
        cands.dedup();
        let minter = cands
            .into_iter()
            .find(|c| app.wrap().query_wasm_contract_info(c.clone()).map(|i| i.code_id == minter_code).unwrap_or(false))
            .ok_or("no contract of the minter code was instantiated")?;
        self.minter = Some(Addr::unchecked(minter));
        Ok(())
    }

    fn op_exec(&mut self, line: &str) -> (String, String) {
        let now = kv_u64(line, "now").unwrap();
        self.set_time(now);
        let op = kv(line, "op").unwrap().to_string();
        let wl = self.wl.clone().unwrap();
        let code = self.wl_code;
        let sender = kv_u64(line, "sender").map(a).unwrap_or_else(|| a(CREATOR));
        let admins_of = |l: &str| -> Vec<String> {
            let mut v: Vec<String> = kv_list(l, "admins").unwrap_or_default().iter().map(|i| addr(*i as u64)).collect();
            if !kv_bool(l, "ok").unwrap_or(true) {
                v.push("Ab".into());
            }
            v
        };
        let opt_ts = |k: &str| -> Value { kv_opt_u64(line, k).flatten().map(|t| json!(ts(t))).unwrap_or(Value::Null) };
        // raw JSON for every message (the crates' typed enums are not used: a new variant must not stop this from compiling)
        let msg: Option<Value> = match op.as_str() {
            "update_start" => Some(json!({"update_start_time": ts(kv_u64(line, "t").unwrap())})),
            "update_end" => Some(json!({"update_end_time": ts(kv_u64(line, "t").unwrap())})),
            "update_admins" => Some(json!({"update_admins": {"admins": admins_of(line)}})),
            "freeze" => Some(json!({"freeze": {}})),
            "update_stage" => {
                let price: Value = kv_opt_u64(line, "denom").flatten().map(|d| json!({"denom": denom(d), "amount": WL_PRICE.to_string()})).unwrap_or(Value::Null);
                Some(json!({"update_stage_config": {"stage_id": kv_u64(line, "id").unwrap(), "name": null, "start_time": opt_ts("start"), "end_time": opt_ts("end"),
                               "mint_price": price, "per_address_limit": kv_opt_u64(line, "pal").flatten(), "mint_count_limit": null}}))
            }
            "raw" => {
                let name = kv(line, "name").unwrap_or("update_merkle_tree");
                let shape = kv_u64(line, "shape").unwrap_or(0);
                let root = kv(line, "root").unwrap_or("-");
                let nroots = kv_u64(line, "nroots").unwrap_or(1) as usize;
                Some(raw_message(&self.surface[self.tiered as usize], name, shape, root, nroots, now))
            }
            "migrate" => None,
            _ => return (line.to_string(), "bad-op".into()),
        };
        let app = self.app.as_mut().unwrap();
        let ok = match msg {
            Some(m) => matches!(catch(|| app.execute_contract(sender, wl, &m, &[])), Ok(Ok(_))),
            None => matches!(catch(|| app.migrate_contract(a(CREATOR), wl, &Empty {}, code)), Ok(Ok(_))),
        };
        self.check_roots_unchanged(&op);
        let (cfg, wit) = self.obs_cfg();
        let model_line = if ok { format!("{line} res=1 {wit}") } else { format!("{line} res=0") };
        (model_line, format!("x {} ## v={} {}", self.obs_primary(), if ok { "ok" } else { "err" }, cfg))
    }

    fn op_has(&mut self, line: &str) -> String {
        let now = kv_u64(line, "now").unwrap();
        self.set_time(now);
        let Some(member) = hex_arg(line, "m") else { return "bad-op".into() };
        let proof = str_list(kv(line, "proof").unwrap());
        let wl = self.wl.clone().unwrap();
        let q = json!({"has_member": {"member": member, "proof_hashes": proof}});
        let out = match self.query(&wl, &q) {
            Ok(v) => match v["has_member"].as_bool() {
                Some(b) => format!("ok {}", b as u8),
                None => "err".to_string(),
            },
            _ => "err".to_string(),
        };
        self.monitor_has(now, &member, &proof, &out, line);
        out
    }

    /// the root the property says must be in force at `now`: the SENT root of the window the harness computes
    fn root_in_force(&self, now: u64) -> Option<String> {
        if self.tiered {
            self.window_idx(now).and_then(|i| self.sent_roots.get(i).cloned())
        } else {
            self.sent_roots.first().cloned()
        }
    }

    /// direct transcription of the property on the implementation's own answers (independent of the Lean model)
    fn monitor_has(&mut self, now: u64, member: &str, proof: &[String], out: &str, line: &str) {
        if self.viol.is_some() {
            return;
        }
        let c = self.cname();
        let n = self.n();
        let bad = |p: &str, w: String| Some((format!("{c}/has_member/{p}"), format!("{w} on `{}` => `{out}`", &line[..line.len().min(400)])));
        // malformed hashes: error, never an answer
        if proof.iter().any(|p| !is_hex_of(p, n)) && out != "err" {
            self.viol = bad("malformed-answered", "a proof element is not hex of the digest size but the query answered".into());
            return;
        }
        // the root that must be used
        let root = if self.tiered {
            match self.window_idx(now) {
                None => {
                    if out != "err" {
                        self.viol = bad("no-active-stage-answered", "no stage is active but the query answered".into());
                    }
                    return;
                }
                Some(i) => match self.sent_roots.get(i) {
                    Some(r) => r.clone(),
                    None => return, // fewer roots than stages: nothing is committed for this stage
                },
            }
        } else {
            match self.sent_roots.first() {
                Some(r) => r.clone(),
                None => return,
            }
        };
        let known = self.by_root.get(&root);
        if out == "ok 1" {
            // soundness: only listed entries of the list committed by *this* root
            let listed = known.map(|k| k.set.contains(member)).unwrap_or(false);
            if !listed {
                // The LITERAL clause is transcribed: a string that is not a listed entry was accepted. When that string is
                // byte-for-byte the preimage of an inner node of the committed tree (the third disjunct of `C14_sound_partial`,
                // `C14_sound_counterexample`: no leaf/inner domain separation) the finding carries its own key — listed in
                // known_findings.json — and EVERY other way in stays `non-member-accepted`.
                let inner = known.map(|k| k.inner.contains(member.as_bytes())).unwrap_or(false);
                let key = if inner { "inner-preimage-accepted" } else { "non-member-accepted" };
                if inner {
                    self.marks.push(format!("has:{}:inner-preimage-accepted", if self.tiered { "t" } else { "p" }));
                }
                self.viol = bad(key, format!("`{}` is not in the list committed by the root in force", member.escape_default()));
                return;
            }
        }
        if let Some(k) = known {
            if k.set.contains(member) {
                // completeness: a listed entry with (one of) its rs_merkle proof(s) must be accepted
                let (tree, members) = &self.slots[&k.slot];
                let own = members.iter().enumerate().filter(|(_, m)| m.as_str() == member).any(|(i, _)| tree.proof_hex(i).as_slice() == proof);
                if own && out != "ok 1" {
                    self.viol = bad("member-rejected", format!("listed entry `{member}` with its own proof was not accepted"));
                }
            }
        }
    }

    fn op_mint(&mut self, line: &str) -> (String, String) {
        let now = kv_u64(line, "now").unwrap();
        self.set_time(now);
        let Some(sender) = hex_arg(line, "sender") else { return (line.to_string(), "bad-op".into()) };
        let Some(minter) = self.minter.clone() else { return (line.to_string(), "bad-op".into()) };
        let stage = kv_opt_u64(line, "stage").unwrap();
        let alloc = kv_opt_u64(line, "alloc").unwrap();
        let proof: Option<Vec<String>> = match kv(line, "proof").unwrap() {
            "none" => None,
            v => Some(str_list(v)),
        };
        // attach what the minter itself quotes right now (prices are C02/C07's subject); fall back to the configured whitelist price
        let (amt, dn) = match self.query(&minter, &json!({"mint_price": {}})) {
            Ok(v) => (
                v["current_price"]["amount"].as_str().and_then(|s| s.parse::<u128>().ok()).unwrap_or(WL_PRICE),
                v["current_price"]["denom"].as_str().unwrap_or(&denom(0)).to_string(),
            ),
            Err(_) => (WL_PRICE, denom(0)),
        };
        self.mint_to(&sender, amt, &dn);
        let msg = json!({"mint": {"stage": stage, "proof_hashes": proof, "allocation": alloc}});
        let funds = if amt == 0 { vec![] } else { vec![coin(amt, dn)] };
        // facts for the monitors, taken BEFORE the call
        let key = self.window_key(now);
        let leaf = leaf_string(stage, &sender, alloc);
        let committed = self.root_in_force(now).and_then(|r| self.by_root.get(&r).map(|k| (k.slot, k.set.contains(&leaf))));
        let listed = key.is_some() && committed.map(|c| c.1).unwrap_or(false);
        // listed in the list of ANY root the harness sent (used when the harness sees no window in force at all)
        let listed_anywhere = self.sent_roots.iter().any(|r| self.by_root.get(r).map(|k| k.set.contains(&leaf)).unwrap_or(false));
        let own_proof = match (&proof, committed) {
            (Some(p), Some((slot, true))) => {
                let (tree, members) = &self.slots[&slot];
                members.iter().enumerate().filter(|(_, m)| **m == leaf).any(|(i, _)| tree.proof_hex(i).as_slice() == p.as_slice())
            }
            _ => false,
        };
        let pal = if self.tiered { key.and_then(|k| self.stages().get(k as usize - 1).map(|s| s.2)).unwrap_or(0) } else { self.plain_cfg().2 };
        let allowance = alloc.unwrap_or(pal);
        let seen = key.map(|k| *self.ghost_mints.get(&(sender.clone(), k)).unwrap_or(&0)).unwrap_or(0);
        let app = self.app.as_mut().unwrap();
        let ok = matches!(catch(|| app.execute_contract(Addr::unchecked(sender.clone()), minter.clone(), &msg, &funds)), Ok(Ok(_)));
        self.check_roots_unchanged("mint");
        if ok {
            if let Some(k) = key {
                *self.ghost_mints.entry((sender.clone(), k)).or_insert(0) += 1;
            }
        }
        if self.viol.is_none() {
            if ok && !listed && (key.is_some() || !listed_anywhere) {
                // MONITOR: the sender is bound into the leaf — an accepted whitelist mint means THIS sender's own
                // (stage, sender, allocation) entry is in the list committed by the root in force
                self.viol = Some(("merkle-minter/mint/unlisted-sender-minted".into(), format!("whitelist mint accepted although `{leaf}` is not a listed entry of the list in force: `{}`", &line[..line.len().min(300)])));
            } else if ok && !listed {
                // accepted while the harness sees NO window in force, by somebody who is on one of the committed lists: a question
                // of window semantics (C12/C13), not of membership — recorded, and the model's primary column disagrees
                self.marks.push("mint:accepted-outside-every-window".into());
                self.notes.insert("a whitelist mint was accepted at an instant at which the harness sees no whitelist window in force (window semantics differ from `start ≤ t < end` / `start ≤ t ≤ end`)".into());
            } else if !ok && listed && own_proof && seen == 0 && allowance >= 1 {
                // MONITOR: completeness at the minter — a listed entry, presenting its own proof in its own window for the
                // first time, with a non-zero allowance, paying the quoted price, is let through
                self.viol = Some(("merkle-minter/mint/listed-rejected".into(), format!("first whitelist mint of the listed entry `{leaf}` with its own proof was rejected: `{}`", &line[..line.len().min(300)])));
            }
        }
        if listed && own_proof {
            self.marks.push(format!("mintfacts:own-proof:seen{}:{}", seen.min(3), if ok { "ok" } else { "err" }));
        }
        // drift column: the minter's own counter for the sender, through its `MintCount` query
        let cnt = match self.query(&minter, &json!({"mint_count": {"address": sender}})) {
            Ok(v) => v["count"].as_u64().map(|c| c.to_string()).unwrap_or_else(|| "?".into()),
            Err(_) => "query-failed".into(),
        };
        (format!("{line} res={}", ok as u8), format!("{} ## cnt={cnt}", if ok { "ok" } else { "err" }))
    }

    /// ExecuteMsg variants of the contract under test this harness has no protocol op for
    fn unknown_variants(&self) -> Vec<String> {
        let known = known_variants(self.tiered);
        self.surface[self.tiered as usize].variants.iter().map(|(n, _)| n.clone()).filter(|n| !known.iter().any(|(k, _)| k == n)).collect()
    }
}

impl Sut for S {
    fn begin(&mut self, header: &str) -> (String, String) {
        let surface = std::mem::replace(&mut self.surface, no_surface());
        *self = fresh(kv(header, "kind") == Some("tiered"), surface);
        (header.to_string(), "case".to_string())
    }
    fn exec(&mut self, line: &str) -> (String, String) {
        let op = line.split_whitespace().next().unwrap_or("");
        match op {
            "hash" => (line.to_string(), self.op_hash(line)),
            "leaf" => match hex_arg(line, "m") {
                Some(m) => {
                    self.pending.push(m);
                    (line.to_string(), "ok".into())
                }
                None => (line.to_string(), "bad-op".into()),
            },
            "build" => (line.to_string(), self.op_build(line)),
            "proof" => (line.to_string(), self.op_proof(line)),
            "inst" => self.op_inst(line),
            "exec" if self.wl.is_some() => self.op_exec(line),
            "has" if self.wl.is_some() => (line.to_string(), self.op_has(line)),
            "mint" if self.wl.is_some() => self.op_mint(line),
            _ => (line.to_string(), "bad-op".into()),
        }
    }
    fn monitor(&mut self) -> Option<(String, String)> {
        self.viol.take()
    }
}

// ------------------------------------------------------------------------------------------------ generators

#[derive(Clone, Copy, PartialEq, Debug)]
enum Names {
    Acct,       // acct00123 (9 chars)
    Bech32,     // stars1 + 38 lower-case alphanumerics (44 chars: an account)
    Contract64, // stars1 + 58 (64 chars: a contract / DAO / smart-wallet address — a bare leaf is exactly 2·32 bytes)
    Mixed,      // 44- and 64-character senders in one list
    Digit,      // starts with a decimal digit (outside the hypothesis of `C14_sender_bound`)
}
fn bech_like(tag: u64, i: u64, len: usize) -> String {
    let mut r = Rng::new(tag ^ i.wrapping_mul(0x9E37_79B9_7F4A_7C15));
    let cs = b"023456789acdefghjklmnpqrstuvwxyz";
    let mut s = String::from("stars1");
    while s.len() < len {
        s.push(cs[r.below(32) as usize] as char);
    }
    s
}
fn sender(names: Names, i: u64) -> String {
    match names {
        Names::Acct => addr(100 + i),
        Names::Bech32 => bech_like(0xBEC4, i, 44),
        Names::Contract64 => bech_like(0xC064, i, 64),
        Names::Mixed => {
            if i % 2 == 0 {
                bech_like(0xBEC4, i, 44)
            } else {
                bech_like(0xC064, i, 64)
            }
        }
        Names::Digit => format!("{}{}", (i * 7 + 3) % 10, addr(100 + i)),
    }
}
fn names_tag(n: Names) -> &'static str {
    match n {
        Names::Acct => "acct",
        Names::Bech32 => "b44",
        Names::Contract64 => "c64",
        Names::Mixed => "mixed",
        Names::Digit => "digit",
    }
}
fn hx(s: &str) -> String {
    hex::encode(s.as_bytes())
}

/// a list entry: (stage, sender index, allocation) → leaf string
#[derive(Clone, Debug, PartialEq)]
struct Entry {
    stage: Option<u64>,
    who: u64,
    alloc: Option<u64>,
}
fn entry_leaf(names: Names, e: &Entry) -> String {
    leaf_string(e.stage, &sender(names, e.who), e.alloc)
}
fn gen_entries(rng: &mut Rng, n: usize, form: u64, dup_pct: u64, stage_tag: u64) -> Vec<Entry> {
    let mut v: Vec<Entry> = Vec::with_capacity(n);
    for i in 0..n {
        if i > 0 && rng.below(100) < dup_pct {
            let j = rng.below(i as u64) as usize;
            let e = v[j].clone();
            v.push(e);
            continue;
        }
        let f = if form == 4 { rng.below(4) } else { form };
        let stage = if f & 1 == 1 { Some(stage_tag) } else { None };
        let alloc = if f & 2 == 2 { Some(rng.range(1, 12)) } else { None };
        v.push(Entry { stage, who: i as u64, alloc });
    }
    v
}

fn flip_hex_digit(s: &str, pos: usize) -> String {
    let mut b: Vec<u8> = s.bytes().collect();
    let c = b[pos];
    let v = (c as char).to_digit(16).unwrap_or(0);
    b[pos] = std::char::from_digit(v ^ 1, 16).unwrap() as u8;
    String::from_utf8(b).unwrap()
}
fn random_hex(rng: &mut Rng, nbytes: usize) -> String {
    (0..nbytes).map(|_| format!("{:02x}", rng.below(256))).collect()
}

struct Ctx<'a> {
    ses: &'a mut Session,
    sut: &'a mut S,
    rng: Rng,
}
impl<'a> Ctx<'a> {
    fn step(&mut self, line: &str) -> String {
        let out = self.ses.step(self.sut, line);
        for m in std::mem::take(&mut self.sut.marks) {
            self.ses.mark(m);
        }
        for n in std::mem::take(&mut self.sut.notes) {
            if !self.ses.notes.contains(&n) && self.ses.notes.len() < 60 {
                self.ses.note(n);
            }
        }
        out
    }
    fn k(&self) -> &'static str {
        if self.sut.tiered {
            "t"
        } else {
            "p"
        }
    }
    fn has(&mut self, now: u64, member: &str, proof: &[String], class: &str) -> String {
        let out = self.step(&format!("has now={now} m={} proof={}", hx(member), fmt_strs(proof)));
        let k = self.k();
        self.ses.mark(format!("has:{k}:{class}:{}", out.replace(' ', "")));
        // coverage floor classes
        if class.starts_with("own-proof") && out == "ok 1" {
            self.ses.mark(format!("floor:has:{k}:own-proof-accepted"));
        }
        if class.starts_with("outsider") && out == "ok 0" {
            self.ses.mark(format!("floor:has:{k}:outsider-rejected"));
        }
        if (class.starts_with("non-hex") || class.starts_with("wrong-length")) && out == "err" {
            self.ses.mark(format!("floor:has:{k}:malformed-err"));
        }
        if (class.starts_with("before-first-stage") || class.starts_with("after-last-stage") || class.starts_with("gap-between")) && out == "err" {
            self.ses.mark("floor:has:t:no-active-stage-err".to_string());
        }
        out
    }
    /// append the members, build the tree into `slot`, return the root
    fn build(&mut self, slot: u64, leaves: &[String], hash_lines: bool) -> String {
        let alg = if self.sut.tiered { "blake3_16" } else { "sha256" };
        for l in leaves {
            if hash_lines {
                self.step(&format!("hash alg={alg} m={}", hx(l)));
            }
            self.step(&format!("leaf m={}", hx(l)));
        }
        let out = self.step(&format!("build slot={slot}"));
        out.strip_prefix("ok ").unwrap_or("-").to_string()
    }
    fn proof(&mut self, slot: u64, i: usize) -> Vec<String> {
        let out = self.step(&format!("proof slot={slot} i={i}"));
        str_list(out.strip_prefix("ok ").unwrap_or("-"))
    }
    fn fee(&self) -> u128 {
        creation_fee(self.sut.tiered)
    }

    /// all single-fault mutations of a valid (member, proof) pair; `other` = another listed member with its proof
    fn adversarial(&mut self, now: u64, member: &str, proof: &[String], other: Option<(&str, Vec<String>)>, outsider: &str, sz: &str) {
        let n = self.sut.n();
        let cls = |c: &str| format!("{c}:{sz}");
        // another member's proof
        if let Some((om, op)) = &other {
            if *om != member {
                self.has(now, member, op, &cls("other-proof"));
                self.has(now, outsider, op, &cls("outsider-with-member-proof"));
            }
        }
        self.has(now, outsider, proof, &cls("outsider-with-this-proof"));
        // an outsider whose string has exactly the size of an inner preimage (2·digest bytes) but is no digest pair:
        // on the SHA-256 contract this is the length of a bare contract address
        let sized = bech_like(0x51ED, self.rng.below(1000), 2 * n);
        self.has(now, &sized, proof, &cls("outsider-2n-bytes"));
        // non-member strings derived from the member
        let variants: Vec<String> = vec![
            format!("{member}0"),
            format!("0{member}"),
            member[..member.len() - 1].to_string(),
            member.to_uppercase(),
            format!("{member}é"),
            String::new(),
            "x".repeat(2 * n), // exactly the size of an inner preimage
        ];
        let k = self.rng.below(variants.len() as u64) as usize;
        self.has(now, &variants[k], proof, &cls(&format!("mutated-member{k}")));
        if !proof.is_empty() {
            let l = proof.len();
            // truncated
            self.has(now, member, &proof[..l - 1], &cls("truncated-last"));
            self.has(now, member, &proof[1..], &cls("truncated-first"));
            // extended
            let mut e = proof.to_vec();
            e.push(random_hex(&mut self.rng, n));
            self.has(now, member, &e, &cls("extended-random"));
            let mut e = proof.to_vec();
            e.push(proof[l - 1].clone());
            self.has(now, member, &e, &cls("extended-dup"));
            // reordered
            if l >= 2 {
                let mut r = proof.to_vec();
                let i = self.rng.below(l as u64 - 1) as usize;
                r.swap(i, i + 1);
                self.has(now, member, &r, &cls("swapped"));
                let mut r = proof.to_vec();
                r.reverse();
                self.has(now, member, &r, &cls("reversed"));
            }
            // bit-flipped (one hex digit of one element)
            let i = self.rng.below(l as u64) as usize;
            let pos = self.rng.below(2 * n as u64) as usize;
            let mut f = proof.to_vec();
            f[i] = flip_hex_digit(&f[i], pos);
            self.has(now, member, &f, &cls("bit-flipped"));
            // validity-preserving: upper-case hex decodes to the same bytes
            let mut u = proof.to_vec();
            u[i] = u[i].to_uppercase();
            self.has(now, member, &u, &cls("uppercase-element"));
            // wrong-length hex
            let lens = [2 * n - 1, 2 * n + 1, 2 * n - 2, 2 * n + 2, 0, if n == 32 { 32 } else { 64 }];
            let wl = lens[self.rng.below(lens.len() as u64) as usize];
            let mut w = proof.to_vec();
            w[i] = if wl <= 2 * n { w[i][..wl].to_string() } else { format!("{}{}", w[i], &"ab".repeat(n)[..wl - 2 * n]) };
            self.has(now, member, &w, &cls(&format!("wrong-length{}", wl as i64 - 2 * n as i64)));
            // non-hex character
            let garb = ["g", "z", "G", "é", "_", "x", "-", "+"];
            let gch = garb[self.rng.below(garb.len() as u64) as usize];
            let mut g: Vec<char> = proof[i].chars().collect();
            g[pos] = gch.chars().next().unwrap();
            let mut gp = proof.to_vec();
            gp[i] = g.into_iter().collect();
            self.has(now, member, &gp, &cls("non-hex"));
        } else {
            // single-leaf tree: the empty proof is the proof; any extension must fail
            let r1 = random_hex(&mut self.rng, n);
            let r2 = random_hex(&mut self.rng, n - 1);
            self.has(now, member, &[r1], &cls("extended-random"));
            self.has(now, member, &["zz".repeat(n)], &cls("non-hex"));
            self.has(now, member, &[r2], &cls("wrong-length-1"));
        }
    }
}

fn size_class(n: usize) -> &'static str {
    match n {
        1 => "n1",
        2 => "n2",
        3..=8 => "n3-8",
        9..=64 => "n9-64",
        65..=257 => "n65-257",
        _ => "n258+",
    }
}

fn pick_names(rng: &mut Rng) -> Names {
    *rng.pick(&[Names::Acct, Names::Acct, Names::Bech32, Names::Bech32, Names::Contract64, Names::Contract64, Names::Mixed, Names::Digit])
}

/// Scenario A: one list of `n` entries per tree; every (or a sample of) member's proof; adversarial pairs.
fn scenario_membership(cx: &mut Ctx, tiered: bool, n: usize, seed_tag: u64, force: Option<(Names, u64)>) {
    let (names, form) = match force {
        Some(f) => f,
        None => (pick_names(&mut cx.rng), cx.rng.below(5)),
    };
    let dup = *cx.rng.pick(&[0u64, 0, 10, 50]);
    let kind = if tiered { "tiered" } else { "plain" };
    let k_stages = if tiered { cx.rng.range(1, 3) } else { 1 };
    let main = cx.rng.below(k_stages);
    cx.ses.begin_case(cx.sut, &format!("case kind={kind} scen=membership n={n} stages={k_stages} names={} tag={seed_tag}", names_tag(names)));
    let sz = size_class(n);
    // lists and trees
    let mut lists: Vec<Vec<String>> = vec![];
    let mut roots: Vec<String> = vec![];
    for j in 0..k_stages {
        let nj = if j == main { n } else { cx.rng.range(1, 9) as usize };
        let mut rf = cx.rng.fork();
        let entries = gen_entries(&mut rf, nj, form, dup, j + 1);
        // stage lists overlap partially: other stages draw their senders from a shifted range
        let leaves: Vec<String> = entries
            .iter()
            .map(|e| entry_leaf(names, &Entry { who: if j == main { e.who } else { e.who + (n as u64).saturating_sub(3) }, ..e.clone() }))
            .collect();
        let root = cx.build(j, &leaves, nj <= 33);
        lists.push(leaves);
        roots.push(root);
    }
    let two_n = 2 * cx.sut.n();
    if lists[main as usize].iter().any(|l| l.len() == two_n) {
        cx.ses.mark(format!("list:{kind}:has-listed-entry-of-2n-bytes:{}", names_tag(names)));
    }
    // instantiate
    let fee = cx.fee();
    let t0 = GENESIS + 1_000 + cx.rng.below(1000);
    let mut windows: Vec<(u64, u64)> = vec![];
    let inst = if tiered {
        let mut t = t0 + 100;
        let mut st = vec![];
        for j in 0..k_stages {
            let s = t + if j > 0 && cx.rng.chance(1, 2) { 0 } else { cx.rng.range(1, 50) }; // touching or gap
            let e = s + cx.rng.range(10, 1000);
            windows.push((s, e));
            st.push(format!("{s}:{e}:{}:0", cx.rng.range(1, 50)));
            t = e;
        }
        format!("inst now={t0} funds=0:{fee} roots={} uri_ok=1 stages={} admins=11,12 admins_ok=1 mutable=1 minter=none", fmt_strs(&roots), st.join(";"))
    } else {
        windows.push((t0 + 100, t0 + 1000));
        format!("inst now={t0} funds=0:{fee} root={} uri_ok=1 start={} end={} pal=3 admins=11,12 admins_ok=1 mutable=1 minter=none", roots[0], t0 + 100, t0 + 1000)
    };
    let out = cx.step(&inst);
    if !out.starts_with("ok") {
        cx.ses.note(format!("UNEXPECTED: instantiate failed in membership scenario: {inst} => {out}"));
        cx.ses.mark("UNEXPECTED:inst-failed:membership");
        cx.ses.end_case();
        return;
    }
    cx.ses.mark(format!("inst:{kind}:stages{k_stages}:{sz}"));
    cx.ses.mark(format!("floor:inst:{kind}:ok"));
    cx.ses.mark(format!("names:{kind}:{}", names_tag(names)));
    let mid = |w: (u64, u64)| (w.0 + w.1) / 2;
    // every member of the main list (sampled beyond 300)
    let main_u = main as usize;
    let idxs: Vec<usize> = if n <= 300 {
        (0..n).collect()
    } else {
        let mut v: Vec<usize> = vec![0, 1, n / 2, n - 2, n - 1];
        for _ in 0..295 {
            v.push(cx.rng.below(n as u64) as usize);
        }
        v
    };
    let outsider = sender(names, 1_000_000 + n as u64);
    let adv_budget = cx.ses.scale(40, 64) as usize;
    let mut last: Option<(String, Vec<String>)> = None;
    for (cnt, &i) in idxs.iter().enumerate() {
        let member = lists[main_u][i].clone();
        let proof = cx.proof(main as u64, i);
        let t_in = if tiered {
            let w = windows[main_u];
            // inclusive both ends; when stage j-1 touches (end == start) the shared instant belongs to the earlier stage
            let start_ok = main_u == 0 || windows[main_u - 1].1 < w.0;
            *cx.rng.pick(&[if start_ok { w.0 } else { w.0 + 1 }, mid(w), w.1])
        } else {
            *cx.rng.pick(&[t0, windows[0].0, windows[0].1, windows[0].1 + 5]) // the plain query ignores the clock
        };
        let two = if member.len() == two_n { ":2n-bytes" } else { "" };
        let r = cx.has(t_in, &member, &proof, &format!("own-proof:{sz}:len{}{two}", proof.len().min(13)));
        if r != "ok 1" {
            cx.ses.note(format!("member {i}/{n} not accepted ({kind})"));
        }
        if cnt < adv_budget || i + 1 == n {
            let other = last.as_ref().map(|(m, p)| (m.as_str(), p.clone()));
            cx.adversarial(t_in, &member, &proof, other, &outsider, sz);
        }
        last = Some((member, proof));
    }
    // tiered: clock outside every window / inside another stage; exact boundary instants of the main stage
    if tiered {
        let member = lists[main_u][0].clone();
        let proof = cx.proof(main as u64, 0);
        let first = windows[0];
        let lastw = *windows.last().unwrap();
        cx.has(first.0 - 1, &member, &proof, "before-first-stage");
        cx.has(lastw.1 + 1, &member, &proof, "after-last-stage");
        {
            let w = windows[main_u];
            let prev_touches = main_u > 0 && windows[main_u - 1].1 == w.0;
            let next_touches = main_u + 1 < windows.len() && windows[main_u + 1].0 == w.1;
            let r = cx.has(w.1, &member, &proof, "boundary:main-end");
            if r == "ok 1" {
                cx.ses.mark("floor:boundary:t:accepted-at-end");
            }
            let r = cx.has(w.1 + 1, &member, &proof, &format!("boundary:main-end+1:next-touches{}", next_touches as u8));
            if r != "ok 1" || lists.get(main_u + 1).map(|l| l.contains(&member)).unwrap_or(false) {
                cx.ses.mark("floor:boundary:t:other-root-or-none-at-end+1");
            }
            cx.has(w.0, &member, &proof, &format!("boundary:main-start:prev-touches{}", prev_touches as u8));
            cx.has(w.0 - 1, &member, &proof, &format!("boundary:main-start-1:prev-touches{}", prev_touches as u8));
        }
        for j in 0..k_stages as usize {
            if j + 1 < k_stages as usize && windows[j].1 + 1 < windows[j + 1].0 {
                cx.has(windows[j].1 + 1, &member, &proof, "gap-between-stages");
            }
            if j != main_u {
                // the main list's member during another stage: only accepted if that stage's list has it too
                let t = mid(windows[j]);
                let listed_there = lists[j].contains(&member);
                cx.has(t, &member, &proof, &format!("main-proof-in-other-stage:listed{}", listed_there as u8));
                // and that stage's own members verify there
                let m2 = lists[j][0].clone();
                let p2 = cx.proof(j as u64, 0);
                cx.has(t, &m2, &p2, "other-stage-own-proof");
                cx.has(mid(windows[main_u]), &m2, &p2, &format!("other-stage-proof-in-main-stage:listed{}", lists[main_u].contains(&m2) as u8));
            }
        }
    }
    cx.ses.end_case();
}

/// Scenario B: malformed / adversarial instantiation parameters (root strings above all).
fn scenario_instantiate(cx: &mut Ctx, tiered: bool) {
    let kind = if tiered { "tiered" } else { "plain" };
    let n = if tiered { 16 } else { 32 };
    cx.ses.begin_case(cx.sut, &format!("case kind={kind} scen=instantiate"));
    let leaves: Vec<String> = (0..5).map(|i| sender(Names::Acct, i)).collect();
    let root = cx.build(0, &leaves, true);
    let proof0 = cx.proof(0, 0);
    let t0 = GENESIS + 5_000;
    let fee = cx.fee();
    let variants: Vec<(&str, String, bool)> = vec![
        ("good", root.clone(), true),
        ("upper", root.to_uppercase(), true),
        ("short", root[..2 * n - 2].to_string(), false),
        ("odd", root[..2 * n - 1].to_string(), false),
        ("long", format!("{root}00"), false),
        ("empty", String::new(), false),
        ("nonhex", format!("{}zz", &root[..2 * n - 2]), false),
        ("other-size", if tiered { format!("{root}{root}") } else { root[..32].to_string() }, false),
        ("random", random_hex(&mut cx.rng, n), true),
        ("0x-prefixed", format!("0x{}", &root[..2 * n - 2]), false),
    ];
    for (name, r, wellformed) in &variants {
        for fault in ["none", "funds-low", "funds-high", "no-funds", "two-coins", "wrong-denom", "bad-uri", "bad-admin", "started", "start>end", "pre-genesis"] {
            if *name != "good" && fault != "none" && !cx.rng.chance(1, 6) {
                continue;
            }
            let funds = match fault {
                "funds-low" => format!("0:{}", fee - 1),
                "funds-high" => format!("0:{}", fee + 1),
                "no-funds" => "-".to_string(),
                "two-coins" => format!("0:{fee},1:5"),
                "wrong-denom" => format!("1:{fee}"),
                _ => format!("0:{fee}"),
            };
            let uri_ok = (fault != "bad-uri") as u8;
            let admins_ok = (fault != "bad-admin") as u8;
            let (now, start, end) = match fault {
                "started" => (t0 + 100, t0 + 100, t0 + 1000),
                "start>end" => (t0, t0 + 1001, t0 + 1000),
                "pre-genesis" => (GENESIS - 50, GENESIS - 1, GENESIS + 1000),
                _ => (t0, t0 + 100, t0 + 1000),
            };
            let line = if tiered {
                let roots = match (*name, cx.rng.below(3)) {
                    ("good", _) => format!("{r},{r}"),
                    (_, 0) => r.clone(),
                    (_, 1) => format!("{root},{r}"),
                    _ => format!("{r},{root}"),
                };
                // "" as the only element would read as an empty word; keep at least a comma
                let roots = if roots.is_empty() { ",".to_string() } else { roots };
                format!("inst now={now} funds={funds} roots={roots} uri_ok={uri_ok} stages={start}:{end}:5:0;{}:{}:50:0 admins=11 admins_ok={admins_ok} mutable=0 minter=none", end, end + 10)
            } else {
                format!("inst now={now} funds={funds} root={r} uri_ok={uri_ok} start={start} end={end} pal=0 admins=11 admins_ok={admins_ok} mutable=0 minter=none")
            };
            let out = cx.step(&line);
            cx.ses.mark(format!("inst:{kind}:root-{name}:{fault}:{}", &out[..out.len().min(3)]));
            if !wellformed && out.starts_with("err") {
                cx.ses.mark(format!("floor:inst:{kind}:malformed-root-err"));
            }
            if out.starts_with("ok") {
                // whatever was accepted: the good proof only verifies against the good root
                cx.has(start + 1, &leaves[0], &proof0, &format!("after-inst-root-{name}"));
            }
        }
    }
    if tiered {
        // stage-list shapes (validate_stages) and root/stage count mismatches
        let r2 = format!("{root},{root}");
        let shapes: Vec<(&str, String, String)> = vec![
            ("no-stages", "-".into(), r2.clone()),
            ("four-stages", format!("{}:{}:1:0;{}:{}:1:0;{}:{}:1:0;{}:{}:1:0", t0 + 10, t0 + 20, t0 + 20, t0 + 30, t0 + 30, t0 + 40, t0 + 40, t0 + 50), r2.clone()),
            ("overlap", format!("{}:{}:1:0;{}:{}:1:0", t0 + 10, t0 + 20, t0 + 19, t0 + 30), r2.clone()),
            ("touching", format!("{}:{}:1:0;{}:{}:1:0", t0 + 10, t0 + 20, t0 + 20, t0 + 30), r2.clone()),
            ("empty-window", format!("{}:{}:1:0", t0 + 10, t0 + 10), root.clone()),
            ("pal0", format!("{}:{}:0:0", t0 + 10, t0 + 20), root.clone()),
            ("pal50", format!("{}:{}:50:0", t0 + 10, t0 + 20), root.clone()),
            ("pal51", format!("{}:{}:51:0", t0 + 10, t0 + 20), root.clone()),
            ("mixed-denoms", format!("{}:{}:1:0;{}:{}:1:1", t0 + 10, t0 + 20, t0 + 20, t0 + 30), r2.clone()),
            ("first-started", format!("{}:{}:1:0", t0, t0 + 20), root.clone()),
            ("fewer-roots", format!("{}:{}:1:0;{}:{}:1:0", t0 + 10, t0 + 20, t0 + 25, t0 + 30), root.clone()),
            ("more-roots", format!("{}:{}:1:0", t0 + 10, t0 + 20), r2.clone()),
            ("no-roots", format!("{}:{}:1:0", t0 + 10, t0 + 20), "-".into()),
        ];
        for (name, stages, roots) in shapes {
            let out = cx.step(&format!("inst now={t0} funds=0:{fee} roots={roots} uri_ok=1 stages={stages} admins=11 admins_ok=1 mutable=1 minter=none"));
            cx.ses.mark(format!("inst:tiered:shape-{name}:{}", &out[..out.len().min(3)]));
            if out.starts_with("ok") {
                for t in [t0 + 9, t0 + 10, t0 + 15, t0 + 20, t0 + 21, t0 + 27, t0 + 30, t0 + 31] {
                    cx.has(t, &leaves[0], &proof0, &format!("shape-{name}"));
                }
            }
        }
    }
    cx.ses.end_case();
}

fn obs_u64(obs: &str, key: &str) -> u64 {
    kv_u64(obs, key).unwrap_or(0)
}

/// the (start, end) windows a whitelist reports in the drift column of an `inst` / `exec` answer
fn windows_of(obs: &str, tiered: bool) -> Vec<(u64, u64)> {
    if tiered {
        let mut v = vec![];
        if let Some(st) = kv(obs, "stages") {
            for s in st.split(';') {
                let f: Vec<u64> = s.split(':').filter_map(|x| x.parse().ok()).collect();
                if f.len() == 4 {
                    v.push((f[0], f[1]));
                }
            }
        }
        v
    } else {
        vec![(obs_u64(obs, "start"), obs_u64(obs, "end"))]
    }
}

/// Scenario C: random histories over the complete message surface (known variants, the other contract's variants, raw
/// `update_merkle_tree` in several shapes, migrate), optionally with a bound minter and mints in between; the root must
/// stay what it was and keep verifying.
fn scenario_history(cx: &mut Ctx, tiered: bool, tag: u64) {
    let kind = if tiered { "tiered" } else { "plain" };
    let minter = if tag % 3 == 2 { *cx.rng.pick(&["vm", "vmf", "oem"]) } else { "none" };
    cx.ses.begin_case(cx.sut, &format!("case kind={kind} scen=history minter={minter} tag={tag}"));
    let names = Names::Acct;
    let k_stages = if tiered { cx.rng.range(1, 3) } else { 1 } as usize;
    let mut lists = vec![];
    let mut roots = vec![];
    for j in 0..k_stages {
        let nj = cx.rng.range(1, 12) as usize;
        let leaves: Vec<String> = (0..nj).map(|i| leaf_string(None, &sender(names, (j * 100 + i) as u64), None)).collect();
        roots.push(cx.build(j as u64, &leaves, false));
        lists.push(leaves);
    }
    // a list that is NOT committed: its (valid) root is what the raw root-writing messages offer
    let other_leaves: Vec<String> = (0..3).map(|i| leaf_string(None, &sender(names, 900 + i), None)).collect();
    let other_root = cx.build(9, &other_leaves, false);
    let other_proof = cx.proof(9, 0);
    let fee = cx.fee();
    let t0 = GENESIS + 1_000;
    let mutable = cx.rng.chance(3, 4) as u8;
    let pal = cx.rng.range(1, 3);
    let inst = if tiered {
        let mut t = t0 + 100;
        let mut st = vec![];
        for j in 0..k_stages {
            let s = t + if j > 0 && cx.rng.chance(1, 2) { 0 } else { cx.rng.range(1, 50) };
            let e = s + cx.rng.range(10, 200);
            st.push(format!("{s}:{e}:{}:0", cx.rng.range(1, 50)));
            t = e;
        }
        format!("inst now={t0} funds=0:{fee} roots={} uri_ok=1 stages={} admins=11,12 admins_ok=1 mutable={mutable} minter={minter}", fmt_strs(&roots), st.join(";"))
    } else {
        format!("inst now={t0} funds=0:{fee} root={} uri_ok=1 start={} end={} pal={pal} admins=11,12 admins_ok=1 mutable={mutable} minter={minter}", roots[0], t0 + 100, t0 + 600)
    };
    let mut obs = cx.step(&inst);
    if !obs.starts_with("ok") {
        cx.ses.note(format!("UNEXPECTED: instantiate failed in history scenario: {inst} => {obs}"));
        cx.ses.mark("UNEXPECTED:inst-failed:history");
        cx.ses.end_case();
        return;
    }
    let proofs: Vec<Vec<String>> = (0..k_stages).map(|j| cx.proof(j as u64, 0)).collect();
    let mut now = t0;
    let n_ops = cx.rng.range(6, 16);
    for _ in 0..n_ops {
        // interesting instants of the current state
        let wins = windows_of(&obs, tiered);
        let edges: Vec<u64> = wins.iter().flat_map(|w| [w.0, w.1]).collect();
        let mut cands: Vec<u64> = edges.iter().flat_map(|e| [e.saturating_sub(1), *e, e + 1]).filter(|t| *t >= now).collect();
        cands.push(now + cx.rng.range(0, 40));
        now = if cx.rng.chance(1, 2) { *cx.rng.pick(&cands) } else { now + cx.rng.range(0, 60) };
        let who = *cx.rng.pick(&[11u64, 11, 11, 12, 13, 19]);
        let near = |rng: &mut Rng, edges: &[u64], now: u64| -> u64 {
            let mut c: Vec<u64> = edges.iter().flat_map(|e| [e.saturating_sub(1), *e, e + 1]).collect();
            c.extend([now, now + 1, GENESIS - 1, GENESIS, GENESIS + 1, now + rng.range(2, 300)]);
            *rng.pick(&c)
        };
        let roll = cx.rng.below(14);
        if minter != "none" && roll >= 11 {
            // a mint in between: a listed sender with its own proof, or a thief with it
            let j = wins.iter().position(|w| if tiered { w.0 <= now && now <= w.1 } else { w.0 <= now && now < w.1 }).unwrap_or(cx.rng.below(k_stages as u64) as usize).min(k_stages - 1);
            let i = cx.rng.below(lists[j].len() as u64) as usize;
            let p = cx.proof(j as u64, i);
            let s = if cx.rng.chance(2, 3) { lists[j][i].clone() } else { sender(names, 5_000 + i as u64) };
            let out = cx.step(&format!("mint now={now} sender={} stage=- alloc=- proof={}", hx(&s), fmt_strs(&p)));
            cx.ses.mark(format!("hist-mint:{kind}:{minter}:{}:{}", if s == lists[j][i] { "listed" } else { "thief" }, &out[..out.len().min(3)]));
            continue;
        }
        let line = match roll {
            0 => format!("exec now={now} op=freeze sender={who}"),
            1 => format!("exec now={now} op=update_admins sender={who} admins={} ok={}", fmt_list(&pick_admins(&mut cx.rng)), cx.rng.chance(9, 10) as u8),
            2 => format!("exec now={now} op=migrate"),
            3 => {
                // a root-writing message that is not in the enum: another VALID root, several shapes, admin or stranger
                let shape = cx.rng.below(7);
                format!("exec now={now} op=raw sender={who} name=update_merkle_tree shape={shape} root={other_root} nroots={k_stages}")
            }
            4 => {
                // the OTHER contract's variants: do not parse here
                if tiered {
                    format!("exec now={now} op=update_start sender={who} t={}", now + 5)
                } else {
                    format!("exec now={now} op=update_stage sender={who} id=0 start=- end={} pal=- denom=-", now + 50)
                }
            }
            _ if tiered => {
                let id = cx.rng.below(k_stages as u64 + 1);
                let o = |rng: &mut Rng, v: u64| if rng.chance(1, 2) { "-".to_string() } else { v.to_string() };
                let s = near(&mut cx.rng, &edges, now);
                let e = near(&mut cx.rng, &edges, now);
                let pal = *cx.rng.pick(&[0u64, 1, 7, 50, 51]);
                let dn = *cx.rng.pick(&[0u64, 0, 0, 1]);
                format!(
                    "exec now={now} op=update_stage sender={who} id={id} start={} end={} pal={} denom={}",
                    o(&mut cx.rng, s),
                    o(&mut cx.rng, e),
                    if cx.rng.chance(2, 3) { "-".to_string() } else { pal.to_string() },
                    if cx.rng.chance(4, 5) { "-".to_string() } else { dn.to_string() }
                )
            }
            5..=8 => format!("exec now={now} op=update_start sender={who} t={}", near(&mut cx.rng, &edges, now)),
            _ => format!("exec now={now} op=update_end sender={who} t={}", near(&mut cx.rng, &edges, now)),
        };
        let out = cx.step(&line);
        let opk = kv(&line, "op").unwrap().to_string();
        let v = kv(&out, "v").unwrap_or("?").to_string();
        cx.ses.mark(format!("exec:{kind}:{opk}:{}:{v}", if who == 19 { "stranger" } else if who == 13 { "maybe-admin" } else { "admin" }));
        if opk == "raw" {
            let after_end = wins.iter().all(|w| w.1 <= now);
            cx.ses.mark(format!("raw:{kind}:update_merkle_tree:shape{}:{}:{v}", kv(&line, "shape").unwrap_or("?"), if after_end { "after-end" } else { "before-end" }));
            if after_end && who != 19 && who != 13 {
                cx.ses.mark(format!("floor:raw:{kind}:admin-after-end-sent"));
            }
            // the offered root must not have become the committed one
            cx.has(now, &other_leaves[0], &other_proof, "outsider-of-offered-root-after-raw");
        }
        obs = out;
        // the committed list keeps verifying (plain: at any time; tiered: when its stage is active)
        let j = cx.rng.below(k_stages as u64) as usize;
        let m = lists[j][0].clone();
        let p = proofs[j].clone();
        cx.has(now, &m, &p, "after-exec");
    }
    cx.ses.end_case();
}

fn pick_admins(rng: &mut Rng) -> Vec<u64> {
    let mut v = vec![];
    for id in 11..=14u64 {
        if rng.chance(1, 2) {
            v.push(id);
        }
    }
    v
}

/// Scenario S: the whole message surface, enumerated at RUN TIME from the crate's JSON schema. Known variants are tied to
/// protocol ops; every OTHER variant is sent — raw JSON, arguments from the schema with another VALID root wherever a
/// string is wanted — by admin and stranger, before / inside / at the end of / after the window, and so are guessed
/// exposures of `update_merkle_tree` (present in both sources, not dispatched). After each: the committed list must
/// still verify and the offered list must not.
fn scenario_surface(cx: &mut Ctx, tiered: bool) {
    let kind = if tiered { "tiered" } else { "plain" };
    cx.ses.begin_case(cx.sut, &format!("case kind={kind} scen=surface"));
    let names: Vec<String> = cx.sut.surface[tiered as usize].variants.iter().map(|(n, _)| n.clone()).collect();
    if !names.is_empty() {
        cx.ses.mark(format!("floor:surface:{kind}:enumerated"));
    }
    for (n, op) in known_variants(tiered) {
        if names.iter().any(|x| x == n) {
            cx.ses.mark(format!("surface:{kind}:known:{n}={op}"));
        } else {
            cx.ses.mark(format!("surface:{kind}:MISSING:{n}"));
            cx.ses.note(format!("surface: `{n}` is no longer a variant of the {kind} ExecuteMsg (the protocol op `{op}` will be rejected by the contract)"));
        }
    }
    let unknown = cx.sut.unknown_variants();
    for u in &unknown {
        cx.ses.mark(format!("surface:{kind}:UNKNOWN:{u}"));
        cx.ses.note(format!("surface: the {kind} ExecuteMsg has a variant `{u}` this harness has no protocol op for — it is sent as raw JSON (arguments from the schema, a valid foreign root wherever a string is wanted) under the monitors"));
    }
    let k_stages = if tiered { 2 } else { 1 };
    let mut lists = vec![];
    let mut roots = vec![];
    for j in 0..k_stages {
        let leaves: Vec<String> = (0..4).map(|i| sender(Names::Acct, (j * 10 + i) as u64)).collect();
        roots.push(cx.build(j as u64, &leaves, false));
        lists.push(leaves);
    }
    let other_leaves: Vec<String> = (0..3).map(|i| sender(Names::Acct, 900 + i)).collect();
    let other_root = cx.build(9, &other_leaves, false);
    let other_proof = cx.proof(9, 1);
    let proofs: Vec<Vec<String>> = (0..k_stages).map(|j| cx.proof(j as u64, 1)).collect();
    let fee = cx.fee();
    let t0 = GENESIS + 2_000;
    let (s1, e1, s2, e2) = (t0 + 10, t0 + 20, t0 + 20, t0 + 30);
    let inst = if tiered {
        format!("inst now={t0} funds=0:{fee} roots={} uri_ok=1 stages={s1}:{e1}:2:0;{s2}:{e2}:2:0 admins=11 admins_ok=1 mutable=1 minter=none", fmt_strs(&roots))
    } else {
        format!("inst now={t0} funds=0:{fee} root={} uri_ok=1 start={s1} end={e2} pal=2 admins=11 admins_ok=1 mutable=1 minter=none", roots[0])
    };
    let mut sends: Vec<(String, u64)> = vec![];
    for shape in 0..7u64 {
        sends.push(("update_merkle_tree".to_string(), shape));
    }
    sends.push(("c14_no_such_message".to_string(), 6));
    for u in &unknown {
        for shape in 0..4u64 {
            sends.push((u.clone(), shape));
        }
    }
    let last_end = e2;
    for (name, shape) in &sends {
        for (clock, cc) in [(t0 + 1, "before-start"), (s1 + 3, "inside"), (last_end, "at-end"), (last_end + 1, "after-end"), (last_end + 50, "long-after-end")] {
            for who in [11u64, 19] {
                let out = cx.step(&inst);
                if !out.starts_with("ok") {
                    cx.ses.note(format!("UNEXPECTED: instantiate failed in surface scenario: {inst} => {out}"));
                    cx.ses.mark("UNEXPECTED:inst-failed:surface");
                    cx.ses.end_case();
                    return;
                }
                let out = cx.step(&format!("exec now={clock} op=raw sender={who} name={name} shape={shape} root={other_root} nroots={k_stages}"));
                let v = kv(&out, "v").unwrap_or("?").to_string();
                let known_unknown = if unknown.contains(name) { "UNKNOWN-VARIANT" } else { "not-in-enum" };
                cx.ses.mark(format!("raw:{kind}:{known_unknown}:{name}:shape{shape}:{cc}:{}:{v}", if who == 11 { "admin" } else { "stranger" }));
                if name == "update_merkle_tree" && cc == "after-end" && who == 11 {
                    cx.ses.mark(format!("floor:raw:{kind}:admin-after-end-sent"));
                }
                // probes: inside stage 1 (plain: the clock is irrelevant) the committed list verifies, the offered list does not
                let t_probe = s1 + 5;
                cx.has(t_probe, &lists[0][1], &proofs[0], "own-proof:after-raw");
                cx.has(t_probe, &other_leaves[1], &other_proof, "outsider-of-offered-root-after-raw");
                if tiered {
                    cx.has(s2 + 5, &lists[1][1], &proofs[1], "own-proof:after-raw:stage2");
                }
            }
        }
    }
    // migrate to the same code, then the same probes
    let out = cx.step(&inst);
    if out.starts_with("ok") {
        cx.step(&format!("exec now={} op=migrate", last_end + 1));
        cx.has(s1 + 5, &lists[0][1], &proofs[0], "own-proof:after-migrate");
    }
    cx.ses.end_case();
}

/// Scenario D: the mint path of the three Merkle minters against both whitelists.
fn scenario_mint(cx: &mut Ctx, tiered: bool, minter: &str, tag: u64) {
    let kind = if tiered { "tiered" } else { "plain" };
    let names = pick_names(&mut cx.rng);
    cx.ses.begin_case(cx.sut, &format!("case kind={kind} scen=mint minter={minter} names={} tag={tag}", names_tag(names)));
    let k_stages = if tiered { cx.rng.range(1, 3) } else { 1 } as usize;
    let mut entries: Vec<Vec<Entry>> = vec![];
    let mut roots = vec![];
    for j in 0..k_stages {
        let nj = cx.rng.range(4, 9) as usize;
        let mut rf = cx.rng.fork();
        let mut es = gen_entries(&mut rf, nj, 4, 0, j as u64 + 1);
        for e in es.iter_mut() {
            e.who += (j * 3) as u64; // overlapping sender ranges between stages
        }
        let leaves: Vec<String> = es.iter().map(|e| entry_leaf(names, e)).collect();
        roots.push(cx.build(j as u64, &leaves, false));
        entries.push(es);
    }
    let fee = cx.fee();
    let t0 = GENESIS + 1_000;
    let mut windows = vec![];
    let pal = cx.rng.range(1, 3);
    let inst = if tiered {
        let mut t = t0 + 100;
        let mut st = vec![];
        for j in 0..k_stages {
            let s = t + if j > 0 && cx.rng.chance(1, 2) { 0 } else { cx.rng.range(1, 50) };
            let e = s + cx.rng.range(100, 300);
            windows.push((s, e));
            st.push(format!("{s}:{e}:{pal}:0"));
            t = e;
        }
        format!("inst now={t0} funds=0:{fee} roots={} uri_ok=1 stages={} admins=11 admins_ok=1 mutable=1 minter={minter}", fmt_strs(&roots), st.join(";"))
    } else {
        windows.push((t0 + 100, t0 + 400));
        format!("inst now={t0} funds=0:{fee} root={} uri_ok=1 start={} end={} pal={pal} admins=11 admins_ok=1 mutable=1 minter={minter}", roots[0], t0 + 100, t0 + 400)
    };
    let out = cx.step(&inst);
    if !out.starts_with("ok") {
        cx.ses.note(format!("UNEXPECTED: instantiate failed in mint scenario: {inst} => {out}"));
        cx.ses.mark("UNEXPECTED:inst-failed:mint");
        cx.ses.end_case();
        return;
    }
    let o = |v: Option<u64>| fmt_opt(&v);
    let mint = |cx: &mut Ctx, now: u64, s: &str, stage: Option<u64>, alloc: Option<u64>, proof: Option<&[String]>, class: &str| -> String {
        let p = match proof {
            None => "none".to_string(),
            Some(p) => fmt_strs(p),
        };
        let out = cx.step(&format!("mint now={now} sender={} stage={} alloc={} proof={p}", hx(s), o(stage), o(alloc)));
        let r = &out[..out.len().min(3)];
        cx.ses.mark(format!("mint:{minter}:{kind}:{class}:{r}"));
        if class == "own-proof" && r == "ok " {
            cx.ses.mark(format!("floor:mint:{minter}:{kind}:own-proof-ok"));
        }
        if class.starts_with("stolen-proof") && r == "err" {
            cx.ses.mark(format!("floor:mint:{minter}:{kind}:stolen-proof-err"));
        }
        out
    };
    let mut now = windows[0].0.saturating_sub(1); // exactly one nanosecond before the first window
    // before the first window: whitelist inactive ⇒ public mint ⇒ closed
    {
        let e = entries[0][0].clone();
        let p = cx.proof(0, 0);
        mint(cx, now, &sender(names, e.who), e.stage, e.alloc, Some(&p), "before-window");
    }
    for j in 0..k_stages {
        let (ws, mut we) = windows[j];
        let start_ok = j == 0 || windows[j - 1].1 < ws;
        now = now.max(if start_ok { ws } else { ws + 1 });
        let es = entries[j].clone();
        // the last three entries are kept unminted for the "update between two mints" and exact-boundary steps below
        let reserve = 3usize;
        for (i, e) in es.iter().enumerate().take(es.len() - reserve) {
            let s = sender(names, e.who);
            let p = cx.proof(j as u64, i);
            let thief = sender(names, 5_000 + i as u64);
            let other_listed = sender(names, es[(i + 1) % es.len()].who);
            // single-fault attempts first (none may succeed, so they do not consume the allowance)
            mint(cx, now, &thief, e.stage, e.alloc, Some(&p), "stolen-proof-by-outsider");
            if other_listed != s {
                mint(cx, now, &other_listed, e.stage, e.alloc, Some(&p), "stolen-proof-by-other-member");
            }
            mint(cx, now, &s, e.stage, Some(e.alloc.unwrap_or(0) + 1), Some(&p), "inflated-allocation");
            mint(cx, now, &s, Some(e.stage.unwrap_or(0) + 1), e.alloc, Some(&p), "wrong-stage-tag");
            mint(cx, now, &s, e.stage, e.alloc, None, "no-proof");
            if !p.is_empty() {
                let mut f = p.clone();
                f[0] = flip_hex_digit(&f[0], 3);
                mint(cx, now, &s, e.stage, e.alloc, Some(&f), "bit-flipped");
                let mut g = p.clone();
                g[0] = format!("{}zz", &g[0][..g[0].len() - 2]);
                mint(cx, now, &s, e.stage, e.alloc, Some(&g), "non-hex");
                mint(cx, now, &s, e.stage, e.alloc, Some(&p[..p.len() - 1]), "truncated");
            }
            // the honest mints: up to the allowance, then one more
            let allowance = e.alloc.unwrap_or(pal);
            let tries = allowance.min(4) + 1;
            for k in 0..tries {
                now += cx.rng.below(2); // same block time or the next nanosecond
                if now > we {
                    break;
                }
                mint(cx, now, &s, e.stage, e.alloc, Some(&p), if k == 0 { "own-proof" } else if k < allowance { "own-proof-again" } else { "own-proof-over-allowance" });
                if k == 0 && i == 0 {
                    // AFTER a successful mint of this sender, in the same block: nothing it proved carries over
                    mint(cx, now, &thief, e.stage, e.alloc, Some(&p), "stolen-proof-after-owner-minted");
                    mint(cx, now, &s, e.stage, Some(e.alloc.unwrap_or(0) + 1), Some(&p), "inflated-allocation-after-own-mint");
                    mint(cx, now, &s, Some(e.stage.unwrap_or(0) + 1), e.alloc, Some(&p), "wrong-stage-tag-after-own-mint");
                    if !p.is_empty() {
                        let mut f = p.clone();
                        f[0] = flip_hex_digit(&f[0], 5);
                        mint(cx, now, &s, e.stage, e.alloc, Some(&f), "bit-flipped-after-own-mint");
                    } else {
                        let nb = cx.sut.n();
                        let ext = [random_hex(&mut cx.rng, nb)];
                        mint(cx, now, &s, e.stage, e.alloc, Some(&ext), "extended-after-own-mint");
                    }
                    mint(cx, now, &s, e.stage, e.alloc, None, "no-proof-after-own-mint");
                }
            }
            if now >= we {
                break;
            }
        }
        // ---- an UPDATE between two mints (same block time)
        let (r1, r2) = (es.len() - 2, es.len() - 1);
        let do_update = cx.rng.chance(2, 3);
        if do_update && now + 3 < we && now >= ws + 2 {
            now += 1;
            let e1 = es[r1].clone();
            let p1 = cx.proof(j as u64, r1);
            let e2 = es[r2].clone();
            let p2 = cx.proof(j as u64, r2);
            mint(cx, now, &sender(names, e1.who), e1.stage, e1.alloc, Some(&p1), "own-proof");
            if tiered && j + 1 < k_stages {
                // hand the clock over to the next stage by two admin updates: this stage ends at now-1, the next starts now
                let a = cx.step(&format!("exec now={now} op=update_stage sender=11 id={j} start=- end={} pal=- denom=-", now - 1));
                let b = cx.step(&format!("exec now={now} op=update_stage sender=11 id={} start={now} end=- pal=- denom=-", j + 1));
                let handed = kv(&a, "v") == Some("ok") && kv(&b, "v") == Some("ok");
                cx.ses.mark(format!("mint:{minter}:tiered:handover-by-update:{}", if handed { "done" } else { "refused" }));
                if handed {
                    windows[j].1 = now - 1;
                    windows[j + 1].0 = now;
                    we = now - 1;
                    // the unminted entry of THIS stage with its own proof: the root in force is now the next stage's
                    let listed_next = entries[j + 1].contains(&e2);
                    let out = mint(cx, now, &sender(names, e2.who), e2.stage, e2.alloc, Some(&p2), &format!("prev-stage-own-proof-after-handover:listed{}", listed_next as u8));
                    if out.starts_with("err") && !listed_next {
                        cx.ses.mark(format!("floor:mint:tiered:other-root-in-force-after-update"));
                    }
                    // … and an entry of the next stage is let through at the same instant
                    let en = entries[j + 1][entries[j + 1].len() - 1].clone();
                    let pn = cx.proof(j as u64 + 1, entries[j + 1].len() - 1);
                    let out = mint(cx, now, &sender(names, en.who), en.stage, en.alloc, Some(&pn), "next-stage-own-proof-after-handover");
                    if out.starts_with("ok") {
                        cx.ses.mark(format!("floor:mint:tiered:next-stage-entry-accepted-after-update"));
                    }
                }
            } else if !tiered {
                // the admin closes the window at this very instant (end := now; the plain window is `start ≤ t < end`)
                let a = cx.step(&format!("exec now={now} op=update_end sender=11 t={now}"));
                let closed = kv(&a, "v") == Some("ok");
                cx.ses.mark(format!("mint:{minter}:plain:closed-by-update:{}", if closed { "done" } else { "refused" }));
                if closed {
                    windows[j].1 = now;
                    we = now;
                    let out = mint(cx, now, &sender(names, e2.who), e2.stage, e2.alloc, Some(&p2), "own-proof-after-window-closed-by-update");
                    if out.starts_with("err") {
                        cx.ses.mark(format!("floor:mint:plain:rejected-after-close-by-update"));
                    }
                    // the membership query does not depend on the window
                    cx.has(now, &entry_leaf(names, &e2), &p2, "own-proof:after-close-by-update");
                }
            } else {
                // last stage of a tiered whitelist: a stranger's update changes nothing, the entry still gets in
                cx.step(&format!("exec now={now} op=update_stage sender=19 id={j} start=- end={} pal=- denom=-", now - 1));
                mint(cx, now, &sender(names, e2.who), e2.stage, e2.alloc, Some(&p2), "own-proof");
            }
        }
        // a LISTED entry at the exact end of the window: the tiered window is `start ≤ t ≤ end`, the plain one `start ≤ t < end`
        if now <= we {
            let r0 = es.len() - 3;
            let e0 = es[r0].clone();
            let p0 = cx.proof(j as u64, r0);
            if tiered {
                let out = mint(cx, we, &sender(names, e0.who), e0.stage, e0.alloc, Some(&p0), "own-proof-at-window-end");
                if out.starts_with("ok") {
                    cx.ses.mark("floor:mint:tiered:accepted-at-window-end");
                }
            } else {
                if now < we {
                    let out = mint(cx, we - 1, &sender(names, e0.who), e0.stage, e0.alloc, Some(&p0), "own-proof-at-window-end-1");
                    if out.starts_with("ok") {
                        cx.ses.mark("floor:mint:plain:accepted-at-window-end-1");
                    }
                }
                mint(cx, we, &sender(names, e0.who), e0.stage, e0.alloc, Some(&p0), "own-proof-at-window-end");
            }
        }
        // at the window's last instant and just after
        let e = es[0].clone();
        let p = cx.proof(j as u64, 0);
        now = now.max(we);
        mint(cx, now, &sender(names, 9_000 + j as u64), e.stage, e.alloc, Some(&p), "outsider-at-end");
        if j + 1 < k_stages {
            // next stage active: this stage's proof is useless unless the entry is also in the next list
            let (ns, ne) = windows[j + 1];
            let t = ((ns + ne) / 2).max(now);
            let listed_next = entries[j + 1].contains(&e);
            mint(cx, t, &sender(names, e.who), e.stage, e.alloc, Some(&p), &format!("previous-stage-proof:listed{}", listed_next as u8));
            if windows[j].1 + 1 < ns {
                mint(cx, windows[j].1 + 1, &sender(names, e.who), e.stage, e.alloc, Some(&p), "gap-between-stages");
            }
        } else {
            mint(cx, we + 1, &sender(names, e.who), e.stage, e.alloc, Some(&p), "after-window");
        }
    }
    cx.ses.end_case();
}

/// strings whose digests are valid UTF-8 (so the concatenation of two digests can travel as a JSON string).
/// BLAKE3/16: found by search at run time (≈ 1 in 11 000). SHA-256: ≈ 1 in 10^8 — found once offline, verified here.
fn utf8_digest_strings(tiered: bool) -> Vec<String> {
    let mut found = vec![];
    if tiered {
        let mut i = 0u64;
        while found.len() < 3 && i < 5_000_000 {
            let s = format!("m7x{i}");
            if std::str::from_utf8(&blake3_16(s.as_bytes())).is_ok() {
                found.push(s);
            }
            i += 1;
        }
    } else {
        for i in SHA256_UTF8_SEEDS {
            let s = format!("s{i}");
            if std::str::from_utf8(&sha256_32(s.as_bytes())).is_ok() {
                found.push(s);
            }
        }
    }
    found
}
/// `sha256("s<i>")` is valid UTF-8 for these `i` (offline search over 6·10^8 candidates; re-verified at run time)
const SHA256_UTF8_SEEDS: &[u64] = &[74725074, 189763270, 209929981];

/// Scenario F: the counter-example to the LITERAL soundness clause, on the real contracts (`C14_sound_counterexample`):
/// the 2n-byte preimage of an inner node is answered `has_member: true` although it is not a listed entry — no collision
/// involved. The soundness monitor reports it as `<contract>/has_member/inner-preimage-accepted` (a KNOWN finding, listed in
/// known_findings.json) in EVERY run; returns the lines of the case (for the corpus replay).
fn scenario_inner_preimage(cx: &mut Ctx, tiered: bool) -> Vec<String> {
    let ms = utf8_digest_strings(tiered);
    let (kind, k) = if tiered { ("tiered", "t") } else { ("plain", "p") };
    let mut lines = vec![];
    if ms.len() < 2 {
        cx.ses.note(format!("inner-preimage scenario skipped ({kind}): no two strings with UTF-8 digests available"));
        return lines;
    }
    let header = format!("case kind={kind} scen=inner-preimage");
    cx.ses.begin_case(cx.sut, &header);
    lines.push(header);
    let fee = creation_fee(tiered);
    let t0 = GENESIS + 3_000;
    let mut step = |cx: &mut Ctx, l: String| -> String {
        let o = cx.step(&l);
        lines.push(l);
        o
    };
    let h = |d: &[u8]| -> Vec<u8> {
        if tiered {
            blake3_16(d).to_vec()
        } else {
            sha256_32(d).to_vec()
        }
    };
    let (ha, hb) = (h(ms[0].as_bytes()), h(ms[1].as_bytes()));
    let (x, y) = if ha <= hb { (ha, hb) } else { (hb, ha) };
    let mut pre = x.clone();
    pre.extend_from_slice(&y);
    let n2 = pre.len();
    let pre_s = String::from_utf8(pre).unwrap();
    // two members: the inner preimage IS the root's preimage; empty proof
    for m in &ms[..2] {
        step(cx, format!("leaf m={}", hx(m)));
    }
    let root2 = step(cx, "build slot=0".to_string()).strip_prefix("ok ").unwrap_or("-").to_string();
    // three members: the third is promoted; the inner preimage needs the proof [H(c)]
    let third = ms.get(2).cloned().unwrap_or_else(|| "third-member".to_string());
    for m in ms[..2].iter().chain(std::iter::once(&third)) {
        step(cx, format!("leaf m={}", hx(m)));
    }
    let root3 = step(cx, "build slot=1".to_string()).strip_prefix("ok ").unwrap_or("-").to_string();
    let hc = h(third.as_bytes());
    if tiered {
        step(cx, format!("inst now={t0} funds=0:{fee} roots={root2},{root3} uri_ok=1 stages={}:{}:1:0;{}:{}:1:0 admins=11 admins_ok=1 mutable=0 minter=none", t0 + 10, t0 + 20, t0 + 30, t0 + 40));
    } else {
        step(cx, format!("inst now={t0} funds=0:{fee} root={root2} uri_ok=1 start={} end={} pal=1 admins=11 admins_ok=1 mutable=0 minter=none", t0 + 10, t0 + 20));
    }
    // a 2n-byte string that is NOT an inner preimage stays out
    let o = step(cx, format!("has now={} m={} proof=-", t0 + 15, hx(&"y".repeat(n2))));
    cx.ses.mark(format!("has:{k}:not-an-inner-preimage:{}", o.replace(' ', "")));
    // the inner preimage gets in with the empty proof
    let o = step(cx, format!("has now={} m={} proof=-", t0 + 15, hx(&pre_s)));
    cx.ses.mark(format!("has:{k}:inner-preimage:empty-proof:{}", o.replace(' ', "")));
    // … and, in a three-member tree, with the one-element proof of its parent
    if !tiered {
        step(cx, format!("inst now={t0} funds=0:{fee} root={root3} uri_ok=1 start={} end={} pal=1 admins=11 admins_ok=1 mutable=0 minter=none", t0 + 10, t0 + 20));
    }
    let o = step(cx, format!("has now={} m={} proof={}", if tiered { t0 + 35 } else { t0 + 15 }, hx(&pre_s), hex::encode(hc)));
    cx.ses.mark(format!("has:{k}:inner-preimage:one-element-proof:{}", o.replace(' ', "")));
    cx.ses.end_case();
    lines
}

/// Scenario E: the Lean hashes against the Rust crates on inputs around every block / chunk boundary.
fn scenario_hashes(cx: &mut Ctx) {
    cx.ses.begin_case(cx.sut, "case kind=plain scen=hashes");
    let mut lens: Vec<usize> = (0..=130).collect();
    lens.extend([183, 184, 191, 192, 193, 247, 248, 255, 256, 257, 511, 512, 513, 1023, 1024, 1025, 1087, 1088, 1089, 2047, 2048, 2049, 3071, 3072, 3073, 4095, 4096, 4097, 5119, 5120, 5121, 7168, 8191, 8192, 8193]);
    let extra = cx.ses.scale(40, 2000);
    for _ in 0..extra {
        let hi = if cx.rng.chance(1, 10) { 20_000 } else { 300 };
        lens.push(cx.rng.below(hi) as usize);
    }
    for l in lens {
        let bytes: Vec<u8> = (0..l).map(|_| cx.rng.below(256) as u8).collect();
        let h = hex::encode(&bytes);
        for alg in ["sha256", "blake3", "blake3_16"] {
            cx.step(&format!("hash alg={alg} m={h}"));
        }
        cx.ses.mark(format!("hash:len-mod64-{}:chunks{}", l % 64, (l / 1024).min(9)));
    }
    cx.ses.end_case();
}

fn main() {
    let mut ses = Session::new("C14");
    let mut sut = fresh(false, [surface_of(false), surface_of(true)]);
    if ses.maybe_replay(&mut sut) {
        ses.finish(&mut sut);
    }
    // ---- coverage floor: without these the run would be vacuous (every seed, quick tier)
    for k in ["p", "t"] {
        ses.require(format!("floor:has:{k}:own-proof-accepted"));
        ses.require(format!("floor:has:{k}:outsider-rejected"));
        ses.require(format!("floor:has:{k}:malformed-err"));
    }
    ses.require("floor:has:t:no-active-stage-err");
    ses.require("floor:boundary:t:accepted-at-end");
    ses.require("floor:boundary:t:other-root-or-none-at-end+1");
    for kind in ["plain", "tiered"] {
        ses.require(format!("floor:inst:{kind}:ok"));
        ses.require(format!("floor:inst:{kind}:malformed-root-err"));
        ses.require(format!("floor:surface:{kind}:enumerated"));
        ses.require(format!("floor:raw:{kind}:admin-after-end-sent"));
        for minter in ["vm", "vmf", "oem"] {
            ses.require(format!("floor:mint:{minter}:{kind}:own-proof-ok"));
            ses.require(format!("floor:mint:{minter}:{kind}:stolen-proof-err"));
        }
    }
    ses.require("floor:mint:tiered:other-root-in-force-after-update");
    ses.require("floor:mint:tiered:next-stage-entry-accepted-after-update");
    ses.require("floor:mint:plain:rejected-after-close-by-update");
    ses.require("floor:mint:tiered:accepted-at-window-end");
    ses.require("floor:mint:plain:accepted-at-window-end-1");
    // the known finding must still reproduce (relax when a repair of the leaf/inner confusion is recorded)
    ses.require("has:t:inner-preimage:empty-proof:ok1");
    ses.require("has:p:inner-preimage:empty-proof:ok1");
    ses.require("list:plain:has-listed-entry-of-2n-bytes");
    ses.require("mintfacts:own-proof:seen0:ok");

    let rng = ses.rng.fork();
    let thorough = ses.tier() == Tier::Thorough;
    let reps_small = ses.scale(4, 20);
    let n_hist = ses.scale(300, 6000);
    let n_mint = ses.scale(16, 150);
    let mut cx = Ctx { ses: &mut ses, sut: &mut sut, rng };

    scenario_hashes(&mut cx);
    for tiered in [false, true] {
        scenario_instantiate(&mut cx, tiered);
        scenario_surface(&mut cx, tiered);
    }
    // the KNOWN finding (known_findings.json: `*/has_member/inner-preimage-accepted`): exercised in every run, on both contracts
    let ce_t = scenario_inner_preimage(&mut cx, true);
    let ce_p = scenario_inner_preimage(&mut cx, false);
    if let Ok(dir) = std::env::var("C14_DUMP_COUNTEREXAMPLE") {
        // development aid: write the replays for corpus/C14
        for (name, c, ops) in [("inner-preimage-accepted", "tiered-whitelist-merkletree", &ce_t), ("inner-preimage-accepted-sha256", "whitelist-merkletree", &ce_p)] {
            let doc = json!({"property": "C14", "kind": "monitor", "key": format!("{c}/has_member/inner-preimage-accepted"),
                "what": "the 2n-byte preimage of an inner node is answered has_member:true although it is not a listed entry (no leaf/inner domain separation); Lean: C14_sound_counterexample",
                "ops": ops, "how_to_replay": format!("./check C14 --replay corpus/C14/{name}.json")});
            std::fs::write(std::path::Path::new(&dir).join(format!("{name}.json")), serde_json::to_string_pretty(&doc).unwrap()).ok();
        }
    }
    // a bare 64-character (contract) address list on the SHA-256 contract: listed entries of exactly 2·32 bytes — every seed
    scenario_membership(&mut cx, false, 5, 900, Some((Names::Contract64, 0)));
    scenario_membership(&mut cx, false, 12, 901, Some((Names::Mixed, 0)));
    // sizes: every size up to 17, around every power of two up to 257 (quick) / 4096 (thorough), beyond the pagination limits
    // of the list-based whitelists (25/26, 100/101), some random
    let mut sizes: Vec<usize> = (1..=17).collect();
    for p in [32usize, 64, 128, 256] {
        sizes.extend([p - 1, p, p + 1]);
    }
    sizes.extend([25, 26, 27, 100, 101, 102]);
    for _ in 0..4 {
        sizes.push(cx.rng.range(18, 257) as usize);
    }
    for tiered in [false, true] {
        for rep in 0..reps_small {
            for &n in &sizes {
                scenario_membership(&mut cx, tiered, n, rep, None);
            }
        }
        if thorough {
            let mut big: Vec<usize> = vec![];
            for p in [512usize, 1024, 2048, 4096] {
                big.extend([p - 1, p, p + 1]);
            }
            big.pop(); // 4097 is beyond the stated range
            for _ in 0..6 {
                big.push(cx.rng.range(258, 4096) as usize);
            }
            for rep in 0..2 {
                for &n in &big {
                    scenario_membership(&mut cx, tiered, n, 100 + rep, None);
                }
            }
        }
    }
    for i in 0..n_hist {
        scenario_history(&mut cx, i % 2 == 1, i);
    }
    for i in 0..n_mint {
        for minter in ["vm", "vmf", "oem"] {
            for tiered in [false, true] {
                scenario_mint(&mut cx, tiered, minter, i);
            }
        }
    }
    drop(cx);
    ses.note("trees: rs_merkle 1.4 with LOCAL sorting hashers (SHA-256 / BLAKE3-16) cross-checked by a hand-rolled layered builder; entries `stage‖sender‖allocation` in all four forms; senders `acctNNNNN`, 44-char bech32-like, 64-char (contract-address length = 2·32 bytes), mixed 44/64, digit-leading; duplicates 0/10/50 %");
    ses.note("adversarial pairs per sampled member: another member's proof, outsider with a member's proof, outsider of exactly 2·digest bytes, mutated member string, truncated (first/last), extended (random/duplicate), swapped, reversed, one hex digit flipped, upper-cased element, wrong-length hex (±1, ±2, 0, the other contract's size), non-hex character");
    ses.note("message surface enumerated at run time from schema_for!(ExecuteMsg); raw `update_merkle_tree` (7 shapes, another valid root) sent before/inside/at/after the window by admin and stranger; every variant without a protocol op is sent the same way");
    ses.note("Lean SHA-256 / BLAKE3 / BLAKE3-16 compared with sha2 / blake3 on every leaf of trees ≤ 33 leaves, every proof element (via `proof`), every root, and on random inputs of every length 0..130 and around 64-byte / 1024-byte boundaries up to 20 kB");
    std::fs::create_dir_all(&ses.args.out).ok();
    std::fs::write(ses.args.out.join("classes.txt"), ses.classes.iter().cloned().collect::<Vec<_>>().join("\n")).ok();
    ses.finish(&mut sut);
}
