//! C14 — Merkle whitelist membership is complete and sound.
//!
//! The REAL `whitelist-merkletree` (SHA-256) and `tiered-whitelist-merkletree` (BLAKE3 truncated to 16 bytes) contracts
//! and the three Merkle minters run in a cw-multi-test `App`; trees and proofs come from `rs_merkle` with the repo's own
//! sorting hasher (`whitelist_mtree::tests::hasher::SortingSha256Hasher`; the BLAKE3 twin below has the same shape).
//! Every line is also executed by the Lean driver (`LP.Merkle`, `LP.MerkleWl`, Lean SHA-256 / BLAKE3).
//!
//! Protocol: see `lean/LaunchpadModel/Driver/C14.lean`.
use std::collections::{BTreeMap, HashMap, HashSet};

use cosmwasm_std::{coin, Addr, BlockInfo, Empty, Timestamp};
use cw_multi_test::{BankSudo, Executor, SudoMsg};
use lp_harness::boxes::{self, App};
use lp_harness::world::*;
use lp_harness::*;
use rs_merkle::{Hasher, MerkleTree};
use serde_json::{json, Value};
use whitelist_mtree::tests::hasher::SortingSha256Hasher;

const GENESIS: u64 = sg_utils::GENESIS_MINT_START_TIME;
/// public sale of every minter starts here (far beyond every whitelist window of a case): public mints are closed
const HORIZON: u64 = GENESIS + 1_000_000_000_000_000;
const WL_PRICE: u128 = 100_000_000;
const CREATOR: u64 = 10;

// ------------------------------------------------------------------------------------------------ trees

/// BLAKE3/16 twin of the repo's `SortingSha256Hasher` (the tiered crate ships no hasher of its own)
#[derive(Clone)]
struct SortingBlake3Hasher {}
impl Hasher for SortingBlake3Hasher {
    type Hash = [u8; 16];
    fn concat_and_hash(left: &Self::Hash, right: Option<&Self::Hash>) -> Self::Hash {
        match right {
            Some(right_node) => {
                let mut both = [left, right_node];
                both.sort_unstable();
                let mut concatenated: Vec<u8> = (*both[0]).into();
                concatenated.append(&mut (*both[1]).into());
                Self::hash(&concatenated)
            }
            None => *left,
        }
    }
    fn hash(data: &[u8]) -> Self::Hash {
        blake3::hash(data).as_bytes()[..16].try_into().unwrap()
    }
}

enum Tree {
    Sha(MerkleTree<SortingSha256Hasher>),
    B3(MerkleTree<SortingBlake3Hasher>),
}
impl Tree {
    fn build(tiered: bool, members: &[String]) -> Tree {
        if tiered {
            let leaves: Vec<[u8; 16]> = members.iter().map(|m| SortingBlake3Hasher::hash(m.as_bytes())).collect();
            Tree::B3(MerkleTree::<SortingBlake3Hasher>::from_leaves(&leaves))
        } else {
            let leaves: Vec<[u8; 32]> = members.iter().map(|m| SortingSha256Hasher::hash(m.as_bytes())).collect();
            Tree::Sha(MerkleTree::<SortingSha256Hasher>::from_leaves(&leaves))
        }
    }
    fn root_hex(&self) -> Option<String> {
        match self {
            Tree::Sha(t) => t.root_hex(),
            Tree::B3(t) => t.root_hex(),
        }
    }
    fn proof_hex(&self, i: usize) -> Vec<String> {
        match self {
            Tree::Sha(t) => t.proof(&[i]).proof_hashes_hex(),
            Tree::B3(t) => t.proof(&[i]).proof_hashes_hex(),
        }
    }
}

// ------------------------------------------------------------------------------------------------ Sut

struct S {
    tiered: bool,
    pending: Vec<String>,
    slots: BTreeMap<u64, (Tree, Vec<String>)>,
    /// lower-case root hex -> (slot, member set): what the monitors know about the committed lists
    by_root: HashMap<String, (u64, HashSet<String>)>,
    app: Option<App>,
    wl: Option<Addr>,
    wl_code: u64,
    minter: Option<Addr>,
    roots0: Vec<String>,
    height: u64,
    viol: Option<(String, String)>,
}

fn fresh(tiered: bool) -> S {
    S {
        tiered,
        pending: vec![],
        slots: BTreeMap::new(),
        by_root: HashMap::new(),
        app: None,
        wl: None,
        wl_code: 0,
        minter: None,
        roots0: vec![],
        height: 100,
        viol: None,
    }
}

fn ts(n: u64) -> String {
    n.to_string()
}
fn str_list(v: &str) -> Vec<String> {
    if v == "-" {
        vec![]
    } else {
        v.split(',').map(|s| s.to_string()).collect()
    }
}
fn fmt_strs(v: &[String]) -> String {
    if v.is_empty() {
        "-".into()
    } else {
        v.join(",")
    }
}
fn hex_arg(line: &str, key: &str) -> Option<String> {
    let h = kv(line, key)?;
    String::from_utf8(hex::decode(h).ok()?).ok()
}
fn is_hex_of(s: &str, nbytes: usize) -> bool {
    s.len() == 2 * nbytes && s.bytes().all(|c| c.is_ascii_hexdigit())
}
fn leaf_string(stage: Option<u64>, sender: &str, alloc: Option<u64>) -> String {
    // independent re-statement of the minters' `format!` arms
    let mut s = String::new();
    if let Some(st) = stage {
        s.push_str(&st.to_string());
    }
    s.push_str(sender);
    if let Some(a) = alloc {
        s.push_str(&a.to_string());
    }
    s
}

/// wildcard-free matches: a new execute variant (e.g. a dispatched `UpdateMerkleTree`) stops this from compiling
#[allow(dead_code)]
fn plain_surface(m: &whitelist_mtree::msg::ExecuteMsg) -> &'static str {
    use whitelist_mtree::msg::ExecuteMsg::*;
    match m {
        UpdateStartTime(_) => "update_start",
        UpdateEndTime(_) => "update_end",
        UpdateAdmins { .. } => "p_update_admins",
        Freeze {} => "p_freeze",
    }
}
#[allow(dead_code)]
fn tiered_surface(m: &tiered_whitelist_merkletree::msg::ExecuteMsg) -> &'static str {
    use tiered_whitelist_merkletree::msg::ExecuteMsg::*;
    match m {
        UpdateStageConfig(_) => "update_stage",
        UpdateAdmins { .. } => "t_update_admins",
        Freeze {} => "t_freeze",
    }
}

impl S {
    fn n(&self) -> usize {
        if self.tiered {
            16
        } else {
            32
        }
    }
    fn set_time(&mut self, now: u64) {
        self.height += 1;
        let h = self.height;
        if let Some(app) = self.app.as_mut() {
            app.set_block(BlockInfo { height: h, time: Timestamp::from_nanos(now), chain_id: "stargaze-1".into() });
        }
    }
    fn mint_to(&mut self, to: &str, amt: u128, d: u64) {
        if amt == 0 {
            return;
        }
        let app = self.app.as_mut().unwrap();
        app.sudo(SudoMsg::Bank(BankSudo::Mint { to_address: to.to_string(), amount: vec![coin(amt, denom(d))] })).unwrap();
    }

    fn roots(&self) -> Result<Vec<String>, String> {
        let app = self.app.as_ref().unwrap();
        let wl = self.wl.clone().unwrap();
        catch(|| -> Result<Vec<String>, String> {
            if self.tiered {
                let v: Value = app.wrap().query_wasm_smart(wl, &json!({"merkle_roots": {}})).map_err(|e| e.to_string())?;
                Ok(v["merkle_roots"].as_array().unwrap().iter().map(|x| x.as_str().unwrap().to_string()).collect())
            } else {
                let v: Value = app.wrap().query_wasm_smart(wl, &json!({"merkle_root": {}})).map_err(|e| e.to_string())?;
                Ok(vec![v["merkle_root"].as_str().unwrap().to_string()])
            }
        })?
    }
    fn admins(&self) -> (Vec<u64>, bool) {
        let app = self.app.as_ref().unwrap();
        let v: Value = app.wrap().query_wasm_smart(self.wl.clone().unwrap(), &json!({"admin_list": {}})).unwrap();
        (v["admins"].as_array().unwrap().iter().map(|x| addr_id(x.as_str().unwrap())).collect(), v["mutable"].as_bool().unwrap())
    }
    /// (start, end, pal, denom) of every stage, from raw storage (the `Stages` query indexes MERKLE_ROOTS and may panic)
    fn stages(&self) -> Vec<(u64, u64, u64, u64)> {
        let app = self.app.as_ref().unwrap();
        let st = app.contract_storage(&self.wl.clone().unwrap());
        let cfg = tiered_whitelist_merkletree::state::CONFIG.load(&*st).unwrap();
        cfg.stages.iter().map(|s| (s.start_time.nanos(), s.end_time.nanos(), s.per_address_limit as u64, denom_id(&s.mint_price.denom))).collect()
    }
    /// the property's notion of "currently active stage": the first window containing `now` (both ends inclusive, as the
    /// code has it; the exact window semantics is C13's subject)
    fn active_idx(&self, now: u64) -> Option<usize> {
        self.stages().iter().position(|s| s.0 <= now && now <= s.1)
    }
    fn obs(&self, _now: u64) -> String {
        let roots = self.roots().unwrap_or_else(|e| vec![format!("query-failed:{e}")]);
        let (admins, mutable) = self.admins();
        if self.tiered {
            let stages = self.stages();
            let st = if stages.is_empty() {
                "-".to_string()
            } else {
                stages.iter().map(|s| format!("{}:{}:{}:{}", s.0, s.1, s.2, s.3)).collect::<Vec<_>>().join(";")
            };
            let app = self.app.as_ref().unwrap();
            let active: u64 = app.wrap().query_wasm_smart(self.wl.clone().unwrap(), &json!({"active_stage_id": {}})).unwrap();
            format!("roots={} stages={} active={} admins={} mut={}", fmt_strs(&roots), st, active, fmt_list(&admins), mutable as u8)
        } else {
            let app = self.app.as_ref().unwrap();
            let c: Value = app.wrap().query_wasm_smart(self.wl.clone().unwrap(), &json!({"config": {}})).unwrap();
            let start: u64 = c["start_time"].as_str().unwrap().parse().unwrap();
            let end: u64 = c["end_time"].as_str().unwrap().parse().unwrap();
            format!(
                "roots={} start={} end={} active={} pal={} admins={} mut={}",
                fmt_strs(&roots), start, end, c["is_active"].as_bool().unwrap() as u8, c["per_address_limit"].as_u64().unwrap(), fmt_list(&admins), mutable as u8
            )
        }
    }
    fn check_roots_unchanged(&mut self, op: &str) {
        if self.viol.is_some() {
            return;
        }
        if let Ok(r) = self.roots() {
            if r != self.roots0 {
                let c = if self.tiered { "tiered-whitelist-merkletree" } else { "whitelist-merkletree" };
                self.viol = Some((format!("{c}/{op}/root-changed"), format!("stored root(s) {:?} differ from the instantiated {:?}", r, self.roots0)));
            }
        }
    }

    // ---------------------------------------------------------------------------------------- ops

    fn op_hash(&self, line: &str) -> String {
        let Some(h) = kv(line, "m") else { return "bad-op".into() };
        let Ok(m) = hex::decode(h) else { return "bad-op".into() };
        match kv(line, "alg") {
            Some("sha256") => {
                use sha2::Digest;
                format!("ok {}", hex::encode(sha2::Sha256::digest(&m)))
            }
            Some("blake3") => format!("ok {}", hex::encode(blake3::hash(&m).as_bytes())),
            Some("blake3_16") => format!("ok {}", hex::encode(&blake3::hash(&m).as_bytes()[..16])),
            _ => "bad-op".into(),
        }
    }

    fn op_build(&mut self, line: &str) -> String {
        let slot = kv_u64(line, "slot").unwrap();
        let members = std::mem::take(&mut self.pending);
        let tree = Tree::build(self.tiered, &members);
        let root = tree.root_hex();
        if let Some(r) = &root {
            self.by_root.insert(r.clone(), (slot, members.iter().cloned().collect()));
        }
        self.slots.insert(slot, (tree, members));
        format!("ok {}", root.unwrap_or_else(|| "-".into()))
    }

    fn op_proof(&self, line: &str) -> String {
        let slot = kv_u64(line, "slot").unwrap();
        let i = kv_u64(line, "i").unwrap() as usize;
        let Some((tree, _)) = self.slots.get(&slot) else { return "bad-op".into() };
        match catch(|| tree.proof_hex(i)) {
            Ok(p) => format!("ok {}", fmt_strs(&p)),
            Err(_) => "err".into(),
        }
    }

    fn op_inst(&mut self, line: &str) -> String {
        let now = kv_u64(line, "now").unwrap();
        let mut app = boxes::custom_mock_app();
        self.wl_code = app.store_code(if self.tiered { boxes::tiered_whitelist_mtree() } else { boxes::whitelist_mtree() });
        self.app = Some(app);
        self.wl = None;
        self.minter = None;
        self.set_time(now);
        let funds_p = kv_pairs(line, "funds").unwrap();
        for (d, amt) in &funds_p {
            self.mint_to(&addr(CREATOR), *amt, *d as u64);
        }
        let funds = coins_of(&funds_p);
        let mut admins: Vec<String> = kv_list(line, "admins").unwrap().iter().map(|i| addr(*i as u64)).collect();
        if !kv_bool(line, "admins_ok").unwrap() {
            admins.push("Ab".into()); // rejected by addr_validate
        }
        let mutable = kv_bool(line, "mutable").unwrap();
        let uri_ok = kv_bool(line, "uri_ok").unwrap();
        let msg = if self.tiered {
            let roots = str_list(kv(line, "roots").unwrap());
            let stages: Vec<Value> = match kv(line, "stages").unwrap() {
                "-" => vec![],
                s => s
                    .split(';')
                    .enumerate()
                    .map(|(i, st)| {
                        let f: Vec<u64> = st.split(':').map(|x| x.parse().unwrap()).collect();
                        json!({"name": format!("stage{i}"), "start_time": ts(f[0]), "end_time": ts(f[1]),
                               "mint_price": {"denom": denom(f[3]), "amount": WL_PRICE.to_string()},
                               "per_address_limit": f[2], "mint_count_limit": null})
                    })
                    .collect(),
            };
            let uris: Value = if !uri_ok { json!(["ipfs://ok", "not a url"]) } else if roots.len() % 2 == 0 { Value::Null } else { json!(["ipfs://tree"]) };
            json!({"stages": stages, "merkle_roots": roots, "merkle_tree_uris": uris, "admins": admins, "admins_mutable": mutable})
        } else {
            let root = kv(line, "root").unwrap();
            let uri: Value = if !uri_ok { json!("not a url") } else if kv_u64(line, "start").unwrap() % 2 == 0 { Value::Null } else { json!("ipfs://tree") };
            json!({"merkle_root": root, "merkle_tree_uri": uri, "start_time": ts(kv_u64(line, "start").unwrap()), "end_time": ts(kv_u64(line, "end").unwrap()),
                   "mint_price": {"denom": denom(0), "amount": WL_PRICE.to_string()}, "per_address_limit": kv_u64(line, "pal").unwrap(),
                   "admins": admins, "admins_mutable": mutable})
        };
        let code = self.wl_code;
        let app = self.app.as_mut().unwrap();
        let r = catch(|| app.instantiate_contract(code, a(CREATOR), &msg, &funds, "wl", Some(addr(CREATOR))));
        match r {
            Ok(Ok(w)) => {
                self.wl = Some(w);
                self.roots0 = self.roots().unwrap_or_default();
                match kv(line, "minter") {
                    None | Some("none") => {}
                    Some(k) => {
                        if let Err(e) = self.setup_minter(k) {
                            return format!("bad-minter-setup:{}", e.replace(' ', "_"));
                        }
                    }
                }
                format!("ok {}", self.obs(now))
            }
            _ => "err".into(),
        }
    }

    fn setup_minter(&mut self, kind: &str) -> Result<(), String> {
        let wl = self.wl.clone().unwrap();
        let app = self.app.as_mut().unwrap();
        let sg721 = app.store_code(boxes::sg721_base());
        let ustars = |amt: u128| json!({"denom": denom(0), "amount": amt.to_string()});
        let collection = json!({"code_id": sg721, "name": "Collection Name", "symbol": "COL",
            "info": {"creator": addr(CREATOR), "description": "Stargaze Monkeys", "image": "https://example.com/image.png",
                     "external_link": null, "explicit_content": false, "start_trading_time": null, "royalty_info": null}});
        let (factory_code, minter_code, params, init_msg) = match kind {
            "vm" | "vmf" => {
                let mc = app.store_code(if kind == "vm" { boxes::vending_minter_merkle_wl() } else { boxes::vending_minter_merkle_wl_featured() });
                let fc = app.store_code(boxes::vending_factory());
                (
                    fc,
                    mc,
                    json!({"max_token_limit": 10000, "max_per_address_limit": 50, "airdrop_mint_price": ustars(0), "airdrop_mint_fee_bps": 10000, "shuffle_fee": ustars(500_000_000)}),
                    json!({"base_token_uri": "ipfs://aldkfjads", "payment_address": null, "start_time": ts(HORIZON), "num_tokens": 2000,
                           "mint_price": ustars(200_000_000), "per_address_limit": 3, "whitelist": wl.to_string()}),
                )
            }
            "oem" => {
                let mc = app.store_code(boxes::open_edition_minter_merkle_wl());
                let fc = app.store_code(boxes::open_edition_factory());
                (
                    fc,
                    mc,
                    json!({"max_token_limit": 10000, "max_per_address_limit": 10, "airdrop_mint_fee_bps": 100, "airdrop_mint_price": ustars(100_000_000), "dev_fee_address": addr(77)}),
                    json!({"nft_data": {"nft_data_type": "off_chain_metadata", "extension": null, "token_uri": "ipfs://bafybeiavall5udkxkdtdm4djezoxrmfc6o5fn2ug3ymrlvibvwmwydgrkm/1.jpg"},
                           "start_time": ts(HORIZON), "end_time": ts(HORIZON + 1_000_000_000_000), "mint_price": ustars(200_000_000), "per_address_limit": 3,
                           "num_tokens": null, "payment_address": null, "whitelist": wl.to_string()}),
                )
            }
            k => return Err(format!("unknown minter kind {k}")),
        };
        let fparams = json!({"params": {"code_id": minter_code, "allowed_sg721_code_ids": [sg721], "frozen": false, "creation_fee": ustars(5_000_000_000),
            "min_mint_price": ustars(50_000_000), "mint_fee_bps": 1000, "max_trading_offset_secs": 604800, "extension": params}});
        let factory = app.instantiate_contract(factory_code, a(CREATOR), &fparams, &[], "factory", None).map_err(|e| format!("factory: {:#}", e))?;
        app.sudo(SudoMsg::Bank(BankSudo::Mint { to_address: addr(CREATOR), amount: vec![coin(5_000_000_000, denom(0))] })).unwrap();
        let create = json!({"create_minter": {"init_msg": init_msg, "collection_params": collection}});
        let res = app.execute_contract(a(CREATOR), factory, &create, &[coin(5_000_000_000, denom(0))]).map_err(|e| format!("create_minter: {:#}", e))?;
        let addrs: Vec<String> = res
            .events
            .iter()
            .filter(|e| e.ty == "instantiate")
            .flat_map(|e| e.attributes.iter().filter(|a| a.key == "_contract_address").map(|a| a.value.clone()))
            .collect();
        self.minter = Some(Addr::unchecked(addrs.first().ok_or("no minter address")?.clone()));
        Ok(())
    }

    fn op_exec(&mut self, line: &str) -> String {
        let now = kv_u64(line, "now").unwrap();
        self.set_time(now);
        let op = kv(line, "op").unwrap().to_string();
        let wl = self.wl.clone().unwrap();
        let code = self.wl_code;
        let sender = kv_u64(line, "sender").map(a);
        let admins_of = |l: &str| -> Vec<String> {
            let mut v: Vec<String> = kv_list(l, "admins").unwrap().iter().map(|i| addr(*i as u64)).collect();
            if !kv_bool(l, "ok").unwrap() {
                v.push("Ab".into());
            }
            v
        };
        let opt_ts = |k: &str| -> Value { kv_opt_u64(line, k).unwrap().map(|t| json!(ts(t))).unwrap_or(Value::Null) };
        let msg: Option<Value> = match op.as_str() {
            "update_start" => {
                let m = whitelist_mtree::msg::ExecuteMsg::UpdateStartTime(Timestamp::from_nanos(kv_u64(line, "t").unwrap()));
                assert_eq!(plain_surface(&m), op);
                Some(serde_json::to_value(&m).unwrap())
            }
            "update_end" => {
                let m = whitelist_mtree::msg::ExecuteMsg::UpdateEndTime(Timestamp::from_nanos(kv_u64(line, "t").unwrap()));
                assert_eq!(plain_surface(&m), op);
                Some(serde_json::to_value(&m).unwrap())
            }
            "p_update_admins" => Some(serde_json::to_value(&whitelist_mtree::msg::ExecuteMsg::UpdateAdmins { admins: admins_of(line) }).unwrap()),
            "p_freeze" => Some(serde_json::to_value(&whitelist_mtree::msg::ExecuteMsg::Freeze {}).unwrap()),
            "t_update_admins" => Some(serde_json::to_value(&tiered_whitelist_merkletree::msg::ExecuteMsg::UpdateAdmins { admins: admins_of(line) }).unwrap()),
            "t_freeze" => Some(serde_json::to_value(&tiered_whitelist_merkletree::msg::ExecuteMsg::Freeze {}).unwrap()),
            "update_stage" => {
                let price: Value = kv_opt_u64(line, "denom").unwrap().map(|d| json!({"denom": denom(d), "amount": WL_PRICE.to_string()})).unwrap_or(Value::Null);
                let v = json!({"update_stage_config": {"stage_id": kv_u64(line, "id").unwrap(), "name": null, "start_time": opt_ts("start"), "end_time": opt_ts("end"),
                               "mint_price": price, "per_address_limit": kv_opt_u64(line, "pal").unwrap(), "mint_count_limit": null}});
                // must parse as the typed message
                let m: tiered_whitelist_merkletree::msg::ExecuteMsg = serde_json::from_value(v.clone()).expect("typed update_stage_config");
                assert_eq!(tiered_surface(&m), op);
                Some(v)
            }
            "p_migrate" | "t_migrate" => None,
            _ => return "bad-op".into(),
        };
        // a plain op on the tiered contract (or vice versa) cannot be expressed: the JSON does not parse ⇒ err on both sides
        // `freeze` / `update_admins` are the same JSON in both contracts: the prefix only says which model op is meant
        let kind_fits = match op.as_str() {
            "p_update_admins" | "p_freeze" | "p_migrate" => !self.tiered,
            "t_update_admins" | "t_freeze" | "t_migrate" => self.tiered,
            _ => true,
        };
        let app = self.app.as_mut().unwrap();
        let ok = kind_fits && match msg {
            Some(m) => matches!(catch(|| app.execute_contract(sender.unwrap_or_else(|| a(CREATOR)), wl, &m, &[])), Ok(Ok(_))),
            None => {
                let fits = (op == "t_migrate") == self.tiered;
                fits && matches!(catch(|| app.migrate_contract(a(CREATOR), wl, &Empty {}, code)), Ok(Ok(_)))
            }
        };
        self.check_roots_unchanged(&op);
        format!("{} {}", if ok { "ok" } else { "err" }, self.obs(now))
    }

    fn op_has(&mut self, line: &str) -> String {
        let now = kv_u64(line, "now").unwrap();
        self.set_time(now);
        let Some(member) = hex_arg(line, "m") else { return "bad-op".into() };
        let proof = str_list(kv(line, "proof").unwrap());
        let wl = self.wl.clone().unwrap();
        let app = self.app.as_ref().unwrap();
        let q = json!({"has_member": {"member": member, "proof_hashes": proof}});
        let out = match catch(|| app.wrap().query_wasm_smart::<Value>(wl, &q)) {
            Ok(Ok(v)) => format!("ok {}", v["has_member"].as_bool().unwrap() as u8),
            _ => "err".to_string(),
        };
        self.monitor_has(now, &member, &proof, &out, line);
        out
    }

    /// direct transcription of the property on the implementation's own answers (independent of the Lean model)
    fn monitor_has(&mut self, now: u64, member: &str, proof: &[String], out: &str, line: &str) {
        if self.viol.is_some() {
            return;
        }
        let c = if self.tiered { "tiered-whitelist-merkletree" } else { "whitelist-merkletree" };
        let n = self.n();
        let bad = |p: &str, w: String| Some((format!("{c}/has_member/{p}"), format!("{w} on `{}` => `{out}`", &line[..line.len().min(400)])));
        // malformed hashes: error, never an answer
        if proof.iter().any(|p| !is_hex_of(p, n)) && out != "err" {
            self.viol = bad("malformed-answered", "a proof element is not hex of the digest size but the query answered".into());
            return;
        }
        // the root that must be used
        let Ok(roots) = self.roots() else { return };
        let root = if self.tiered {
            match self.active_idx(now) {
                None => {
                    if out != "err" {
                        self.viol = bad("no-active-stage-answered", "no stage is active but the query answered".into());
                    }
                    return;
                }
                Some(i) => match roots.get(i) {
                    Some(r) => r.clone(),
                    None => return,
                },
            }
        } else {
            roots[0].clone()
        };
        let known = self.by_root.get(&root);
        if out == "ok 1" {
            // soundness: only listed entries of the list committed by *this* root
            let listed = known.map(|(_, set)| set.contains(member)).unwrap_or(false);
            if !listed {
                self.viol = bad("non-member-accepted", format!("`{member}` is not in the list committed by the root in force"));
                return;
            }
        }
        if let Some((slot, set)) = known {
            if set.contains(member) {
                // completeness: a listed entry with (one of) its rs_merkle proof(s) must be accepted
                let (tree, members) = &self.slots[slot];
                let own = members.iter().enumerate().filter(|(_, m)| m.as_str() == member).any(|(i, _)| tree.proof_hex(i).as_slice() == proof);
                if own && out != "ok 1" {
                    self.viol = bad("member-rejected", format!("listed entry `{member}` with its own proof was not accepted"));
                }
            }
        }
    }

    fn op_mint(&mut self, line: &str) -> String {
        let now = kv_u64(line, "now").unwrap();
        self.set_time(now);
        let Some(sender) = hex_arg(line, "sender") else { return "bad-op".into() };
        let Some(minter) = self.minter.clone() else { return "bad-op".into() };
        let stage = kv_opt_u64(line, "stage").unwrap();
        let alloc = kv_opt_u64(line, "alloc").unwrap();
        let proof: Option<Vec<String>> = match kv(line, "proof").unwrap() {
            "none" => None,
            v => Some(str_list(v)),
        };
        self.mint_to(&sender, WL_PRICE, 0);
        let msg = json!({"mint": {"stage": stage, "proof_hashes": proof, "allocation": alloc}});
        let app = self.app.as_mut().unwrap();
        let ok = matches!(catch(|| app.execute_contract(Addr::unchecked(sender.clone()), minter.clone(), &msg, &[coin(WL_PRICE, denom(0))])), Ok(Ok(_)));
        self.check_roots_unchanged("mint");
        if !ok {
            return "err".into();
        }
        // the whitelist counter of (sender, active window), straight from the minter's storage
        let key = if self.tiered { self.active_idx(now).map(|i| i + 1).unwrap_or(0) } else { 0 };
        let app = self.app.as_ref().unwrap();
        let st = app.contract_storage(&minter);
        use vending_minter_merkle_wl::state as ms;
        let m = match key {
            0 => ms::WHITELIST_MINTER_ADDRS,
            1 => ms::WHITELIST_FS_MINTER_ADDRS,
            2 => ms::WHITELIST_SS_MINTER_ADDRS,
            _ => ms::WHITELIST_TS_MINTER_ADDRS,
        };
        let count = m.may_load(&*st, &Addr::unchecked(sender.clone())).unwrap().unwrap_or(0);
        drop(st);
        // monitor: the sender is bound into the leaf — an accepted whitelist mint means THIS sender's own
        // (stage, sender, allocation) entry is in the list committed by the root in force
        if self.viol.is_none() {
            let leaf = leaf_string(stage, &sender, alloc);
            let roots = self.roots().unwrap_or_default();
            let root = if self.tiered { self.active_idx(now).and_then(|i| roots.get(i).cloned()) } else { roots.first().cloned() };
            let listed = root.and_then(|r| self.by_root.get(&r)).map(|(_, set)| set.contains(&leaf)).unwrap_or(false);
            if !listed {
                self.viol = Some(("merkle-minter/mint/unlisted-sender-minted".into(), format!("whitelist mint accepted although `{leaf}` is not a listed entry: `{}`", &line[..line.len().min(300)])));
            }
        }
        format!("ok {count}")
    }
}

impl Sut for S {
    fn begin(&mut self, header: &str) -> (String, String) {
        *self = fresh(kv(header, "kind") == Some("tiered"));
        (header.to_string(), "case".to_string())
    }
    fn exec(&mut self, line: &str) -> (String, String) {
        let op = line.split_whitespace().next().unwrap_or("");
        let out = match op {
            "hash" => self.op_hash(line),
            "leaf" => match hex_arg(line, "m") {
                Some(m) => {
                    self.pending.push(m);
                    "ok".into()
                }
                None => "bad-op".into(),
            },
            "build" => self.op_build(line),
            "proof" => self.op_proof(line),
            "inst" => self.op_inst(line),
            "exec" if self.wl.is_some() => self.op_exec(line),
            "has" if self.wl.is_some() => self.op_has(line),
            "mint" if self.wl.is_some() => self.op_mint(line),
            _ => "bad-op".into(),
        };
        (line.to_string(), out)
    }
    fn monitor(&mut self) -> Option<(String, String)> {
        self.viol.take()
    }
}

// ------------------------------------------------------------------------------------------------ generators

#[derive(Clone, Copy, PartialEq)]
enum Names {
    Acct,   // acct00123 (9 chars)
    Bech32, // stars1 + 38 lower-case alphanumerics (44 chars)
}
fn sender(names: Names, i: u64) -> String {
    match names {
        Names::Acct => addr(100 + i),
        Names::Bech32 => {
            let mut r = Rng::new(0xBEC4 ^ i);
            let cs = b"023456789acdefghjklmnpqrstuvwxyz";
            let mut s = String::from("stars1");
            for _ in 0..38 {
                s.push(cs[r.below(32) as usize] as char);
            }
            s
        }
    }
}
fn hx(s: &str) -> String {
    hex::encode(s.as_bytes())
}

/// a list entry: (stage, sender index, allocation) → leaf string
#[derive(Clone, Debug, PartialEq)]
struct Entry {
    stage: Option<u64>,
    who: u64,
    alloc: Option<u64>,
}
fn entry_leaf(names: Names, e: &Entry) -> String {
    leaf_string(e.stage, &sender(names, e.who), e.alloc)
}
fn gen_entries(rng: &mut Rng, n: usize, form: u64, dup_pct: u64, stage_tag: u64) -> Vec<Entry> {
    let mut v: Vec<Entry> = Vec::with_capacity(n);
    for i in 0..n {
        if i > 0 && rng.below(100) < dup_pct {
            let j = rng.below(i as u64) as usize;
            let e = v[j].clone();
            v.push(e);
            continue;
        }
        let f = if form == 4 { rng.below(4) } else { form };
        let stage = if f & 1 == 1 { Some(stage_tag) } else { None };
        let alloc = if f & 2 == 2 { Some(rng.range(1, 12)) } else { None };
        v.push(Entry { stage, who: i as u64, alloc });
    }
    v
}

fn flip_hex_digit(s: &str, pos: usize) -> String {
    let mut b: Vec<u8> = s.bytes().collect();
    let c = b[pos];
    let v = (c as char).to_digit(16).unwrap_or(0);
    b[pos] = std::char::from_digit(v ^ 1, 16).unwrap() as u8;
    String::from_utf8(b).unwrap()
}
fn random_hex(rng: &mut Rng, nbytes: usize) -> String {
    (0..nbytes).map(|_| format!("{:02x}", rng.below(256))).collect()
}

struct Ctx<'a> {
    ses: &'a mut Session,
    sut: &'a mut S,
    rng: Rng,
}
impl<'a> Ctx<'a> {
    fn step(&mut self, line: &str) -> String {
        self.ses.step(self.sut, line)
    }
    fn has(&mut self, now: u64, member: &str, proof: &[String], class: &str) -> String {
        let out = self.step(&format!("has now={now} m={} proof={}", hx(member), fmt_strs(proof)));
        let k = if self.sut.tiered { "t" } else { "p" };
        self.ses.mark(format!("has:{k}:{class}:{}", out.replace(' ', "")));
        out
    }
    /// append the members, build the tree into `slot`, return (root, leaves)
    fn build(&mut self, slot: u64, leaves: &[String], hash_lines: bool) -> String {
        let alg = if self.sut.tiered { "blake3_16" } else { "sha256" };
        for l in leaves {
            if hash_lines {
                self.step(&format!("hash alg={alg} m={}", hx(l)));
            }
            self.step(&format!("leaf m={}", hx(l)));
        }
        let out = self.step(&format!("build slot={slot}"));
        out.strip_prefix("ok ").unwrap_or("-").to_string()
    }
    fn proof(&mut self, slot: u64, i: usize) -> Vec<String> {
        let out = self.step(&format!("proof slot={slot} i={i}"));
        str_list(out.strip_prefix("ok ").unwrap_or("-"))
    }

    /// all single-fault mutations of a valid (member, proof) pair; `others` = other listed members with their proofs
    fn adversarial(&mut self, now: u64, member: &str, proof: &[String], other: Option<(&str, Vec<String>)>, outsider: &str, sz: &str) {
        let n = self.sut.n();
        let cls = |c: &str| format!("{c}:{sz}");
        // another member's proof
        if let Some((om, op)) = &other {
            if *om != member {
                self.has(now, member, op, &cls("other-proof"));
                self.has(now, outsider, op, &cls("outsider-with-member-proof"));
            }
        }
        self.has(now, outsider, proof, &cls("outsider-with-this-proof"));
        // non-member strings derived from the member
        let variants: Vec<String> = vec![
            format!("{member}0"),
            format!("0{member}"),
            member[..member.len() - 1].to_string(),
            member.to_uppercase(),
            format!("{member}é"),
            String::new(),
            "x".repeat(2 * n), // exactly the size of an inner preimage
        ];
        let k = self.rng.below(variants.len() as u64) as usize;
        self.has(now, &variants[k], proof, &cls(&format!("mutated-member{k}")));
        if !proof.is_empty() {
            let l = proof.len();
            // truncated
            self.has(now, member, &proof[..l - 1], &cls("truncated-last"));
            self.has(now, member, &proof[1..], &cls("truncated-first"));
            // extended
            let mut e = proof.to_vec();
            e.push(random_hex(&mut self.rng, n));
            self.has(now, member, &e, &cls("extended-random"));
            let mut e = proof.to_vec();
            e.push(proof[l - 1].clone());
            self.has(now, member, &e, &cls("extended-dup"));
            // reordered
            if l >= 2 {
                let mut r = proof.to_vec();
                let i = self.rng.below(l as u64 - 1) as usize;
                r.swap(i, i + 1);
                self.has(now, member, &r, &cls("swapped"));
                let mut r = proof.to_vec();
                r.reverse();
                self.has(now, member, &r, &cls("reversed"));
            }
            // bit-flipped (one hex digit of one element)
            let i = self.rng.below(l as u64) as usize;
            let pos = self.rng.below(2 * n as u64) as usize;
            let mut f = proof.to_vec();
            f[i] = flip_hex_digit(&f[i], pos);
            self.has(now, member, &f, &cls("bit-flipped"));
            // validity-preserving: upper-case hex decodes to the same bytes
            let mut u = proof.to_vec();
            u[i] = u[i].to_uppercase();
            self.has(now, member, &u, &cls("uppercase-element"));
            // wrong-length hex
            let lens = [2 * n - 1, 2 * n + 1, 2 * n - 2, 2 * n + 2, 0, if n == 32 { 32 } else { 64 }];
            let wl = lens[self.rng.below(lens.len() as u64) as usize];
            let mut w = proof.to_vec();
            w[i] = if wl <= 2 * n { w[i][..wl].to_string() } else { format!("{}{}", w[i], &"ab".repeat(n)[..wl - 2 * n]) };
            self.has(now, member, &w, &cls(&format!("wrong-length{}", wl as i64 - 2 * n as i64)));
            // non-hex character
            let garb = ["g", "z", "G", "é", "_", "x", "-", "+"];
            let gch = garb[self.rng.below(garb.len() as u64) as usize];
            let mut g: Vec<char> = proof[i].chars().collect();
            g[pos] = gch.chars().next().unwrap();
            let mut gp = proof.to_vec();
            gp[i] = g.into_iter().collect();
            self.has(now, member, &gp, &cls("non-hex"));
        } else {
            // single-leaf tree: the empty proof is the proof; any extension must fail
            let r1 = random_hex(&mut self.rng, n);
            let r2 = random_hex(&mut self.rng, n - 1);
            self.has(now, member, &[r1], &cls("extended-random"));
            self.has(now, member, &["zz".repeat(n)], &cls("non-hex"));
            self.has(now, member, &[r2], &cls("wrong-length-1"));
        }
    }
}

fn size_class(n: usize) -> &'static str {
    match n {
        1 => "n1",
        2 => "n2",
        3..=8 => "n3-8",
        9..=64 => "n9-64",
        65..=257 => "n65-257",
        _ => "n258+",
    }
}

/// Scenario A: one list of `n` entries per tree; every (or a sample of) member's proof; adversarial pairs.
fn scenario_membership(cx: &mut Ctx, tiered: bool, n: usize, seed_tag: u64) {
    let names = if cx.rng.chance(1, 2) { Names::Acct } else { Names::Bech32 };
    let form = cx.rng.below(5);
    let dup = *cx.rng.pick(&[0u64, 0, 10, 50]);
    let kind = if tiered { "tiered" } else { "plain" };
    let k_stages = if tiered { cx.rng.range(1, 3) } else { 1 };
    let main = cx.rng.below(k_stages);
    cx.ses.begin_case(cx.sut, &format!("case kind={kind} scen=membership n={n} stages={k_stages} tag={seed_tag}"));
    let sz = size_class(n);
    // lists and trees
    let mut lists: Vec<Vec<String>> = vec![];
    let mut roots: Vec<String> = vec![];
    for j in 0..k_stages {
        let nj = if j == main { n } else { cx.rng.range(1, 9) as usize };
        let mut rf = cx.rng.fork();
        let entries = gen_entries(&mut rf, nj, form, dup, j + 1);
        // stage lists overlap partially: other stages draw their senders from a shifted range
        let leaves: Vec<String> = entries
            .iter()
            .map(|e| entry_leaf(names, &Entry { who: if j == main { e.who } else { e.who + (n as u64).saturating_sub(3) }, ..e.clone() }))
            .collect();
        let root = cx.build(j, &leaves, nj <= 33);
        lists.push(leaves);
        roots.push(root);
    }
    // instantiate
    let t0 = GENESIS + 1_000 + cx.rng.below(1000);
    let mut windows: Vec<(u64, u64)> = vec![];
    let inst = if tiered {
        let mut t = t0 + 100;
        let mut st = vec![];
        for j in 0..k_stages {
            let s = t + if j > 0 && cx.rng.chance(1, 2) { 0 } else { cx.rng.range(1, 50) }; // touching or gap
            let e = s + cx.rng.range(10, 1000);
            windows.push((s, e));
            st.push(format!("{s}:{e}:{}:0", cx.rng.range(1, 50)));
            t = e;
        }
        format!("inst now={t0} funds=0:1000000000 roots={} uri_ok=1 stages={} admins=11,12 admins_ok=1 mutable=1 minter=none", fmt_strs(&roots), st.join(";"))
    } else {
        windows.push((t0 + 100, t0 + 1000));
        format!("inst now={t0} funds=0:1000000000 root={} uri_ok=1 start={} end={} pal=3 admins=11,12 admins_ok=1 mutable=1 minter=none", roots[0], t0 + 100, t0 + 1000)
    };
    let out = cx.step(&inst);
    if !out.starts_with("ok") {
        cx.ses.note(format!("UNEXPECTED: instantiate failed in membership scenario: {inst} => {out}"));
        cx.ses.end_case();
        return;
    }
    cx.ses.mark(format!("inst:{kind}:stages{k_stages}:{sz}"));
    let mid = |w: (u64, u64)| (w.0 + w.1) / 2;
    // every member of the main list (sampled beyond 300)
    let main_u = main as usize;
    let idxs: Vec<usize> = if n <= 300 {
        (0..n).collect()
    } else {
        let mut v: Vec<usize> = vec![0, 1, n / 2, n - 2, n - 1];
        for _ in 0..295 {
            v.push(cx.rng.below(n as u64) as usize);
        }
        v
    };
    let outsider = sender(names, 1_000_000 + n as u64);
    let adv_budget = cx.ses.scale(40, 64) as usize;
    let mut last: Option<(String, Vec<String>)> = None;
    for (cnt, &i) in idxs.iter().enumerate() {
        let member = lists[main_u][i].clone();
        let proof = cx.proof(main as u64, i);
        let t_in = if tiered {
            let w = windows[main_u];
            // inclusive both ends; when stage j-1 touches (end == start) the shared instant belongs to the earlier stage
            let start_ok = main_u == 0 || windows[main_u - 1].1 < w.0;
            *cx.rng.pick(&[if start_ok { w.0 } else { w.0 + 1 }, mid(w), w.1])
        } else {
            *cx.rng.pick(&[t0, windows[0].0, windows[0].1, windows[0].1 + 5]) // the plain query ignores the clock
        };
        let r = cx.has(t_in, &member, &proof, &format!("own-proof:{sz}:len{}", proof.len().min(13)));
        if r != "ok 1" {
            cx.ses.note(format!("member {i}/{n} not accepted ({kind})"));
        }
        if cnt < adv_budget || i + 1 == n {
            let other = last.as_ref().map(|(m, p)| (m.as_str(), p.clone()));
            cx.adversarial(t_in, &member, &proof, other, &outsider, sz);
        }
        last = Some((member, proof));
    }
    // tiered: clock outside every window / inside another stage
    if tiered {
        let member = lists[main_u][0].clone();
        let proof = cx.proof(main as u64, 0);
        let first = windows[0];
        let lastw = *windows.last().unwrap();
        cx.has(first.0 - 1, &member, &proof, "before-first-stage");
        cx.has(lastw.1 + 1, &member, &proof, "after-last-stage");
        for j in 0..k_stages as usize {
            if j + 1 < k_stages as usize && windows[j].1 + 1 < windows[j + 1].0 {
                cx.has(windows[j].1 + 1, &member, &proof, "gap-between-stages");
            }
            if j != main_u {
                // the main list's member during another stage: only accepted if that stage's list has it too
                let t = mid(windows[j]);
                let listed_there = lists[j].contains(&member);
                cx.has(t, &member, &proof, &format!("main-proof-in-other-stage:listed{}", listed_there as u8));
                // and that stage's own members verify there
                let m2 = lists[j][0].clone();
                let p2 = cx.proof(j as u64, 0);
                cx.has(t, &m2, &p2, "other-stage-own-proof");
                cx.has(mid(windows[main_u]), &m2, &p2, &format!("other-stage-proof-in-main-stage:listed{}", lists[main_u].contains(&m2) as u8));
            }
        }
    }
    cx.ses.end_case();
}

/// Scenario B: malformed / adversarial instantiation parameters (root strings above all).
fn scenario_instantiate(cx: &mut Ctx, tiered: bool) {
    let kind = if tiered { "tiered" } else { "plain" };
    let n = cx.sut_n(tiered);
    cx.ses.begin_case(cx.sut, &format!("case kind={kind} scen=instantiate"));
    let leaves: Vec<String> = (0..5).map(|i| sender(Names::Acct, i)).collect();
    let root = cx.build(0, &leaves, true);
    let proof0 = cx.proof(0, 0);
    let t0 = GENESIS + 5_000;
    let variants: Vec<(&str, String)> = vec![
        ("good", root.clone()),
        ("upper", root.to_uppercase()),
        ("short", root[..2 * n - 2].to_string()),
        ("odd", root[..2 * n - 1].to_string()),
        ("long", format!("{root}00")),
        ("empty", String::new()),
        ("nonhex", format!("{}zz", &root[..2 * n - 2])),
        ("other-size", if tiered { format!("{root}{root}") } else { root[..32].to_string() }),
        ("random", random_hex(&mut cx.rng, n)),
        ("0x-prefixed", format!("0x{}", &root[..2 * n - 2])),
    ];
    for (name, r) in &variants {
        for fault in ["none", "funds-low", "funds-high", "no-funds", "two-coins", "wrong-denom", "bad-uri", "bad-admin", "started", "start>end", "pre-genesis"] {
            if *name != "good" && fault != "none" && !cx.rng.chance(1, 6) {
                continue;
            }
            let funds = match fault {
                "funds-low" => "0:999999999",
                "funds-high" => "0:1000000001",
                "no-funds" => "-",
                "two-coins" => "0:1000000000,1:5",
                "wrong-denom" => "1:1000000000",
                _ => "0:1000000000",
            };
            let uri_ok = (fault != "bad-uri") as u8;
            let admins_ok = (fault != "bad-admin") as u8;
            let (now, start, end) = match fault {
                "started" => (t0 + 100, t0 + 100, t0 + 1000),
                "start>end" => (t0, t0 + 1001, t0 + 1000),
                "pre-genesis" => (GENESIS - 50, GENESIS - 1, GENESIS + 1000),
                _ => (t0, t0 + 100, t0 + 1000),
            };
            let line = if tiered {
                let roots = match (*name, cx.rng.below(3)) {
                    ("good", _) => format!("{r},{r}"),
                    (_, 0) => r.clone(),
                    (_, 1) => format!("{root},{r}"),
                    _ => format!("{r},{root}"),
                };
                // "" as the only element would read as an empty word; keep at least a comma
                let roots = if roots.is_empty() { ",".to_string() } else { roots };
                format!("inst now={now} funds={funds} roots={roots} uri_ok={uri_ok} stages={start}:{end}:5:0;{}:{}:50:0 admins=11 admins_ok={admins_ok} mutable=0 minter=none", end, end + 10)
            } else {
                format!("inst now={now} funds={funds} root={r} uri_ok={uri_ok} start={start} end={end} pal=0 admins=11 admins_ok={admins_ok} mutable=0 minter=none")
            };
            let out = cx.step(&line);
            cx.ses.mark(format!("inst:{kind}:root-{name}:{fault}:{}", &out[..out.len().min(3)]));
            if out.starts_with("ok") {
                // whatever was accepted: the good proof only verifies against the good root
                cx.has(start + 1, &leaves[0], &proof0, &format!("after-inst-root-{name}"));
            }
        }
    }
    if tiered {
        // stage-list shapes (validate_stages) and root/stage count mismatches
        let r2 = format!("{root},{root}");
        let shapes: Vec<(&str, String, String)> = vec![
            ("no-stages", "-".into(), r2.clone()),
            ("four-stages", format!("{}:{}:1:0;{}:{}:1:0;{}:{}:1:0;{}:{}:1:0", t0 + 10, t0 + 20, t0 + 20, t0 + 30, t0 + 30, t0 + 40, t0 + 40, t0 + 50), r2.clone()),
            ("overlap", format!("{}:{}:1:0;{}:{}:1:0", t0 + 10, t0 + 20, t0 + 19, t0 + 30), r2.clone()),
            ("touching", format!("{}:{}:1:0;{}:{}:1:0", t0 + 10, t0 + 20, t0 + 20, t0 + 30), r2.clone()),
            ("empty-window", format!("{}:{}:1:0", t0 + 10, t0 + 10), root.clone()),
            ("pal0", format!("{}:{}:0:0", t0 + 10, t0 + 20), root.clone()),
            ("pal50", format!("{}:{}:50:0", t0 + 10, t0 + 20), root.clone()),
            ("pal51", format!("{}:{}:51:0", t0 + 10, t0 + 20), root.clone()),
            ("mixed-denoms", format!("{}:{}:1:0;{}:{}:1:1", t0 + 10, t0 + 20, t0 + 20, t0 + 30), r2.clone()),
            ("first-started", format!("{}:{}:1:0", t0, t0 + 20), root.clone()),
            ("fewer-roots", format!("{}:{}:1:0;{}:{}:1:0", t0 + 10, t0 + 20, t0 + 25, t0 + 30), root.clone()),
            ("more-roots", format!("{}:{}:1:0", t0 + 10, t0 + 20), r2.clone()),
            ("no-roots", format!("{}:{}:1:0", t0 + 10, t0 + 20), "-".into()),
        ];
        for (name, stages, roots) in shapes {
            let out = cx.step(&format!("inst now={t0} funds=0:1000000000 roots={roots} uri_ok=1 stages={stages} admins=11 admins_ok=1 mutable=1 minter=none"));
            cx.ses.mark(format!("inst:tiered:shape-{name}:{}", &out[..out.len().min(3)]));
            if out.starts_with("ok") {
                for t in [t0 + 9, t0 + 10, t0 + 15, t0 + 20, t0 + 21, t0 + 27, t0 + 30, t0 + 31] {
                    cx.has(t, &leaves[0], &proof0, &format!("shape-{name}"));
                }
            }
        }
    }
    cx.ses.end_case();
}

impl<'a> Ctx<'a> {
    fn sut_n(&self, tiered: bool) -> usize {
        if tiered {
            16
        } else {
            32
        }
    }
}

fn obs_u64(obs: &str, key: &str) -> u64 {
    kv_u64(obs, key).unwrap_or(0)
}

/// Scenario C: random histories over the complete execute surface; the root must stay what it was and keep verifying.
fn scenario_history(cx: &mut Ctx, tiered: bool, tag: u64) {
    let kind = if tiered { "tiered" } else { "plain" };
    cx.ses.begin_case(cx.sut, &format!("case kind={kind} scen=history tag={tag}"));
    let names = Names::Acct;
    let k_stages = if tiered { cx.rng.range(1, 3) } else { 1 } as usize;
    let mut lists = vec![];
    let mut roots = vec![];
    for j in 0..k_stages {
        let nj = cx.rng.range(1, 12) as usize;
        let leaves: Vec<String> = (0..nj).map(|i| leaf_string(None, &sender(names, (j * 100 + i) as u64), None)).collect();
        roots.push(cx.build(j as u64, &leaves, false));
        lists.push(leaves);
    }
    let t0 = GENESIS + 1_000;
    let mutable = cx.rng.chance(3, 4) as u8;
    let inst = if tiered {
        let mut t = t0 + 100;
        let mut st = vec![];
        for j in 0..k_stages {
            let s = t + if j > 0 && cx.rng.chance(1, 2) { 0 } else { cx.rng.range(1, 50) };
            let e = s + cx.rng.range(10, 200);
            st.push(format!("{s}:{e}:{}:0", cx.rng.range(1, 50)));
            t = e;
        }
        format!("inst now={t0} funds=0:1000000000 roots={} uri_ok=1 stages={} admins=11,12 admins_ok=1 mutable={mutable} minter=none", fmt_strs(&roots), st.join(";"))
    } else {
        format!("inst now={t0} funds=0:1000000000 root={} uri_ok=1 start={} end={} pal=2 admins=11,12 admins_ok=1 mutable={mutable} minter=none", roots[0], t0 + 100, t0 + 600)
    };
    let mut obs = cx.step(&inst);
    if !obs.starts_with("ok") {
        cx.ses.note(format!("UNEXPECTED: instantiate failed in history scenario: {inst} => {obs}"));
        cx.ses.end_case();
        return;
    }
    let proofs: Vec<Vec<String>> = (0..k_stages).map(|j| cx.proof(j as u64, 0)).collect();
    let mut now = t0;
    let n_ops = cx.rng.range(6, 16);
    for _ in 0..n_ops {
        // interesting instants of the current state
        let mut edges: Vec<u64> = vec![];
        if tiered {
            if let Some(st) = kv(&obs, "stages") {
                for s in st.split(';') {
                    let f: Vec<u64> = s.split(':').filter_map(|x| x.parse().ok()).collect();
                    if f.len() == 4 {
                        edges.extend([f[0], f[1]]);
                    }
                }
            }
        } else {
            edges.extend([obs_u64(&obs, "start"), obs_u64(&obs, "end")]);
        }
        let mut cands: Vec<u64> = edges.iter().flat_map(|e| [e.saturating_sub(1), *e, e + 1]).filter(|t| *t >= now).collect();
        cands.push(now + cx.rng.range(0, 40));
        now = if cx.rng.chance(1, 2) { *cx.rng.pick(&cands) } else { now + cx.rng.range(0, 60) };
        let who = *cx.rng.pick(&[11u64, 11, 11, 12, 13, 19]);
        let near = |rng: &mut Rng, edges: &[u64], now: u64| -> u64 {
            let mut c: Vec<u64> = edges.iter().flat_map(|e| [e.saturating_sub(1), *e, e + 1]).collect();
            c.extend([now, now + 1, GENESIS - 1, GENESIS, GENESIS + 1, now + rng.range(2, 300)]);
            *rng.pick(&c)
        };
        let line = if tiered {
            match cx.rng.below(10) {
                0 => format!("exec now={now} op=t_freeze sender={who}"),
                1 => format!("exec now={now} op=t_update_admins sender={who} admins={} ok={}", fmt_list(&pick_admins(&mut cx.rng)), cx.rng.chance(9, 10) as u8),
                2 => format!("exec now={now} op=t_migrate"),
                3 => format!("exec now={now} op=update_start sender={who} t={}", now + 5), // the other contract's message: cannot parse
                _ => {
                    let id = cx.rng.below(k_stages as u64 + 1);
                    let o = |rng: &mut Rng, v: u64| if rng.chance(1, 2) { "-".to_string() } else { v.to_string() };
                    let s = near(&mut cx.rng, &edges, now);
                    let e = near(&mut cx.rng, &edges, now);
                    let pal = *cx.rng.pick(&[0u64, 1, 7, 50, 51]);
                    let dn = *cx.rng.pick(&[0u64, 0, 0, 1]);
                    format!(
                        "exec now={now} op=update_stage sender={who} id={id} start={} end={} pal={} denom={}",
                        o(&mut cx.rng, s), o(&mut cx.rng, e), if cx.rng.chance(2, 3) { "-".to_string() } else { pal.to_string() }, if cx.rng.chance(4, 5) { "-".to_string() } else { dn.to_string() }
                    )
                }
            }
        } else {
            match cx.rng.below(10) {
                0 => format!("exec now={now} op=p_freeze sender={who}"),
                1 => format!("exec now={now} op=p_update_admins sender={who} admins={} ok={}", fmt_list(&pick_admins(&mut cx.rng)), cx.rng.chance(9, 10) as u8),
                2 => format!("exec now={now} op=p_migrate"),
                3 => format!("exec now={now} op=update_stage sender={who} id=0 start=- end={} pal=- denom=-", now + 50), // the other contract's message: cannot parse
                4..=6 => format!("exec now={now} op=update_start sender={who} t={}", near(&mut cx.rng, &edges, now)),
                _ => format!("exec now={now} op=update_end sender={who} t={}", near(&mut cx.rng, &edges, now)),
            }
        };
        let out = cx.step(&line);
        let opk = kv(&line, "op").unwrap().to_string();
        cx.ses.mark(format!("exec:{kind}:{opk}:{}:{}", if who == 19 { "stranger" } else if who == 13 { "maybe-admin" } else { "admin" }, &out[..3]));
        obs = out;
        // the committed list keeps verifying (plain: at any time; tiered: when its stage is active)
        let j = cx.rng.below(k_stages as u64) as usize;
        let m = lists[j][0].clone();
        let p = proofs[j].clone();
        cx.has(now, &m, &p, "after-exec");
    }
    cx.ses.end_case();
}

fn pick_admins(rng: &mut Rng) -> Vec<u64> {
    let mut v = vec![];
    for id in 11..=14u64 {
        if rng.chance(1, 2) {
            v.push(id);
        }
    }
    v
}

/// Scenario D: the mint path of the three Merkle minters against both whitelists.
fn scenario_mint(cx: &mut Ctx, tiered: bool, minter: &str, tag: u64) {
    let kind = if tiered { "tiered" } else { "plain" };
    let names = if cx.rng.chance(1, 2) { Names::Acct } else { Names::Bech32 };
    cx.ses.begin_case(cx.sut, &format!("case kind={kind} scen=mint minter={minter} tag={tag}"));
    let k_stages = if tiered { cx.rng.range(1, 3) } else { 1 } as usize;
    let mut entries: Vec<Vec<Entry>> = vec![];
    let mut roots = vec![];
    for j in 0..k_stages {
        let nj = cx.rng.range(2, 9) as usize;
        let mut rf = cx.rng.fork();
        let mut es = gen_entries(&mut rf, nj, 4, 0, j as u64 + 1);
        for e in es.iter_mut() {
            e.who += (j * 3) as u64; // overlapping sender ranges between stages
        }
        let leaves: Vec<String> = es.iter().map(|e| entry_leaf(names, e)).collect();
        roots.push(cx.build(j as u64, &leaves, false));
        entries.push(es);
    }
    let t0 = GENESIS + 1_000;
    let mut windows = vec![];
    let pal = cx.rng.range(1, 3);
    let inst = if tiered {
        let mut t = t0 + 100;
        let mut st = vec![];
        for j in 0..k_stages {
            let s = t + if j > 0 && cx.rng.chance(1, 2) { 0 } else { cx.rng.range(1, 50) };
            let e = s + cx.rng.range(100, 300);
            windows.push((s, e));
            st.push(format!("{s}:{e}:{pal}:0"));
            t = e;
        }
        format!("inst now={t0} funds=0:1000000000 roots={} uri_ok=1 stages={} admins=11 admins_ok=1 mutable=1 minter={minter}", fmt_strs(&roots), st.join(";"))
    } else {
        windows.push((t0 + 100, t0 + 400));
        format!("inst now={t0} funds=0:1000000000 root={} uri_ok=1 start={} end={} pal={pal} admins=11 admins_ok=1 mutable=1 minter={minter}", roots[0], t0 + 100, t0 + 400)
    };
    let out = cx.step(&inst);
    if !out.starts_with("ok") {
        cx.ses.note(format!("UNEXPECTED: instantiate failed in mint scenario: {inst} => {out}"));
        cx.ses.end_case();
        return;
    }
    let o = |v: Option<u64>| fmt_opt(&v);
    let mint = |cx: &mut Ctx, now: u64, s: &str, stage: Option<u64>, alloc: Option<u64>, proof: Option<&[String]>, class: &str| -> String {
        let p = match proof {
            None => "none".to_string(),
            Some(p) => fmt_strs(p),
        };
        let out = cx.step(&format!("mint now={now} sender={} stage={} alloc={} proof={p}", hx(s), o(stage), o(alloc)));
        cx.ses.mark(format!("mint:{minter}:{kind}:{class}:{}", &out[..out.len().min(3)]));
        out
    };
    let mut now = windows[0].0.saturating_sub(2);
    // before the first window: whitelist inactive ⇒ public mint ⇒ closed
    {
        let e = entries[0][0].clone();
        let p = cx.proof(0, 0);
        mint(cx, now, &sender(names, e.who), e.stage, e.alloc, Some(&p), "before-window");
    }
    for j in 0..k_stages {
        let (ws, we) = windows[j];
        let start_ok = j == 0 || windows[j - 1].1 < ws;
        now = now.max(if start_ok { ws } else { ws + 1 });
        let es = entries[j].clone();
        for (i, e) in es.iter().enumerate() {
            let s = sender(names, e.who);
            let p = cx.proof(j as u64, i);
            let thief = sender(names, 5_000 + i as u64);
            let other_listed = sender(names, es[(i + 1) % es.len()].who);
            // single-fault attempts first (none may succeed, so they do not consume the allowance)
            mint(cx, now, &thief, e.stage, e.alloc, Some(&p), "stolen-proof-by-outsider");
            if other_listed != s {
                mint(cx, now, &other_listed, e.stage, e.alloc, Some(&p), "stolen-proof-by-other-member");
            }
            mint(cx, now, &s, e.stage, Some(e.alloc.unwrap_or(0) + 1), Some(&p), "inflated-allocation");
            mint(cx, now, &s, Some(e.stage.unwrap_or(0) + 1), e.alloc, Some(&p), "wrong-stage-tag");
            mint(cx, now, &s, e.stage, e.alloc, None, "no-proof");
            if !p.is_empty() {
                let mut f = p.clone();
                f[0] = flip_hex_digit(&f[0], 3);
                mint(cx, now, &s, e.stage, e.alloc, Some(&f), "bit-flipped");
                let mut g = p.clone();
                g[0] = format!("{}zz", &g[0][..g[0].len() - 2]);
                mint(cx, now, &s, e.stage, e.alloc, Some(&g), "non-hex");
                mint(cx, now, &s, e.stage, e.alloc, Some(&p[..p.len() - 1]), "truncated");
            }
            // the honest mints: up to the allowance, then one more
            let allowance = e.alloc.unwrap_or(pal);
            let tries = allowance.min(4) + 1;
            for k in 0..tries {
                now += cx.rng.below(2);
                if now > we {
                    break;
                }
                let out = mint(cx, now, &s, e.stage, e.alloc, Some(&p), if k < allowance { "own-proof" } else { "own-proof-over-allowance" });
                let _ = out;
            }
            if now >= we {
                break;
            }
        }
        // at the window's last instant and just after
        let e = es[0].clone();
        let p = cx.proof(j as u64, 0);
        now = now.max(we);
        mint(cx, now, &sender(names, 9_000 + j as u64), e.stage, e.alloc, Some(&p), "outsider-at-end");
        if j + 1 < k_stages {
            // next stage active: this stage's proof is useless unless the entry is also in the next list
            let (ns, ne) = windows[j + 1];
            let t = ((ns + ne) / 2).max(now);
            let listed_next = entries[j + 1].contains(&e);
            mint(cx, t, &sender(names, e.who), e.stage, e.alloc, Some(&p), &format!("previous-stage-proof:listed{}", listed_next as u8));
            if windows[j].1 + 1 < ns {
                mint(cx, windows[j].1 + 1, &sender(names, e.who), e.stage, e.alloc, Some(&p), "gap-between-stages");
            }
        } else {
            mint(cx, we + 1, &sender(names, e.who), e.stage, e.alloc, Some(&p), "after-window");
        }
    }
    cx.ses.end_case();
}

/// Scenario E: the Lean hashes against the Rust crates on inputs around every block / chunk boundary.
fn scenario_hashes(cx: &mut Ctx) {
    cx.ses.begin_case(cx.sut, "case kind=plain scen=hashes");
    let mut lens: Vec<usize> = (0..=130).collect();
    lens.extend([183, 184, 191, 192, 193, 247, 248, 255, 256, 257, 511, 512, 513, 1023, 1024, 1025, 1087, 1088, 1089, 2047, 2048, 2049, 3071, 3072, 3073, 4095, 4096, 4097, 5119, 5120, 5121, 7168, 8191, 8192, 8193]);
    let extra = cx.ses.scale(40, 2000);
    for _ in 0..extra {
        let hi = if cx.rng.chance(1, 10) { 20_000 } else { 300 };
        lens.push(cx.rng.below(hi) as usize);
    }
    for l in lens {
        let bytes: Vec<u8> = (0..l).map(|_| cx.rng.below(256) as u8).collect();
        let h = hex::encode(&bytes);
        for alg in ["sha256", "blake3", "blake3_16"] {
            cx.step(&format!("hash alg={alg} m={h}"));
        }
        cx.ses.mark(format!("hash:len-mod64-{}:chunks{}", l % 64, (l / 1024).min(9)));
    }
    cx.ses.end_case();
}

fn main() {
    let mut ses = Session::new("C14");
    let mut sut = fresh(false);
    if ses.maybe_replay(&mut sut) {
        ses.finish(&mut sut);
    }
    let rng = ses.rng.fork();
    let thorough = ses.tier() == Tier::Thorough;
    let reps_small = ses.scale(4, 24);
    let n_hist = ses.scale(300, 6000);
    let n_mint = ses.scale(12, 150);
    let mut cx = Ctx { ses: &mut ses, sut: &mut sut, rng };

    scenario_hashes(&mut cx);
    for tiered in [false, true] {
        scenario_instantiate(&mut cx, tiered);
    }
    // sizes: every size up to 17, around every power of two up to 257 (quick) / 4096 (thorough), some random
    let mut sizes: Vec<usize> = (1..=17).collect();
    for p in [32usize, 64, 128, 256] {
        sizes.extend([p - 1, p, p + 1]);
    }
    for _ in 0..4 {
        sizes.push(cx.rng.range(18, 257) as usize);
    }
    for tiered in [false, true] {
        for rep in 0..reps_small {
            for &n in &sizes {
                scenario_membership(&mut cx, tiered, n, rep);
            }
        }
        if thorough {
            let mut big: Vec<usize> = vec![];
            for p in [512usize, 1024, 2048, 4096] {
                big.extend([p - 1, p, p + 1]);
            }
            big.pop(); // 4097 is beyond the stated range
            for _ in 0..6 {
                big.push(cx.rng.range(258, 4096) as usize);
            }
            for rep in 0..2 {
                for &n in &big {
                    scenario_membership(&mut cx, tiered, n, 100 + rep);
                }
            }
        }
    }
    for i in 0..n_hist {
        scenario_history(&mut cx, i % 2 == 1, i);
    }
    for i in 0..n_mint {
        for minter in ["vm", "vmf", "oem"] {
            for tiered in [false, true] {
                scenario_mint(&mut cx, tiered, minter, i);
            }
        }
    }
    drop(cx);
    ses.note("trees: rs_merkle 1.4 with the repo's SortingSha256Hasher (whitelist-merkletree/src/tests/hasher.rs) and its BLAKE3/16 twin; entries `stage‖sender‖allocation` in all four forms, senders `acctNNNNN` or 44-char bech32-like, duplicates 0/10/50 %");
    ses.note("adversarial pairs per sampled member: another member's proof, outsider with a member's proof, mutated member string, truncated (first/last), extended (random/duplicate), swapped, reversed, one hex digit flipped, upper-cased element, wrong-length hex (±1, ±2, 0, the other contract's size), non-hex character");
    ses.note("Lean SHA-256 / BLAKE3 / BLAKE3-16 compared with sha2 / blake3 on every leaf of trees ≤ 33 leaves, every proof element (via `proof`), every root, and on random inputs of every length 0..130 and around 64-byte / 1024-byte boundaries up to 20 kB");
    std::fs::create_dir_all(&ses.args.out).ok();
    std::fs::write(ses.args.out.join("classes.txt"), ses.classes.iter().cloned().collect::<Vec<_>>().join("\n")).ok();
    ses.finish(&mut sut);
}
