//! C04 — mints happen only inside the sale window and only for entitled buyers.
//!
//! Correspondence: the REAL minters (6 vending variants, 3 open-edition variants, token-merge; created through
//! their factories) attached to REAL whitelists of all 7 kinds, against `LP.SaleWindow` (Lean). The point of this
//! harness is the BOUNDARY CLOCK: every comparison in `execute_mint_sender`, `execute_mint_to`,
//! `execute_update_start_time`, `execute_update_end_time`, `execute_set_whitelist`, `instantiate`, whitelist
//! `is_active` and `fetch_active_stage` is visited at t-1 ns, t, t+1 ns for t in {start, end, whitelist start/end,
//! every stage edge}, with members, non-members, Merkle proofs by the right and the wrong sender, identity and
//! real schedule updates and whitelist swaps.
//!
//! Monitors (independent of the Lean model; they use the harness's own ground truth = what it put into the
//! whitelists + the times the contracts report): public mint before start; open-edition mint/airdrop at or after
//! end; non-entitled buyer minted during an active whitelist / was charged another price than the whitelist's;
//! public price not charged when inactive; start changed after it had passed or moved into the past; end changed
//! after it had passed / before start; whitelist attached after start or while the old/new one is active.
use lp_harness::minters::*;
use lp_harness::world::{addr, addr_id, denom_id};
use lp_harness::*;
use serde_json::{json, Value};
use std::collections::BTreeMap;

const ADMIN: u64 = 10;
const WLADMIN: u64 = 11;
const PAYEE: u64 = 12;
const SRC_CREATOR: u64 = 13;

type LeafT = (Option<u64>, u64, Option<u64>);

// ------------------------------------------------------------------------------------------------ merkle trees

fn hash(tiered: bool, data: &[u8]) -> Vec<u8> {
    if tiered {
        blake3::hash(data).as_bytes()[..16].to_vec()
    } else {
        use sha2::Digest;
        sha2::Sha256::digest(data).to_vec()
    }
}
fn leaf_string(l: &LeafT) -> String {
    format!("{}{}{}", l.0.map(|s| s.to_string()).unwrap_or_default(), addr(l.1), l.2.map(|s| s.to_string()).unwrap_or_default())
}
#[derive(Clone, Debug, Default)]
struct Tree {
    layers: Vec<Vec<Vec<u8>>>,
}
impl Tree {
    fn build(tiered: bool, leaves: &[LeafT]) -> Tree {
        let mut layers = vec![leaves.iter().map(|l| hash(tiered, leaf_string(l).as_bytes())).collect::<Vec<_>>()];
        while layers.last().unwrap().len() > 1 {
            let cur = layers.last().unwrap();
            let mut next = vec![];
            for ch in cur.chunks(2) {
                if ch.len() == 2 {
                    let mut pair = [ch[0].clone(), ch[1].clone()];
                    pair.sort();
                    next.push(hash(tiered, &pair.concat()));
                } else {
                    next.push(ch[0].clone());
                }
            }
            layers.push(next);
        }
        Tree { layers }
    }
    fn root_hex(&self, tiered: bool) -> String {
        match self.layers.last().and_then(|l| l.first()) {
            Some(r) => hex::encode(r),
            None => hex::encode(hash(tiered, b"empty-tree")),
        }
    }
    fn proof(&self, mut idx: usize) -> Vec<String> {
        let mut out = vec![];
        for layer in &self.layers[..self.layers.len().saturating_sub(1)] {
            let sib = idx ^ 1;
            if sib < layer.len() {
                out.push(hex::encode(&layer[sib]));
            }
            idx /= 2;
        }
        out
    }
}

// ------------------------------------------------------------------------------------------------ whitelist bookkeeping

#[derive(Clone, Debug, Default)]
struct StageInfo {
    start: u64,
    end: u64,
    price: u128,
    per_addr: u64,
    cnt_limit: Option<u64>,
    members: Vec<(u64, u64)>,
    leaves: Vec<LeafT>,
}
#[derive(Clone, Debug)]
struct WlInfo {
    addr: String,
    kind: WlKind,
    denom: u64,
    stages: Vec<StageInfo>,
    trees: Vec<Tree>,
}
fn wl_kind_idx(k: WlKind) -> usize {
    ALL_WL.iter().position(|x| *x == k).unwrap()
}
fn is_tiered(k: WlKind) -> bool {
    matches!(k, WlKind::Tiered | WlKind::TieredFlex | WlKind::TieredMerkle)
}
fn is_merkle(k: WlKind) -> bool {
    matches!(k, WlKind::Merkle | WlKind::TieredMerkle)
}
fn is_flex(k: WlKind) -> bool {
    matches!(k, WlKind::Flex | WlKind::TieredFlex)
}
fn ox<T: std::fmt::Display>(x: &Option<T>) -> String {
    match x {
        Some(v) => v.to_string(),
        None => "x".into(),
    }
}
fn parse_ox(s: &str) -> Option<u64> {
    if s == "x" || s == "-" {
        None
    } else {
        s.parse().ok()
    }
}
impl WlInfo {
    /// the monitor's own notion of the stage in force (property text: `start <= now < end`; tiered: the first stage
    /// whose window contains now, end inclusive as `fetch_active_stage` has it)
    fn active_stage(&self, now: u64) -> Option<usize> {
        if self.kind == WlKind::Immutable {
            return None;
        }
        if is_tiered(self.kind) {
            self.stages.iter().position(|s| s.start <= now && now <= s.end)
        } else {
            self.stages.first().and_then(|s| if s.start <= now && now < s.end { Some(0) } else { None })
        }
    }
    fn describe(&self, k: u64) -> String {
        let st: Vec<String> = self.stages.iter().map(|s| format!("{}:{}:{}:{}:{}", s.start, s.end, s.price, s.per_addr, ox(&s.cnt_limit))).collect();
        let mem: Vec<String> = self.stages.iter().map(|s| fmt_pairs(&s.members)).collect();
        let lv: Vec<String> = self
            .stages
            .iter()
            .map(|s| if s.leaves.is_empty() { "-".to_string() } else { s.leaves.iter().map(|l| format!("{}:{}:{}", ox(&l.0), l.1, ox(&l.2))).collect::<Vec<_>>().join(",") })
            .collect();
        let j = |v: Vec<String>| if v.is_empty() { "-".to_string() } else { v.join(";") };
        format!("wl k={k} kind={} denom={} st={} mem={} lv={}", wl_kind_idx(self.kind), self.denom, j(st), j(mem), j(lv))
    }
}
fn parse_wl_line(line: &str) -> Option<(u64, WlKind, u64, Vec<StageInfo>)> {
    let k = kv_u64(line, "k")?;
    let kind = ALL_WL[kv_u64(line, "kind")? as usize];
    let denom = kv_u64(line, "denom")?;
    let groups = |key: &str| -> Vec<String> {
        match kv(line, key) {
            None | Some("-") | Some("") => vec![],
            Some(v) => v.split(';').map(String::from).collect(),
        }
    };
    let mut stages = vec![];
    let mems = groups("mem");
    let lvs = groups("lv");
    for (i, g) in groups("st").iter().enumerate() {
        let p: Vec<&str> = g.split(':').collect();
        if p.len() != 5 {
            return None;
        }
        let members: Vec<(u64, u64)> = match mems.get(i).map(|s| s.as_str()) {
            None | Some("-") | Some("") => vec![],
            Some(m) => m.split(',').filter_map(|x| x.split_once(':')).map(|(a, b)| (a.parse().unwrap(), b.parse().unwrap())).collect(),
        };
        let leaves: Vec<LeafT> = match lvs.get(i).map(|s| s.as_str()) {
            None | Some("-") | Some("") => vec![],
            Some(m) => m
                .split(',')
                .map(|x| {
                    let q: Vec<&str> = x.split(':').collect();
                    (parse_ox(q[0]), q[1].parse().unwrap(), parse_ox(q[2]))
                })
                .collect(),
        };
        stages.push(StageInfo { start: p[0].parse().ok()?, end: p[1].parse().ok()?, price: p[2].parse().ok()?, per_addr: p[3].parse().ok()?, cnt_limit: parse_ox(p[4]), members, leaves });
    }
    Some((k, kind, denom, stages))
}

// ------------------------------------------------------------------------------------------------ the system under test

#[derive(Clone, Debug, Default, PartialEq)]
struct Snap {
    now: u64,
    exists: bool,
    start: u64,
    end: Option<u64>,
    wl: Option<u64>,
    left: Option<u64>,
    price: (u64, u128),
    limit: u64,
}
#[derive(Clone, Debug)]
struct MonRec {
    line: String,
    op: String,
    ok: bool,
    pre: Snap,
    post: Snap,
    sender: u64,
    leaf: LeafT,
    proof_presented: bool,
    charged: [i128; 2],
    new_t: u64,
}

struct S {
    w: World,
    vidx: usize,
    kind: MinterKind,
    denom: u64,
    airp: u128,
    factory: String,
    minter: Option<String>,
    src_minter: String,
    src_coll: String,
    src_next: u64,
    src_owned: BTreeMap<u64, Vec<u64>>,
    wls: BTreeMap<u64, WlInfo>,
    last: Option<MonRec>,
    frozen_start: Option<u64>,
    frozen_end: Option<u64>,
    frozen_wl: Option<Option<u64>>,
}

fn variant_kind(i: usize) -> MinterKind {
    [
        MinterKind::Vending,
        MinterKind::VendingFeatured,
        MinterKind::VendingFlex,
        MinterKind::VendingFlexFeatured,
        MinterKind::VendingMerkle,
        MinterKind::VendingMerkleFeatured,
        MinterKind::OpenEdition,
        MinterKind::OpenEditionFlex,
        MinterKind::OpenEditionMerkle,
        MinterKind::TokenMerge,
    ][i]
}
fn nanos(v: &Value) -> Option<u64> {
    v.as_str().and_then(|s| s.parse().ok())
}

impl S {
    fn new() -> S {
        S {
            w: World::new(GENESIS),
            vidx: 0,
            kind: MinterKind::Vending,
            denom: 0,
            airp: 0,
            factory: String::new(),
            minter: None,
            src_minter: String::new(),
            src_coll: String::new(),
            src_next: 0,
            src_owned: BTreeMap::new(),
            wls: BTreeMap::new(),
            last: None,
            frozen_start: None,
            frozen_end: None,
            frozen_wl: None,
        }
    }
    fn wl_key_of(&self, a: &str) -> Option<u64> {
        self.wls.iter().find(|(_, i)| i.addr == a).map(|(k, _)| *k)
    }
    fn snap(&self) -> Snap {
        let mut s = Snap { now: self.w.time(), ..Default::default() };
        let Some(m) = &self.minter else { return s };
        let Ok(c) = self.w.query(m, &json!({"config":{}})) else { return s };
        s.exists = true;
        s.start = nanos(&c["start_time"]).unwrap_or(0);
        s.end = nanos(&c["end_time"]);
        s.wl = c["whitelist"].as_str().map(|a| self.wl_key_of(a).unwrap_or(999_999));
        if let Some(mp) = c.get("mint_price") {
            if let (Some(d), Some(a)) = (mp["denom"].as_str(), mp["amount"].as_str()) {
                s.price = (denom_id(d), a.parse().unwrap_or(0));
            }
        }
        if let Ok(n) = self.w.query(m, &json!({"mintable_num_tokens":{}})) {
            s.left = n["count"].as_u64();
        }
        // the effective public price: a standing discount replaces the configured price (vending family)
        if let Ok(v) = self.w.query(m, &json!({"mint_price":{}})) {
            if let Some(a) = v["discount_price"]["amount"].as_str().and_then(|x| x.parse::<u128>().ok()) {
                s.price.1 = a;
            }
        }
        s.limit = c["per_address_limit"].as_u64().unwrap_or(0);
        s
    }
    fn obs(s: &Snap) -> String {
        if !s.exists {
            return "st=- en=- wl=- left=-".into();
        }
        format!("st={} en={} wl={} left={}", s.start, fmt_opt(&s.end), fmt_opt(&s.wl), fmt_opt(&s.left))
    }
    fn count_of(&self, a: u64) -> String {
        let Some(m) = &self.minter else { return "cnt=-".into() };
        match self.w.query(m, &json!({"mint_count":{"address": addr(a)}})) {
            Ok(v) => format!("cnt={}", v["count"].as_u64().unwrap_or(0) + v["whitelist_count"].as_u64().unwrap_or(0)),
            Err(_) => "cnt=?".into(),
        }
    }

    /// refresh our description of whitelist `k` from what the real contract reports (leaves: our own ground truth)
    fn observe(&mut self, k: u64) {
        let Some(info) = self.wls.get(&k).cloned() else { return };
        let mut info = info;
        let a = info.addr.clone();
        let coin_of = |v: &Value| -> (u64, u128) { (denom_id(v["denom"].as_str().unwrap_or("")), v["amount"].as_str().and_then(|x| x.parse().ok()).unwrap_or(0)) };
        match info.kind {
            WlKind::Immutable => {}
            WlKind::Plain | WlKind::Flex | WlKind::Merkle => {
                let c = self.w.query(&a, &json!({"config":{}})).expect("wl config");
                let (d, p) = coin_of(&c["mint_price"]);
                info.denom = d;
                let st = &mut info.stages[0];
                st.start = nanos(&c["start_time"]).unwrap();
                st.end = nanos(&c["end_time"]).unwrap();
                st.price = p;
                st.per_addr = c["per_address_limit"].as_u64().unwrap_or(0);
                if info.kind != WlKind::Merkle {
                    let m = self.w.query(&a, &json!({"members":{"limit":100}})).expect("members");
                    st.members = m["members"]
                        .as_array()
                        .unwrap()
                        .iter()
                        .map(|x| match x.as_str() {
                            Some(s) => (addr_id(s), 0),
                            None => (addr_id(x["address"].as_str().unwrap()), x["mint_count"].as_u64().unwrap()),
                        })
                        .collect();
                }
            }
            WlKind::Tiered | WlKind::TieredFlex | WlKind::TieredMerkle => {
                let r = self.w.query(&a, &json!({"stages":{}})).expect("stages");
                let arr = r["stages"].as_array().unwrap().clone();
                let old = info.stages.clone();
                info.stages.clear();
                for (i, s) in arr.iter().enumerate() {
                    let sg = &s["stage"];
                    let (d, p) = coin_of(&sg["mint_price"]);
                    info.denom = d;
                    let mut st = StageInfo {
                        start: nanos(&sg["start_time"]).unwrap(),
                        end: nanos(&sg["end_time"]).unwrap(),
                        price: p,
                        per_addr: sg["per_address_limit"].as_u64().unwrap_or(0),
                        cnt_limit: sg["mint_count_limit"].as_u64(),
                        members: vec![],
                        leaves: old.get(i).map(|o| o.leaves.clone()).unwrap_or_default(),
                    };
                    if info.kind != WlKind::TieredMerkle {
                        let m = self.w.query(&a, &json!({"members":{"limit":100, "stage_id": i}})).expect("members");
                        st.members = m["members"]
                            .as_array()
                            .unwrap()
                            .iter()
                            .map(|x| match x.as_str() {
                                Some(s) => (addr_id(s), 0),
                                None => (addr_id(x["address"].as_str().unwrap()), x["mint_count"].as_u64().unwrap()),
                            })
                            .collect();
                    }
                    info.stages.push(st);
                }
            }
        }
        self.wls.insert(k, info);
    }

    fn create_wl(&mut self, line: &str) -> bool {
        let Some((k, kind, denom, stages)) = parse_wl_line(line) else { return false };
        if self.wls.contains_key(&k) {
            return false;
        }
        let tiered = is_tiered(kind);
        let trees: Vec<Tree> = stages.iter().map(|s| Tree::build(tiered, &s.leaves)).collect();
        let args = WlArgs {
            admin: WLADMIN,
            member_limit: 1000,
            admins_mutable: true,
            whale_cap: None,
            stages: stages
                .iter()
                .zip(trees.iter())
                .map(|(s, t)| WlStage {
                    start: s.start,
                    end: s.end,
                    mint_price: (denom, s.price),
                    per_address_limit: s.per_addr as u32,
                    mint_count_limit: s.cnt_limit.map(|x| x as u32),
                    members: s.members.iter().map(|(a, c)| (*a, *c as u32)).collect(),
                    merkle_root: t.root_hex(tiered),
                })
                .collect(),
        };
        let args = if args.stages.is_empty() {
            WlArgs { stages: vec![WlStage { start: 0, end: 0, mint_price: (0, 0), per_address_limit: 1, mint_count_limit: None, members: vec![(20, 1)], merkle_root: String::new() }], ..args }
        } else {
            args
        };
        match self.w.new_whitelist(kind, &args) {
            Ok(a) => {
                self.wls.insert(k, WlInfo { addr: a, kind, denom, stages: if kind == WlKind::Immutable { vec![] } else { stages }, trees });
                self.observe(k);
                true
            }
            Err(_) => false,
        }
    }

    fn wl_addr(&self, k: u64) -> String {
        self.wls.get(&k).map(|i| i.addr.clone()).unwrap_or_else(|| addr(9000 + k))
    }

    /// make sure `owner` holds a token of the source collection (token-merge), return its id
    fn source_token(&mut self, owner: u64) -> u64 {
        if let Some(v) = self.src_owned.get(&owner) {
            if let Some(t) = v.last() {
                return *t;
            }
        }
        let fee = 50_000_000u128 * 1000 / 10_000;
        self.w.fund(&addr(SRC_CREATOR), 0, fee);
        self.w.exec(&addr(SRC_CREATOR), &self.src_minter.clone(), &json!({"mint":{"token_uri":"ipfs://src/1"}}), &[(0, fee)]).expect("source mint");
        self.src_next += 1;
        let id = self.src_next;
        self.w
            .exec(&addr(SRC_CREATOR), &self.src_coll.clone(), &json!({"transfer_nft":{"recipient": addr(owner), "token_id": id.to_string()}}), &[])
            .expect("source transfer");
        self.src_owned.entry(owner).or_default().push(id);
        id
    }

    fn proof_hashes(&self, spec: &str) -> (Value, bool) {
        // returns (json for proof_hashes, presented?)
        match spec {
            "-" => (Value::Null, false),
            "b" => (json!(["zz-not-hex", "1234"]), true),
            "j" => {
                // well-formed digests that are no path: both digest sizes tried by kind of attached whitelist
                let tiered = self.snap().wl.and_then(|k| self.wls.get(&k)).map(|i| is_tiered(i.kind)).unwrap_or(false);
                let n = if tiered { 16 } else { 32 };
                (json!([hex::encode(vec![0xabu8; n]), hex::encode(vec![0x17u8; n])]), true)
            }
            p => {
                let q: Vec<&str> = p.split('.').collect();
                if q.len() != 6 {
                    return (Value::Null, false);
                }
                let k: u64 = q[1].parse().unwrap_or(0);
                let i: usize = q[2].parse().unwrap_or(0);
                let leaf: LeafT = (parse_ox(q[3]), q[4].parse().unwrap_or(0), parse_ox(q[5]));
                let Some(info) = self.wls.get(&k) else { return (json!([]), true) };
                let Some(st) = info.stages.get(i) else { return (json!([]), true) };
                match st.leaves.iter().position(|l| *l == leaf) {
                    Some(pos) => (json!(info.trees[i].proof(pos)), true),
                    None => (json!([hex::encode(vec![1u8; if is_tiered(info.kind) { 16 } else { 32 }])]), true),
                }
            }
        }
    }
}

impl Sut for S {
    fn begin(&mut self, header: &str) -> (String, String) {
        let now = kv_u64(header, "now").unwrap_or(GENESIS);
        self.vidx = kv_u64(header, "v").unwrap_or(0) as usize;
        self.kind = variant_kind(self.vidx);
        self.denom = kv_u64(header, "denom").unwrap_or(0);
        let mut w = World::new(now);
        let mut p = w.default_params(self.kind);
        p.min_mint_price = (self.denom, kv_u128(header, "minp").unwrap_or(0));
        self.airp = kv_u128(header, "airp").unwrap_or(0);
        p.airdrop_mint_price = (self.denom, self.airp);
        p.max_token_limit = kv_u64(header, "maxtok").unwrap_or(100) as u32;
        p.max_per_address_limit = 50;
        self.factory = w.new_factory(self.kind.factory(), &p).expect("factory");
        self.src_minter.clear();
        self.src_coll.clear();
        self.src_next = 0;
        self.src_owned.clear();
        if self.kind == MinterKind::TokenMerge {
            let pb = w.default_params(MinterKind::Base);
            let fb = w.new_factory(FactoryKind::Base, &pb).expect("base factory");
            let mut ab = w.default_create(MinterKind::Base, &pb);
            ab.creator = SRC_CREATOR;
            w.fund(&addr(SRC_CREATOR), 0, 10_000_000_000);
            let (mb, cb) = w.create_minter(&fb, MinterKind::Base, &ab).expect("source collection");
            self.src_minter = mb;
            self.src_coll = cb;
        }
        for b in 20..40u64 {
            w.fund(&addr(b), 0, 1_000_000_000_000_000);
            w.fund(&addr(b), 1, 1_000_000_000_000_000);
        }
        w.fund(&addr(ADMIN), 0, 1_000_000_000_000_000);
        w.fund(&addr(ADMIN), 1, 1_000_000_000_000_000);
        self.w = w;
        self.minter = None;
        self.wls.clear();
        self.last = None;
        self.frozen_start = None;
        self.frozen_end = None;
        self.frozen_wl = None;
        (header.to_string(), "case".to_string())
    }

    fn exec(&mut self, line: &str) -> (String, String) {
        let op = line.split_whitespace().next().unwrap_or("").to_string();
        self.last = None;
        match op.as_str() {
            "wl" => {
                let ok = self.create_wl(line);
                let k = kv_u64(line, "k").unwrap_or(0);
                return if ok { (self.wls[&k].describe(k), "env".into()) } else { ("noop".into(), "env".into()) };
            }
            "wl_time" | "wl_stage" | "wl_add" | "wl_rm" => {
                let k = kv_u64(line, "k").unwrap_or(0);
                let Some(info) = self.wls.get(&k).cloned() else { return ("noop".into(), "env".into()) };
                let stage = kv_u64(line, "stage").unwrap_or(0);
                let msg = match op.as_str() {
                    "wl_time" => {
                        let t = kv_u64(line, "t").unwrap_or(0).to_string();
                        if kv(line, "which") == Some("start") {
                            json!({"update_start_time": t})
                        } else {
                            json!({"update_end_time": t})
                        }
                    }
                    "wl_stage" => json!({"update_stage_config": {"stage_id": stage, "start_time": kv_u64(line, "start").map(|t| t.to_string()),
                        "end_time": kv_u64(line, "end").map(|t| t.to_string())}}),
                    "wl_add" => {
                        let a = addr(kv_u64(line, "a").unwrap_or(0));
                        let m = if is_flex(info.kind) { json!({"address": a, "mint_count": kv_u64(line, "c").unwrap_or(1)}) } else { json!(a) };
                        if is_tiered(info.kind) {
                            json!({"add_members": {"to_add": [m], "stage_id": stage}})
                        } else {
                            json!({"add_members": {"to_add": [m]}})
                        }
                    }
                    _ => {
                        let a = addr(kv_u64(line, "a").unwrap_or(0));
                        if is_tiered(info.kind) {
                            json!({"remove_members": {"to_remove": [a], "stage_id": stage}})
                        } else {
                            json!({"remove_members": {"to_remove": [a]}})
                        }
                    }
                };
                let _ = self.w.exec(&addr(WLADMIN), &info.addr, &msg, &[]);
                self.observe(k);
                return (self.wls[&k].describe(k), "env".into());
            }
            "t" => {
                let t = kv_u64(line, "now").unwrap_or(0);
                if t < self.w.time() {
                    return (line.to_string(), "err".into());
                }
                self.w.set_time(t);
                // sticky facts for the history monitors
                let s = self.snap();
                if s.exists {
                    if s.now >= s.start && self.frozen_start.is_none() {
                        self.frozen_start = Some(s.start);
                        self.frozen_wl = Some(s.wl);
                    }
                    if let Some(e) = s.end {
                        if s.now >= e && self.frozen_end.is_none() {
                            self.frozen_end = Some(e);
                        }
                    }
                }
                return (line.to_string(), "ok".into());
            }
            "menv" => {
                // any other minter message; the model only learns what can be observed afterwards
                let Some(m) = self.minter.clone() else { return ("noop".into(), "env".into()) };
                let pre = self.snap();
                let what = kv(line, "what").unwrap_or("");
                let arg = kv_u128(line, "arg").unwrap_or(0);
                let who = addr(kv_u64(line, "sender").unwrap_or(ADMIN));
                let mut purged = false;
                let r = match what {
                    "upd_price" => self.w.exec(&who, &m, &json!({"update_mint_price": {"price": arg.to_string()}}), &[]),
                    "upd_limit" => self.w.exec(&who, &m, &json!({"update_per_address_limit": {"per_address_limit": arg as u64}}), &[]),
                    "purge" => {
                        let r = self.w.exec(&who, &m, &json!({"purge": {}}), &[]);
                        purged = r.is_ok();
                        r
                    }
                    "shuffle" => {
                        self.w.fund(&who, 0, 500_000_000);
                        self.w.exec(&who, &m, &json!({"shuffle": {}}), &[(0, 500_000_000)])
                    }
                    "burn" => self.w.exec(&who, &m, &json!({"burn_remaining": {}}), &[]),
                    "trading" => self.w.exec(&who, &m, &json!({"update_start_trading_time": (arg as u64).to_string()}), &[]),
                    "discount" => self.w.exec(&who, &m, &json!({"update_discount_price": {"price": arg.to_string()}}), &[]),
                    "rm_discount" => self.w.exec(&who, &m, &json!({"remove_discount_price": {}}), &[]),
                    _ => self.w.sudo(&m, &json!({"update_status": {"is_verified": arg % 2 == 1, "is_blocked": arg % 4 >= 2, "is_explicit": arg % 8 >= 4}})),
                };
                let ok = r.is_ok();
                let post = self.snap();
                self.last = Some(MonRec { line: line.to_string(), op: "menv".into(), ok, pre, post: post.clone(), sender: 0, leaf: (None, 0, None), proof_presented: false, charged: [0, 0], new_t: 0 });
                let pw = purged && self.kind.is_flex();
                return (
                    format!("menv price={} limit={} left={} pp={} pw={}", post.price.1, post.limit, fmt_opt(&post.left), purged as u8, pw as u8),
                    format!("env {}", S::obs(&post)),
                );
            }
            "price" => {
                let Some(m) = &self.minter else { return (line.to_string(), "err".into()) };
                return match self.w.query(m, &json!({"mint_price":{}})) {
                    Ok(v) => {
                        let c = |x: &Value| format!("{}:{}", denom_id(x["denom"].as_str().unwrap_or("")), x["amount"].as_str().unwrap_or("?"));
                        let wlp = if v["whitelist_price"].is_null() { "-".to_string() } else { c(&v["whitelist_price"]) };
                        (line.to_string(), format!("ok cur={} wlp={}", c(&v["current_price"]), wlp))
                    }
                    Err(_) => (line.to_string(), "err".into()),
                };
            }
            _ => {}
        }

        // ---- minter operations
        let pre = self.snap();
        let sender = kv_u64(line, "sender").unwrap_or(0);
        let funds: Vec<(u64, u128)> = kv_pairs(line, "funds").unwrap_or_default().into_iter().map(|(d, a)| (d as u64, a)).collect();
        let bal = |s: &S, a: u64| -> [i128; 2] { [s.w.balance(&addr(a), 0) as i128, s.w.balance(&addr(a), 1) as i128] };
        let b0 = bal(self, sender);
        let mut leaf: LeafT = (None, sender, None);
        let mut proof_presented = false;
        let mut cnt_addr: Option<u64> = None;
        let mut new_t = 0u64;
        let ok: bool = match op.as_str() {
            "create" => {
                if self.minter.is_some() {
                    false
                } else {
                    let p = self.w.default_params(self.kind);
                    let mut a = self.w.default_create(self.kind, &p);
                    a.creator = sender;
                    a.start_time = kv_u64(line, "start").unwrap_or(0);
                    a.end_time = kv_opt_u64(line, "end").unwrap_or(None);
                    a.whitelist = kv_opt_u64(line, "wl").unwrap_or(None).map(|k| self.wl_addr(k));
                    a.mint_price = (self.denom, kv_u128(line, "price").unwrap_or(0));
                    a.per_address_limit = kv_u64(line, "limit").unwrap_or(1) as u32;
                    a.num_tokens = kv_opt_u64(line, "ntok").unwrap_or(None).map(|n| n as u32);
                    a.payment_address = Some(PAYEE);
                    if self.kind == MinterKind::TokenMerge {
                        a.mint_tokens = vec![(self.src_coll.clone(), 1)];
                        a.payment_address = None;
                    }
                    a.funds = vec![(0, 5_000_000_000)];
                    match self.w.create_minter(&self.factory.clone(), self.kind, &a) {
                        Ok((m, _c)) => {
                            self.minter = Some(m);
                            true
                        }
                        Err(_) => false,
                    }
                }
            }
            _ if self.minter.is_none() => false,
            "mint" => {
                cnt_addr = Some(sender);
                let m = self.minter.clone().unwrap();
                let msg = if self.kind.is_merkle() {
                    let stage = kv_opt_u64(line, "stage").unwrap_or(None);
                    let alloc = kv_opt_u64(line, "alloc").unwrap_or(None);
                    leaf = (stage, sender, alloc);
                    let (ph, presented) = self.proof_hashes(kv(line, "proof").unwrap_or("-"));
                    proof_presented = presented;
                    json!({"mint": {"stage": stage, "proof_hashes": ph, "allocation": alloc}})
                } else {
                    json!({"mint": {}})
                };
                if self.kind == MinterKind::TokenMerge {
                    false
                } else {
                    {
                        let r = self.w.exec(&addr(sender), &m, &msg, &funds);
                        if let (Err(e), true) = (&r, std::env::var("C04_DEBUG").is_ok()) {
                            eprintln!("DBG v{} {} => {}", self.vidx, line, e.lines().last().unwrap_or("").rsplit("}: ").next().unwrap_or("").to_string());
                        }
                        r.is_ok()
                    }
                }
            }
            "mint_to" => {
                let r = kv_u64(line, "rcpt").unwrap_or(0);
                cnt_addr = Some(if self.kind == MinterKind::TokenMerge { r } else { sender });
                let m = self.minter.clone().unwrap();
                self.w.exec(&addr(sender), &m, &json!({"mint_to": {"recipient": addr(r)}}), &funds).is_ok()
            }
            "deposit" => {
                let r = kv_opt_u64(line, "rcpt").unwrap_or(None);
                cnt_addr = Some(r.unwrap_or(sender));
                if self.kind != MinterKind::TokenMerge {
                    false
                } else {
                    let id = self.source_token(sender);
                    let m = self.minter.clone().unwrap();
                    let inner = cosmwasm_std::to_json_binary(&json!({"deposit_token": {"recipient": r.map(addr)}})).unwrap();
                    let res = self.w.exec(&addr(sender), &self.src_coll.clone(), &json!({"send_nft": {"contract": m, "token_id": id.to_string(), "msg": inner}}), &[]);
                    if res.is_ok() {
                        self.src_owned.get_mut(&sender).unwrap().pop();
                    }
                    res.is_ok()
                }
            }
            "upd_start" => {
                new_t = kv_u64(line, "t").unwrap_or(0);
                let m = self.minter.clone().unwrap();
                self.w.exec(&addr(sender), &m, &json!({"update_start_time": new_t.to_string()}), &[]).is_ok()
            }
            "upd_end" => {
                new_t = kv_u64(line, "t").unwrap_or(0);
                let m = self.minter.clone().unwrap();
                self.w.exec(&addr(sender), &m, &json!({"update_end_time": new_t.to_string()}), &[]).is_ok()
            }
            "set_wl" => {
                let k = kv_u64(line, "wl").unwrap_or(0);
                let m = self.minter.clone().unwrap();
                let a = self.wl_addr(k);
                self.w.exec(&addr(sender), &m, &json!({"set_whitelist": {"whitelist": a}}), &[]).is_ok()
            }
            _ => return (line.to_string(), "bad-op".into()),
        };
        let post = self.snap();
        let b1 = bal(self, sender);
        self.last = Some(MonRec { line: line.to_string(), op: op.clone(), ok, pre, post: post.clone(), sender, leaf, proof_presented, charged: [b0[0] - b1[0], b0[1] - b1[1]], new_t });
        let out = if ok {
            match cnt_addr {
                Some(a) => format!("ok {} {}", S::obs(&post), self.count_of(a)),
                None => format!("ok {}", S::obs(&post)),
            }
        } else {
            "err".to_string()
        };
        (line.to_string(), out)
    }

    /// Direct transcription of the property on the implementation's own trace (independent of the Lean model).
    fn monitor(&mut self) -> Option<(String, String)> {
        let r = self.last.clone()?;
        let name = self.kind.name();
        let bad = |op: &str, p: &str, w: String| Some((format!("{name}/{op}/{p}"), format!("{w} on `{}` (now={}, pre={:?}, post={:?})", r.line, r.pre.now, r.pre, r.post)));
        let now = r.pre.now;
        let oe = self.kind.is_open_edition();
        // history: once the start / end has passed it never changes; the whitelist never changes after start
        if r.post.exists {
            if let Some(f) = self.frozen_start {
                if r.post.start != f {
                    return bad(&r.op, "start-changed-after-start", format!("start was {f} and had passed, now {}", r.post.start));
                }
            }
            if let (Some(f), true) = (self.frozen_end, oe) {
                if r.post.end != Some(f) {
                    return bad(&r.op, "end-changed-after-end", format!("end was {f} and had passed, now {:?}", r.post.end));
                }
            }
            if let Some(f) = self.frozen_wl {
                if r.post.wl != f {
                    return bad(&r.op, "whitelist-changed-after-start", format!("whitelist was {:?} when the mint started, now {:?}", f, r.post.wl));
                }
            }
            // the op itself ran at `now`: freeze for later ops
            if now >= r.post.start && self.frozen_start.is_none() {
                self.frozen_start = Some(r.post.start);
                self.frozen_wl = Some(r.post.wl);
            }
            if let Some(e) = r.post.end {
                if now >= e && self.frozen_end.is_none() {
                    self.frozen_end = Some(e);
                }
            }
        }
        // whatever the message was (also the ones this property does not name): a change of the schedule or of the
        // attached whitelist must obey the rules
        if r.pre.exists && r.post.exists {
            if r.post.start != r.pre.start {
                if now >= r.pre.start {
                    return bad(&r.op, "start-updated-after-start", format!("start {} had passed at {now}, now {}", r.pre.start, r.post.start));
                }
                if r.post.start < now {
                    return bad(&r.op, "start-moved-into-the-past", format!("new start {} < now {now}", r.post.start));
                }
            }
            if r.post.end != r.pre.end {
                match r.pre.end {
                    Some(e) if now < e => {}
                    _ => return bad(&r.op, "end-updated-after-end", format!("end {:?} had passed (or was never set) at {now}, now {:?}", r.pre.end, r.post.end)),
                }
                match r.post.end {
                    Some(n) if n >= r.post.start => {}
                    _ => return bad(&r.op, "end-before-start", format!("new end {:?} vs start {}", r.post.end, r.post.start)),
                }
            }
            if r.post.wl != r.pre.wl {
                if now >= r.pre.start {
                    return bad(&r.op, "whitelist-attached-after-start", format!("start {} had passed at {now}", r.pre.start));
                }
                if r.pre.wl.and_then(|k| self.wls.get(&k)).and_then(|i| i.active_stage(now)).is_some() {
                    return bad(&r.op, "whitelist-replaced-while-active", format!("current whitelist {:?} is active at {now}", r.pre.wl));
                }
                if r.post.wl.and_then(|k| self.wls.get(&k)).and_then(|i| i.active_stage(now)).is_some() {
                    return bad(&r.op, "active-whitelist-attached", format!("new whitelist {:?} is active at {now}", r.post.wl));
                }
            }
        }
        if !r.ok {
            return None;
        }
        let attached = r.pre.wl.and_then(|k| self.wls.get(&k));
        let active = attached.and_then(|i| i.active_stage(now).map(|s| (i, s)));
        match r.op.as_str() {
            "mint" | "deposit" => {
                if oe {
                    if let Some(e) = r.pre.end {
                        if now >= e {
                            return bad(&r.op, "open-edition-mint-at-or-after-end", format!("mint succeeded at {now} >= end {e}"));
                        }
                    }
                }
                match active {
                    None => {
                        if now < r.pre.start {
                            return bad(&r.op, "public-mint-before-start", format!("public mint succeeded at {now} < start {}", r.pre.start));
                        }
                        if r.op == "mint" {
                            let mut want = [0i128; 2];
                            want[r.pre.price.0 as usize % 2] = r.pre.price.1 as i128;
                            if r.charged != want {
                                return bad(&r.op, "public-price", format!("no active whitelist: charged {:?}, public price is {:?}", r.charged, r.pre.price));
                            }
                        }
                    }
                    Some((info, si)) => {
                        let st = &info.stages[si];
                        let entitled = if is_merkle(info.kind) { r.proof_presented && st.leaves.contains(&r.leaf) } else { st.members.iter().any(|(a, _)| *a == r.sender) };
                        if !entitled {
                            return bad(&r.op, "non-member-minted-during-active-whitelist", format!("sender {} is not entitled in stage {si} of whitelist {:?}", r.sender, r.pre.wl));
                        }
                        let mut want = [0i128; 2];
                        want[info.denom as usize % 2] = st.price as i128;
                        if r.charged != want {
                            return bad(&r.op, "whitelist-price", format!("active whitelist: charged {:?}, whitelist price is {}:{}", r.charged, info.denom, st.price));
                        }
                    }
                }
            }
            "mint_to" => {
                if oe {
                    if let Some(e) = r.pre.end {
                        if now >= e {
                            return bad(&r.op, "open-edition-airdrop-at-or-after-end", format!("airdrop succeeded at {now} >= end {e}"));
                        }
                    }
                }
            }
            "upd_start" => {
                if now >= r.pre.start {
                    return bad(&r.op, "start-updated-after-start", format!("start {} had passed at {now}", r.pre.start));
                }
                if r.new_t < now {
                    return bad(&r.op, "start-moved-into-the-past", format!("new start {} < now {now}", r.new_t));
                }
                if r.post.start != r.new_t {
                    return bad(&r.op, "start-not-stored", format!("asked {}, stored {}", r.new_t, r.post.start));
                }
            }
            "upd_end" => {
                match r.pre.end {
                    Some(e) if now < e => {}
                    _ => return bad(&r.op, "end-updated-after-end", format!("end {:?} had passed (or was never set) at {now}", r.pre.end)),
                }
                if r.new_t < r.pre.start {
                    return bad(&r.op, "end-before-start", format!("new end {} < start {}", r.new_t, r.pre.start));
                }
                if r.post.end != Some(r.new_t) {
                    return bad(&r.op, "end-not-stored", format!("asked {}, stored {:?}", r.new_t, r.post.end));
                }
            }
            "set_wl" | "create" => {
                if r.op == "set_wl" {
                    if now >= r.pre.start {
                        return bad(&r.op, "whitelist-attached-after-start", format!("start {} had passed at {now}", r.pre.start));
                    }
                    if active.is_some() {
                        return bad(&r.op, "whitelist-replaced-while-active", format!("current whitelist {:?} is active at {now}", r.pre.wl));
                    }
                }
                if let Some(info) = r.post.wl.and_then(|k| self.wls.get(&k)) {
                    if info.active_stage(now).is_some() {
                        return bad(&r.op, "active-whitelist-attached", format!("new whitelist {:?} is active at {now}", r.post.wl));
                    }
                }
            }
            _ => {}
        }
        None
    }
}

// ------------------------------------------------------------------------------------------------ generators

const MEMBERS: [u64; 8] = [20, 21, 22, 23, 24, 25, 26, 27];
const OUTSIDERS: [u64; 3] = [30, 31, 32];

struct Gen {
    rng: Rng,
    rot: u64,
}

/// stage windows (relative to the mint start S) per shape; tiered kinds use all, single-stage kinds the first
fn windows(shape: u64, s: u64) -> Vec<(u64, u64)> {
    match shape % 8 {
        0 => vec![(s - 600, s - 400), (s - 400, s - 200), (s - 150, s - 100)], // before start, two stages touching
        1 => vec![(s - 300, s + 300)],                                          // straddles the start
        2 => vec![(s + 100, s + 300), (s + 305, s + 400)],                      // after the start
        3 => vec![(s - 200, s)],                                                // ends exactly at the start
        4 => vec![(s, s + 200)],                                                // begins exactly at the start
        5 => vec![(s - 400, s - 100), (s - 100, s + 100), (s + 100, s + 250)],  // chain across the start, touching
        6 => vec![(s - 500, s - 499)],                                          // one-nanosecond window
        _ => vec![(s - 50, s + 900), (s + 950, s + 1200)],                      // outlives an open-edition end
    }
}

fn wl_line(k: u64, kind: WlKind, denom: u64, wins: &[(u64, u64)], base_price: u128, rng: &mut Rng) -> String {
    let n = if is_tiered(kind) { wins.len().min(3) } else { 1 };
    let mut st = vec![];
    let mut mem = vec![];
    let mut lv = vec![];
    for i in 0..n {
        let (a, b) = wins[i];
        let per = if is_flex(kind) { 0 } else { 1 + rng.below(3) };
        let cl = if is_tiered(kind) && rng.chance(1, 3) { (2 + rng.below(4)).to_string() } else { "x".into() };
        st.push(format!("{a}:{b}:{}:{per}:{cl}", base_price + 1000 * i as u128));
        // members: rotate so that stages differ; MEMBERS[3] only in later stages
        let ms: Vec<u64> = MEMBERS.iter().cloned().filter(|m| (*m as usize + i) % 4 != 3).collect();
        if is_merkle(kind) {
            let mut leaves: Vec<String> = vec![format!("x:{}:x", 9000 + 10 * k + i as u64)]; // marker leaf: makes every tree distinct
            for (j, m) in ms.iter().enumerate() {
                match j % 3 {
                    0 => leaves.push(format!("x:{m}:x")),
                    1 => leaves.push(format!("x:{m}:{}", 2 + j)),
                    _ => leaves.push(format!("{}:{m}:{}", i + 1, 1 + j)),
                }
            }
            lv.push(leaves.join(","));
            mem.push("-".to_string());
        } else {
            mem.push(ms.iter().map(|m| format!("{m}:{}", if is_flex(kind) { 1 + (m % 3) } else { 0 })).collect::<Vec<_>>().join(","));
            lv.push("-".to_string());
        }
    }
    if kind == WlKind::Immutable {
        return format!("wl k={k} kind={} denom={denom} st=- mem=- lv=-", wl_kind_idx(kind));
    }
    format!("wl k={k} kind={} denom={denom} st={} mem={} lv={}", wl_kind_idx(kind), st.join(";"), mem.join(";"), lv.join(";"))
}

impl Gen {
    fn buyer(&mut self, pool: &[u64]) -> u64 {
        self.rot += 1;
        pool[(self.rot as usize) % pool.len()]
    }
}

/// funds string for what the real contract currently demands (generator convenience; not used by the monitors)
fn current_price(sut: &S) -> Option<(u64, u128)> {
    let m = sut.minter.as_ref()?;
    let v = sut.w.query(m, &json!({"mint_price":{}})).ok()?;
    Some((denom_id(v["current_price"]["denom"].as_str()?), v["current_price"]["amount"].as_str()?.parse().ok()?))
}
fn funds_str(p: Option<(u64, u128)>) -> String {
    match p {
        Some((_, 0)) | None => "-".into(),
        Some((d, a)) => format!("{d}:{a}"),
    }
}

/// the mint line a given buyer would send (Merkle minters: with the proof of the buyer's own leaf in the active
/// tree when there is one, else a plain call)
fn mint_line(sut: &S, buyer: u64, funds: &str, mode: u64) -> String {
    if !sut.kind.is_merkle() {
        return format!("mint sender={buyer} funds={funds}");
    }
    let snap = sut.snap();
    let now = snap.now;
    let info = snap.wl.and_then(|k| sut.wls.get(&k).map(|i| (k, i)));
    // candidate leaf: the buyer's own leaf in the tree in force (or in tree 0 when nothing is active)
    let mut stage = "-".to_string();
    let mut alloc = "-".to_string();
    let mut proof = "-".to_string();
    if let Some((k, i)) = info {
        if is_merkle(i.kind) && !i.stages.is_empty() {
            let ti = i.active_stage(now).unwrap_or(0);
            let own = i.stages[ti].leaves.iter().find(|l| l.1 == buyer).cloned();
            let other = i.stages[ti].leaves.iter().find(|l| l.1 != buyer && l.1 < 9000).cloned();
            let enc = |t: usize, l: &LeafT| format!("p.{k}.{t}.{}.{}.{}", ox(&l.0), l.1, ox(&l.2));
            match mode % 10 {
                0 | 1 | 2 => {
                    if let Some(l) = own.clone().or(other.clone()) {
                        // own leaf with own proof; an outsider presents someone else's proof and claims that leaf's stage/allocation
                        stage = fmt_opt(&l.0);
                        alloc = fmt_opt(&l.2);
                        proof = enc(ti, &l);
                    }
                }
                3 => {
                    // somebody else's proof, own (true) stage/allocation
                    if let Some(l) = other {
                        proof = enc(ti, &l);
                        if let Some(o) = own {
                            stage = fmt_opt(&o.0);
                            alloc = fmt_opt(&o.2);
                        }
                    }
                }
                4 => {
                    // right proof, inflated allocation
                    if let Some(l) = own {
                        stage = fmt_opt(&l.0);
                        alloc = (l.2.unwrap_or(1) + 5).to_string();
                        proof = enc(ti, &l);
                    }
                }
                5 => {
                    // proof from another tree of the same whitelist
                    let tj = (ti + 1) % i.stages.len();
                    if let Some(l) = i.stages[tj].leaves.iter().find(|l| l.1 == buyer).cloned() {
                        stage = fmt_opt(&l.0);
                        alloc = fmt_opt(&l.2);
                        proof = enc(tj, &l);
                    }
                }
                6 => proof = "j".into(),
                8 => {
                    // a genuine path out of ANOTHER whitelist's tree (same buyer)
                    if let Some((k2, i2)) = sut.wls.iter().find(|(k2, i2)| **k2 != k && is_merkle(i2.kind) && !i2.stages.is_empty()) {
                        if let Some(l) = i2.stages[0].leaves.iter().find(|l| l.1 == buyer).cloned() {
                            stage = fmt_opt(&l.0);
                            alloc = fmt_opt(&l.2);
                            proof = format!("p.{k2}.0.{}.{}.{}", ox(&l.0), l.1, ox(&l.2));
                        }
                    }
                }
                9 => {
                    // a leaf that was never committed (own address, invented allocation), "proved" with hashes of the right size
                    let l: LeafT = (own.as_ref().and_then(|o| o.0), buyer, Some(own.as_ref().and_then(|o| o.2).unwrap_or(1) + 40));
                    stage = fmt_opt(&l.0);
                    alloc = fmt_opt(&l.2);
                    proof = enc(ti, &l);
                }
                _ => proof = if mode % 20 == 7 { "b".into() } else { "-".into() },
            }
        } else if mode % 4 == 3 {
            proof = "j".into();
            alloc = "7".into();
        }
    }
    format!("mint sender={buyer} funds={funds} stage={stage} alloc={alloc} proof={proof}")
}

fn rel(now: u64, t: u64) -> &'static str {
    if now < t {
        "lt"
    } else if now == t {
        "eq"
    } else {
        "gt"
    }
}

fn classify(ses: &mut Session, sut: &S, line: &str, out: &str) {
    let s = sut.snap();
    let op = line.split_whitespace().next().unwrap_or("?");
    let okk = out.split_whitespace().next().unwrap_or("?");
    let wl = s.wl.and_then(|k| sut.wls.get(&k));
    let wk = wl.map(|i| wl_kind_idx(i.kind) as i64).unwrap_or(-1);
    let act = wl.map(|i| i.active_stage(s.now).map(|x| x as i64 + 1).unwrap_or(0)).unwrap_or(-1);
    let e = s.end.map(|e| rel(s.now, e)).unwrap_or("na");
    let pf = kv(line, "proof").map(|p| &p[..1]).unwrap_or("n");
    if op == "mint" && act > 0 {
        ses.count(&format!("wlmint:v{}:wl{}:{}", sut.vidx, wk, okk));
    }
    ses.mark(format!("v{}:wl{}:{}:{}:start-{}:end-{}:act{}:pf{}", sut.vidx, wk, op, okk, if s.exists { rel(s.now, s.start) } else { "na" }, e, act, pf));
}

fn do_step(ses: &mut Session, sut: &mut S, line: &str) -> String {
    let out = ses.step(sut, line);
    if std::env::var("C04_TRACE").is_ok() {
        eprintln!("TRACE v{} {} => {}", sut.vidx, line, out);
    }
    classify(ses, sut, line, &out);
    out
}

/// battery of probes at the current instant (identity updates do not change the schedule when they succeed)
fn battery(ses: &mut Session, sut: &mut S, g: &mut Gen, heavy: bool) {
    let tm = sut.kind == MinterKind::TokenMerge;
    let snap = sut.snap();
    if !snap.exists {
        return;
    }
    if tm {
        let b = g.buyer(&MEMBERS);
        do_step(ses, sut, &format!("deposit sender={b} rcpt=-"));
        if heavy {
            let b2 = g.buyer(&OUTSIDERS);
            do_step(ses, sut, &format!("deposit sender={b2} rcpt={}", g.buyer(&MEMBERS)));
        }
    } else {
        do_step(ses, sut, "price");
        let cur = current_price(sut);
        // an entitled buyer of the stage in force when there is one (ground truth), else any listed buyer
        let entitled: Vec<u64> = snap
            .wl
            .and_then(|k| sut.wls.get(&k))
            .and_then(|i| i.active_stage(snap.now).map(|si| if is_merkle(i.kind) { i.stages[si].leaves.iter().map(|l| l.1).filter(|a| *a < 9000).collect() } else { i.stages[si].members.iter().map(|m| m.0).collect() }))
            .unwrap_or_default();
        let m = if entitled.is_empty() || g.rng.chance(1, 5) { g.buyer(&MEMBERS) } else { g.buyer(&entitled) };
        let mode = g.rng.below(3);
        let l = mint_line(sut, m, &funds_str(cur), mode);
        do_step(ses, sut, &l);
        let o = g.buyer(&OUTSIDERS);
        let mode = g.rng.below(20);
        let l = mint_line(sut, o, &funds_str(cur), mode);
        do_step(ses, sut, &l);
        if heavy {
            // the other price kind / a wrong amount / adversarial proofs by a member
            let other: Option<(u64, u128)> = {
                let att = snap.wl.and_then(|k| sut.wls.get(&k));
                match (att, cur) {
                    (Some(i), Some(c)) if !i.stages.is_empty() => {
                        let si = i.active_stage(snap.now).unwrap_or(0);
                        let wlp = (i.denom, i.stages[si].price);
                        Some(if c == wlp { snap.price } else { wlp })
                    }
                    (_, Some(c)) => Some((c.0, c.1 + 1)),
                    _ => None,
                }
            };
            let m2 = g.buyer(&MEMBERS);
            let l = mint_line(sut, m2, &funds_str(other), 0);
            do_step(ses, sut, &l);
            // the same buyer again, twice (whitelist / public / stage limits)
            for _ in 0..2 {
                let cur2 = current_price(sut);
                let l = mint_line(sut, m, &funds_str(cur2), 0);
                do_step(ses, sut, &l);
            }
            if sut.kind.is_merkle() {
                let m3 = g.buyer(&MEMBERS);
                let mode = 3 + g.rng.below(17);
                let l = mint_line(sut, m3, &funds_str(cur), mode);
                do_step(ses, sut, &l);
            }
        }
    }
    // airdrop by the admin (and rarely by a stranger)
    let who = if g.rng.chance(1, 8) { 20 } else { ADMIN };
    let r = g.buyer(&OUTSIDERS);
    let af = if sut.airp == 0 || g.rng.chance(1, 10) { "-".to_string() } else { format!("{}:{}", sut.denom, sut.airp) };
    do_step(ses, sut, &format!("mint_to sender={who} rcpt={r} funds={af}"));
    // identity updates: probe the gates without moving the schedule
    let who = if g.rng.chance(1, 10) { 21 } else { ADMIN };
    do_step(ses, sut, &format!("upd_start sender={who} t={}", snap.start));
    if let Some(e) = snap.end {
        do_step(ses, sut, &format!("upd_end sender={who} t={e}"));
    } else if heavy && !tm {
        do_step(ses, sut, &format!("upd_end sender={ADMIN} t={}", snap.now + 10));
    }
    if let Some(k) = snap.wl {
        do_step(ses, sut, &format!("set_wl sender={who} wl={k}"));
    }
}

fn interesting_instants(sut: &S) -> Vec<u64> {
    let s = sut.snap();
    let mut v = vec![];
    if s.exists {
        v.push(s.start);
        if let Some(e) = s.end {
            v.push(e);
        }
    }
    for i in sut.wls.values() {
        for st in &i.stages {
            v.push(st.start);
            v.push(st.end);
        }
    }
    v.sort();
    v.dedup();
    v
}

fn header(v: usize, now: u64, denom: u64, minp: u128, airp: u128, maxtok: u64) -> String {
    format!("case v={v} now={now} denom={denom} minp={minp} airp={airp} maxtok={maxtok}")
}

/// sweep: one minter × one whitelist kind × one window shape; the clock visits t-1, t, t+1 of every instant in order
fn sweep_case(ses: &mut Session, sut: &mut S, g: &mut Gen, v: usize, wk: WlKind, shape: u64, heavy: bool) {
    let kind = variant_kind(v);
    let t0 = GENESIS + 1_000_000 + g.rng.below(1000) * 7;
    let s = t0 + 2000;
    let denom = if g.rng.chance(1, 6) { 1 } else { 0 };
    let minp: u128 = 50_000_000;
    // an uncapped open edition needs an end time and a non-zero airdrop price
    let uncapped = kind.is_open_edition() && shape % 5 != 4 && g.rng.chance(1, 3);
    let airp: u128 = if uncapped || g.rng.chance(1, 4) { 7_000_000 } else { 0 };
    ses.begin_case(sut, &format!("{} sweep wk={} shape={}", header(v, t0, denom, minp, airp, 60), wl_kind_idx(wk), shape));
    let wins = windows(shape, s);
    let wl_denom = if g.rng.chance(1, 12) { 1 - denom } else { denom };
    let l1 = wl_line(1, wk, wl_denom, &wins, 60_000_000, &mut g.rng);
    do_step(ses, sut, &l1);
    // a second whitelist of the same kind, shifted by 37 ns, for swap probes
    let wins2: Vec<(u64, u64)> = windows(shape + 1, s).iter().map(|(a, b)| (a + 37, b + 37)).collect();
    let l2 = wl_line(2, wk, denom, &wins2, 61_000_000, &mut g.rng);
    do_step(ses, sut, &l2);
    let oe = kind.is_open_edition();
    let end = if oe && shape % 5 != 4 { format!("{}", s + 700 + (shape % 3) * 100) } else { "-".into() };
    let ntok = if uncapped { "-".to_string() } else { "60".to_string() };
    let attach_at_create = g.rng.chance(2, 3) && kind != MinterKind::TokenMerge;
    let price = if kind == MinterKind::TokenMerge { 0 } else { 100_000_000u128 + g.rng.below(5) as u128 };
    let limit = 1 + g.rng.below(3);
    let c = format!("create sender={ADMIN} start={s} end={end} wl={} price={price} limit={limit} ntok={ntok}", if attach_at_create { "1" } else { "-" });
    let out = do_step(ses, sut, &c);
    if !out.starts_with("ok") {
        // e.g. whitelist kind the minter cannot read: create without it so that the schedule is still swept
        let c = format!("create sender={ADMIN} start={s} end={end} wl=- price={price} limit={limit} ntok={ntok}");
        do_step(ses, sut, &c);
    }
    if !attach_at_create && kind != MinterKind::TokenMerge {
        do_step(ses, sut, &format!("set_wl sender={ADMIN} wl=1"));
    }
    // the sweep
    let mut points: Vec<u64> = vec![];
    for t in interesting_instants(sut) {
        points.extend([t - 1, t, t + 1]);
    }
    points.sort();
    points.dedup();
    let mut discount_done = false;
    for p in points {
        if p < sut.w.time() {
            continue;
        }
        do_step(ses, sut, &format!("t now={p}"));
        // vending family: once the sale has started a discount may be set — also while a whitelist is still active;
        // the whitelist price must keep applying to whitelist mints
        if kind.is_vending() && !discount_done && p >= s && g.rng.chance(1, 2) {
            discount_done = true;
            let d = *g.rng.pick(&[55_000_000u128, 80_000_000, 60_000_000]);
            do_step(ses, sut, &format!("menv what=discount arg={d} sender={ADMIN}"));
        }
        battery(ses, sut, g, heavy);
        // swap probes: to the other whitelist and back (both succeed only while everything is inactive and not started)
        if g.rng.chance(1, 3) && kind != MinterKind::TokenMerge {
            let cur = sut.snap().wl;
            let target = if cur == Some(1) { 2 } else { 1 };
            do_step(ses, sut, &format!("set_wl sender={ADMIN} wl={target}"));
            if let Some(back) = cur {
                do_step(ses, sut, &format!("set_wl sender={ADMIN} wl={back}"));
            }
        }
        // the rest of the message surface must leave the schedule alone
        if g.rng.chance(1, 4) {
            let (what, arg): (&str, u128) = match g.rng.below(6) {
                0 => ("upd_price", 99_000_000),
                1 => ("upd_limit", 1 + g.rng.below(3) as u128),
                2 => ("status", g.rng.below(8) as u128),
                3 => ("discount", 80_000_000),
                4 => ("rm_discount", 0),
                _ => ("trading", (p + 100) as u128),
            };
            do_step(ses, sut, &format!("menv what={what} arg={arg} sender={ADMIN}"));
        }
    }
    // everything is over: purge (anyone may), shuffle, burn the rest — still no schedule change
    for what in ["purge", "shuffle", "burn", "purge"] {
        do_step(ses, sut, &format!("menv what={what} arg=0 sender={}", if what == "purge" { 25 } else { ADMIN }));
    }
    battery(ses, sut, g, false);
    ses.end_case();
}

/// random walk: real schedule changes, whitelist edits and swaps (also to kinds the minter cannot read)
fn random_case(ses: &mut Session, sut: &mut S, g: &mut Gen, v: usize, steps: u64) {
    let kind = variant_kind(v);
    let tm = kind == MinterKind::TokenMerge;
    let t0 = GENESIS + if g.rng.chance(1, 10) { 0 } else { 5_000_000 + g.rng.below(100_000) };
    let denom = if g.rng.chance(1, 5) { 1 } else { 0 };
    let minp: u128 = *g.rng.pick(&[0u128, 50_000_000, 60_000_500]);
    let airp: u128 = *g.rng.pick(&[0u128, 0, 3_000_000]);
    ses.begin_case(sut, &format!("{} random", header(v, t0, denom, minp, airp, 40)));
    let s = t0 + 500 + g.rng.below(1500);
    // a pool of whitelists of several kinds
    let compatible: Vec<WlKind> = if kind.is_flex() {
        vec![WlKind::Flex, WlKind::TieredFlex]
    } else if kind.is_merkle() {
        vec![WlKind::Merkle, WlKind::TieredMerkle, WlKind::Plain, WlKind::Tiered]
    } else {
        vec![WlKind::Plain, WlKind::Tiered]
    };
    let nwl = if tm { 0 } else { 2 + g.rng.below(3) };
    for k in 1..=nwl {
        let wk = if g.rng.chance(3, 4) { *g.rng.pick(&compatible) } else { *g.rng.pick(&ALL_WL) };
        let shape = g.rng.below(8);
        let shift = g.rng.below(40);
        let wins: Vec<(u64, u64)> = windows(shape, s).iter().map(|(a, b)| (a + shift, b + shift)).collect();
        let wd = if g.rng.chance(1, 10) { 1 - denom } else { denom };
        let bp = *g.rng.pick(&[60_000_000u128, 50_000_000, 49_999_999, 0, 120_000_000]);
        let l = wl_line(k, wk, wd, &wins, bp, &mut g.rng);
        do_step(ses, sut, &l);
    }
    let oe = kind.is_open_edition();
    // creation itself probes the instantiate-time checks: start at now-1 / now / now+1 / genesis-ish, active whitelist
    for attempt in 0..4 {
        let start = match if attempt < 2 { g.rng.below(8) } else { 7 } {
            0 => t0 - 1,
            1 => t0,
            2 => t0 + 1,
            3 => GENESIS - 1,
            4 => GENESIS,
            _ => s,
        };
        let end = if oe {
            match g.rng.below(6) {
                0 => "-".to_string(),
                1 => start.to_string(),
                2 => (start + 1).to_string(),
                3 => (start.saturating_sub(1)).to_string(),
                _ => (start + 300 + g.rng.below(1500)).to_string(),
            }
        } else {
            "-".into()
        };
        let ntok = if oe && g.rng.chance(1, 3) { "-".to_string() } else { (3 + g.rng.below(40)).to_string() };
        let wl = if nwl > 0 && g.rng.chance(2, 3) { (1 + g.rng.below(nwl)).to_string() } else { "-".into() };
        let price: u128 = if tm { 0 } else { *g.rng.pick(&[100_000_000u128, 60_000_500, 50_000_000, 49_999_999, 0]) };
        let limit = 1 + g.rng.below(3);
        let line = if attempt == 3 {
            // last resort: a plainly valid creation so that the walk has a minter
            format!("create sender={ADMIN} start={s} end={} wl=- price={} limit={limit} ntok=20", if oe { (s + 900).to_string() } else { "-".into() }, if tm { 0 } else { 100_000_000u128 })
        } else {
            format!("create sender={ADMIN} start={start} end={end} wl={wl} price={price} limit={limit} ntok={ntok}")
        };
        let out = do_step(ses, sut, &line);
        if out.starts_with("ok") {
            break;
        }
    }
    for _ in 0..steps {
        let snap = sut.snap();
        let now = snap.now;
        let inst = interesting_instants(sut);
        match g.rng.below(14) {
            0 | 1 | 2 => {
                // clock: next boundary-ish instant, or a jump
                let mut cands: Vec<u64> = inst.iter().flat_map(|t| [t.saturating_sub(1), *t, t + 1]).filter(|t| *t > now).collect();
                cands.sort();
                let t = if !cands.is_empty() && g.rng.chance(3, 4) { cands[(g.rng.below(3) as usize).min(cands.len() - 1)] } else { now + 1 + g.rng.below(400) };
                do_step(ses, sut, &format!("t now={t}"));
            }
            3 | 4 => {
                let heavy = g.rng.chance(1, 2);
                battery(ses, sut, g, heavy)
            }
            5 => {
                // real start update around every boundary
                let mut c: Vec<u64> = vec![now.saturating_sub(1), now, now + 1, GENESIS - 1, GENESIS, snap.start + 1, snap.start.saturating_sub(1)];
                if let Some(e) = snap.end {
                    c.extend([e - 1, e, e + 1]);
                }
                for t in &inst {
                    c.extend([t.saturating_sub(1), *t, t + 1]);
                }
                let t = *g.rng.pick(&c);
                let who = if g.rng.chance(1, 12) { 22 } else { ADMIN };
                do_step(ses, sut, &format!("upd_start sender={who} t={t}"));
            }
            6 => {
                let mut c: Vec<u64> = vec![now.saturating_sub(1), now, now + 1, snap.start.saturating_sub(1), snap.start, snap.start + 1, now + 500];
                if let Some(e) = snap.end {
                    c.extend([e - 1, e, e + 1]);
                }
                let t = *g.rng.pick(&c);
                let who = if g.rng.chance(1, 12) { 22 } else { ADMIN };
                do_step(ses, sut, &format!("upd_end sender={who} t={t}"));
            }
            7 | 8 => {
                if nwl > 0 {
                    let k = if g.rng.chance(1, 15) { 77 } else { 1 + g.rng.below(nwl) };
                    let who = if g.rng.chance(1, 12) { 23 } else { ADMIN };
                    do_step(ses, sut, &format!("set_wl sender={who} wl={k}"));
                }
            }
            9 | 10 => {
                // whitelist admin edits (environment for this property)
                if nwl > 0 {
                    let k = 1 + g.rng.below(nwl);
                    if let Some(info) = sut.wls.get(&k).cloned() {
                        if info.stages.is_empty() {
                            continue;
                        }
                        let si = g.rng.below(info.stages.len() as u64);
                        let st = &info.stages[si as usize];
                        let near = [now.saturating_sub(1), now, now + 1, now + 50, st.start + 1, st.end.saturating_sub(1), st.end + 1, snap.start, snap.start + 1];
                        match g.rng.below(4) {
                            0 | 1 => {
                                if is_tiered(info.kind) {
                                    let a = *g.rng.pick(&near);
                                    let b = a + 1 + g.rng.below(300);
                                    do_step(ses, sut, &format!("wl_stage k={k} stage={si} start={a} end={b}"));
                                } else {
                                    let which = if g.rng.chance(1, 2) { "start" } else { "end" };
                                    do_step(ses, sut, &format!("wl_time k={k} which={which} t={}", g.rng.pick(&near)));
                                }
                            }
                            2 => {
                                let a = if g.rng.chance(1, 2) { *g.rng.pick(&OUTSIDERS) } else { *g.rng.pick(&MEMBERS) };
                                do_step(ses, sut, &format!("wl_add k={k} stage={si} a={a} c={}", 1 + g.rng.below(3)));
                            }
                            _ => {
                                let a = *g.rng.pick(&MEMBERS);
                                do_step(ses, sut, &format!("wl_rm k={k} stage={si} a={a}"));
                            }
                        }
                    }
                }
            }
            11 => {
                // any other minter message (environment for this property; must not move the schedule)
                let (what, arg): (&str, u128) = match g.rng.below(12) {
                    0 | 1 => ("upd_price", *g.rng.pick(&[50_000_000u128, 70_000_000, 100_000_001, 49_999_999, 150_000_000])),
                    2 => ("upd_limit", 1 + g.rng.below(4) as u128),
                    3 => ("purge", 0),
                    4 => ("shuffle", 0),
                    5 => ("trading", (now + g.rng.below(5000)) as u128),
                    6 | 7 => ("discount", *g.rng.pick(&[55_000_000u128, 90_000_000, 50_000_000])),
                    8 => ("rm_discount", 0),
                    9 => ("status", g.rng.below(8) as u128),
                    10 => if g.rng.chance(1, 4) { ("burn", 0) } else { ("upd_limit", 2) },
                    _ => ("upd_price", snap.price.1.saturating_sub(1)),
                };
                let who = if g.rng.chance(1, 10) { 24 } else { ADMIN };
                do_step(ses, sut, &format!("menv what={what} arg={arg} sender={who}"));
            }
            _ => {
                // a burst of mints by one buyer (runs into the per-address limits)
                if !tm {
                    let b = *g.rng.pick(&MEMBERS);
                    for _ in 0..(1 + g.rng.below(3)) {
                        let cur = current_price(sut);
                        let l = mint_line(sut, b, &funds_str(cur), 0);
                        do_step(ses, sut, &l);
                    }
                } else {
                    let b = *g.rng.pick(&MEMBERS);
                    for _ in 0..(1 + g.rng.below(3)) {
                        do_step(ses, sut, &format!("deposit sender={b} rcpt=-"));
                    }
                }
            }
        }
    }
    ses.end_case();
}

/// instantiate-time checks at exact instants: the minter is created at t-1 / t / t+1 of a whitelist edge (with that
/// whitelist attached), or with its start at now-1 / now / now+1 / genesis-1 / genesis / genesis+1
fn create_boundary_case(ses: &mut Session, sut: &mut S, g: &mut Gen, v: usize, wk: WlKind, pos: u64) {
    let kind = variant_kind(v);
    let oe = kind.is_open_edition();
    let tm = kind == MinterKind::TokenMerge;
    let early = pos >= 12; // the clock is before genesis
    let t0 = if early { GENESIS - 50 } else { GENESIS + 1_000_000 + g.rng.below(1000) * 3 };
    ses.begin_case(sut, &format!("{} create-boundary wk={} pos={}", header(v, t0, 0, 50_000_000, if oe { 5_000_000 } else { 0 }, 60), wl_kind_idx(wk), pos));
    let base = t0.max(GENESIS) + 1000;
    let wins = vec![(base, base + 200), (base + 200, base + 300)];
    if !tm {
        let l = wl_line(1, wk, 0, &wins, 60_000_000, &mut g.rng);
        do_step(ses, sut, &l);
    }
    let price = if tm { 0 } else { 100_000_000u128 };
    let wl = if tm { "-" } else { "1" };
    let edges = interesting_instants(sut);
    if pos < 12 && !edges.is_empty() {
        // at a whitelist edge
        let e = edges[(pos / 3) as usize % edges.len()];
        let now = e - 1 + pos % 3;
        do_step(ses, sut, &format!("t now={now}"));
        let start = now + 5000;
        let end = if oe { (start + 100).to_string() } else { "-".into() };
        do_step(ses, sut, &format!("create sender={ADMIN} start={start} end={end} wl={wl} price={price} limit=2 ntok=20"));
    } else {
        let now = sut.w.time();
        let start = match pos % 6 {
            0 => now - 1,
            1 => now,
            2 => now + 1,
            3 => GENESIS - 1,
            4 => GENESIS,
            _ => GENESIS + 1,
        };
        let end = if oe {
            match g.rng.below(4) {
                0 => start.to_string(),
                1 => (start + 1).to_string(),
                2 => (start - 1).to_string(),
                _ => (start + 500).to_string(),
            }
        } else {
            "-".into()
        };
        do_step(ses, sut, &format!("create sender={ADMIN} start={start} end={end} wl=- price={price} limit=2 ntok=20"));
    }
    // if it exists, probe the genesis bound of the start update from before genesis
    if sut.minter.is_some() {
        for t in [GENESIS - 1, GENESIS, GENESIS + 1] {
            if t >= sut.w.time() {
                do_step(ses, sut, &format!("upd_start sender={ADMIN} t={t}"));
            }
        }
        battery(ses, sut, g, false);
        if early {
            // walk across genesis
            for t in [GENESIS - 1, GENESIS, GENESIS + 1] {
                do_step(ses, sut, &format!("t now={t}"));
                battery(ses, sut, g, false);
            }
        }
    }
    ses.end_case();
}

fn main() {
    let mut ses = Session::new("C04");
    let mut sut = S::new();
    if ses.maybe_replay(&mut sut) {
        ses.finish(&mut sut);
    }
    let mut g = Gen { rng: ses.rng.fork(), rot: 0 };

    // 1. sweeps: every minter × every whitelist kind (incl. the ones it cannot read), window shapes rotating
    let rounds = ses.scale(3, 40);
    let mut shape = g.rng.below(8);
    for round in 0..rounds {
        for v in 0..9usize {
            for wk in ALL_WL {
                shape += 1;
                sweep_case(&mut ses, &mut sut, &mut g, v, wk, shape, round % 2 == 0);
                ses.count(&format!("sweep:v{v}:wl{}", wl_kind_idx(wk)));
            }
        }
        // token-merge: no whitelist; two sweeps per round
        for _ in 0..2 {
            shape += 1;
            sweep_case(&mut ses, &mut sut, &mut g, 9, WlKind::Plain, shape, true);
        }
    }
    // 1b. creation / genesis boundaries
    let reps = ses.scale(1, 6);
    for _ in 0..reps {
        for v in 0..10usize {
            let kinds: Vec<WlKind> = if v == 9 {
                vec![WlKind::Plain]
            } else if variant_kind(v).is_flex() {
                vec![WlKind::Flex, WlKind::TieredFlex]
            } else if variant_kind(v).is_merkle() {
                vec![WlKind::Merkle, WlKind::TieredMerkle]
            } else {
                vec![WlKind::Plain, WlKind::Tiered]
            };
            for wk in kinds {
                for pos in 0..18u64 {
                    create_boundary_case(&mut ses, &mut sut, &mut g, v, wk, pos);
                }
            }
        }
    }
    // 2. random walks with real schedule changes
    let n_random = ses.scale(600, 20000);
    for i in 0..n_random {
        let v = (i % 10) as usize;
        let steps = 25 + g.rng.below(30);
        random_case(&mut ses, &mut sut, &mut g, v, steps);
        ses.count(&format!("random:v{v}"));
    }
    ses.note("clock: every instant of {mint start, mint end, each whitelist stage start/end} is visited at t-1 ns, t, t+1 ns in the sweep cases (identity updates probe the update gates without moving the schedule); random cases move the schedule for real, with new values drawn from {now, start, end, stage edges, genesis} ± 1 ns");
    ses.note("pairings: all 9 whitelist-capable minters × all 7 whitelist kinds (incompatible kinds must fail to attach / never let a whitelist mint through), token-merge separately");
    ses.note("Merkle: real SHA-256 (whitelist-merkletree) and BLAKE3/16 (tiered) trees built by the harness; proofs by the right sender, by another sender, for another tree, with inflated allocation, junk and malformed hashes");
    // full class list next to the report (the report itself only samples 40)
    let _ = std::fs::create_dir_all(&ses.args.out);
    let _ = std::fs::write(ses.args.out.join("classes.txt"), ses.classes.iter().cloned().collect::<Vec<_>>().join("\n"));
    ses.finish(&mut sut);
}
