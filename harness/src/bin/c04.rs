//! C04 — mints happen only inside the sale window and only for entitled buyers.
//!
//! Correspondence: the REAL minters (6 vending variants, 3 open-edition variants, token-merge; created through
//! their factories) attached to REAL whitelists of all 7 kinds, against `LP.SaleWindow` (Lean). The point of this
//! harness is the BOUNDARY CLOCK: every comparison in `execute_mint_sender`, `execute_mint_to`,
//! `execute_update_start_time`, `execute_update_end_time`, `execute_set_whitelist`, `instantiate`, whitelist
//! `is_active` and `fetch_active_stage` is visited at t-1 ns, t, t+1 ns for t in {start, end, whitelist start/end,
//! every stage edge}, with members, non-members, Merkle proofs by the right and the wrong sender, identity and
//! real schedule updates and whitelist swaps.
//!
//! Monitors (independent of the Lean model; they use the harness's own ground truth = what it put into the
//! whitelists + the times the contracts report): public mint before start; open-edition mint/airdrop at or after
//! end; non-entitled buyer minted during an active whitelist / was charged another price than the whitelist's;
//! public price not charged when inactive; start changed after it had passed or moved into the past; end changed
//! after it had passed / before start; whitelist attached after start or while the old/new one is active.
//!
//! Round 3 (review docs/reviews/round3-C04-C07-C19.md):
//! * GHOST bookkeeping: the harness keeps its own record of the schedule (start / end / attached whitelist / admin = what it
//!   asked for in every ACCEPTED create / update_start / update_end / set_wl), of the member lists and Merkle leaves it put
//!   into every whitelist, and of the prices it created things with. All gate monitors are evaluated on that record, never on
//!   the minter's own `Config` answer; after EVERY message (also failed ones, `migrate`, governance, unknown variants) the
//!   stored schedule is compared with the record (`*-not-stored`, `*-changed-by-other-message`).
//! * which stage of a TIERED whitelist is in force is taken from the whitelist's own `ActiveStageId` answer (C13 owns the
//!   interval semantics); single-stage kinds keep the property's `start <= now < end`, and the whitelist's `is_active` answer
//!   is checked against it (`…/is_active/differs-from-start-le-now-lt-end`).
//! * Merkle entitlement looks at the proof that was SENT: only the sibling path the harness generated for the claimed leaf
//!   (sender's own address) in the tree in force counts.
//! * mint funds come from the ghost record (created price / whitelist stage price), not from the `MintPrice` query.
//! * floor cases (`floor_case`, `seq_case`, `attach_case`, `hyp_case`): deterministic boundary triples with FRESH buyers and a
//!   supply of 400, `ses.require` of every decisive class (ok at boundary, err one ns off, per variant).
//! * message surface enumerated at RUN TIME from `schema_for!(ExecuteMsg)` / `sg4::SudoMsg`; unknown variants are sent as raw
//!   JSON under the monitors (`menv what=x.<variant>`); `migrate` (with a rewritten cw2 version), `MintFor`, factory `sudo
//!   UpdateParams` are ops now.
//! * output lines are `primary ## drift`: schedule + ok/err are primary; supply, counters and the `MintPrice` answer are drift.
use lp_harness::minters::*;
use lp_harness::world::{addr, denom_id};
use lp_harness::*;
use serde_json::{json, Value};
use std::collections::{BTreeMap, BTreeSet};

const ADMIN: u64 = 10;
const WLADMIN: u64 = 11;
const PAYEE: u64 = 12;
const SRC_CREATOR: u64 = 13;
/// a member whose address sorts after 120 filler members (beyond every pagination limit of the whitelists)
const BIG: u64 = 3000;
const FILLER0: u64 = 2000;
const NFILL: u64 = 120;

/// `world::addr_id` re-reads a source file on every call: parse the common shapes locally first
fn addr_id(s: &str) -> u64 {
    if let Some(k) = s.strip_prefix("acct") {
        if let Ok(k) = k.parse::<u64>() {
            return k;
        }
    }
    if let Some(k) = s.strip_prefix("contract") {
        if let Ok(k) = k.parse::<u64>() {
            return 1000 + k;
        }
    }
    lp_harness::world::addr_id(s)
}

// ------------------------------------------------------------------------------------------------ run-time message surface

/// variants this check has an op for (named ops or `menv what=…`)
const KNOWN_EXEC: [&str; 15] = [
    "mint", "purge", "update_mint_price", "update_start_time", "update_end_time", "update_start_trading_time", "update_per_address_limit",
    "mint_to", "mint_for", "set_whitelist", "shuffle", "burn_remaining", "update_discount_price", "remove_discount_price", "receive_nft",
];
const KNOWN_SUDO: [&str; 1] = ["update_status"];

fn exec_schema(kind: MinterKind) -> Value {
    use cosmwasm_schema::schema_for;
    let r = match kind {
        MinterKind::Vending => schema_for!(vending_minter::msg::ExecuteMsg),
        MinterKind::VendingFeatured => schema_for!(vending_minter_featured::msg::ExecuteMsg),
        MinterKind::VendingFlex => schema_for!(vending_minter_wl_flex::msg::ExecuteMsg),
        MinterKind::VendingFlexFeatured => schema_for!(vending_minter_wl_flex_featured::msg::ExecuteMsg),
        MinterKind::VendingMerkle => schema_for!(vending_minter_merkle_wl::msg::ExecuteMsg),
        MinterKind::VendingMerkleFeatured => schema_for!(vending_minter_merkle_wl_featured::msg::ExecuteMsg),
        MinterKind::OpenEdition => schema_for!(open_edition_minter::msg::ExecuteMsg),
        MinterKind::OpenEditionFlex => schema_for!(open_edition_minter_wl_flex::msg::ExecuteMsg),
        MinterKind::OpenEditionMerkle => schema_for!(open_edition_minter_merkle_wl::msg::ExecuteMsg),
        MinterKind::TokenMerge => schema_for!(token_merge_minter::msg::ExecuteMsg),
        MinterKind::Base => schema_for!(base_minter::msg::ExecuteMsg),
    };
    serde_json::to_value(&r).expect("schema to json")
}
fn sudo_schema() -> Value {
    serde_json::to_value(&cosmwasm_schema::schema_for!(sg4::SudoMsg)).expect("schema to json")
}
/// (variant name, schema of its payload; Null for a unit variant written as a bare string)
fn schema_variants(root: &Value) -> Vec<(String, Value)> {
    let mut out = vec![];
    let mut alts: Vec<Value> = vec![];
    for k in ["oneOf", "anyOf"] {
        if let Some(a) = root[k].as_array() {
            alts.extend(a.iter().cloned());
        }
    }
    if alts.is_empty() {
        alts.push(root.clone());
    }
    for alt in alts {
        if let Some(names) = alt["enum"].as_array() {
            for n in names {
                if let Some(n) = n.as_str() {
                    out.push((n.to_string(), Value::Null));
                }
            }
            continue;
        }
        if let Some(props) = alt["properties"].as_object() {
            for (k, v) in props {
                out.push((k.clone(), v.clone()));
            }
        }
    }
    out
}
/// a minimal JSON value accepted by `node` (all required fields, nothing optional)
fn minimal_value(node: &Value, defs: &Value, now: u64, depth: u32) -> Value {
    if depth > 8 || node.is_null() {
        return Value::Null;
    }
    if let Some(r) = node["$ref"].as_str() {
        let name = r.rsplit('/').next().unwrap_or("");
        return match name {
            "Timestamp" | "Uint64" => json!((now + 77).to_string()),
            "Uint128" | "Uint256" => json!("1"),
            "Decimal" => json!("0.1"),
            "Addr" => json!(addr(22)),
            "Binary" => json!(""),
            _ => minimal_value(&defs[name], defs, now, depth + 1),
        };
    }
    for key in ["allOf", "oneOf"] {
        if let Some(a) = node[key].as_array() {
            if let Some(f) = a.first() {
                return minimal_value(f, defs, now, depth + 1);
            }
        }
    }
    if let Some(a) = node["anyOf"].as_array() {
        if a.iter().any(|x| x["type"] == "null") {
            return Value::Null;
        }
        if let Some(f) = a.first() {
            return minimal_value(f, defs, now, depth + 1);
        }
    }
    if let Some(e) = node["enum"].as_array() {
        return e.first().cloned().unwrap_or(Value::Null);
    }
    let ty = match &node["type"] {
        Value::String(t) => t.clone(),
        Value::Array(ts) => {
            if ts.iter().any(|t| t == "null") {
                return Value::Null;
            }
            ts.first().and_then(|t| t.as_str()).unwrap_or("object").to_string()
        }
        _ => "object".to_string(),
    };
    match ty.as_str() {
        "integer" | "number" => json!(1),
        "string" => json!(addr(22)),
        "boolean" => json!(false),
        "array" => json!([]),
        "null" => Value::Null,
        _ => {
            let mut o = serde_json::Map::new();
            for r in node["required"].as_array().cloned().unwrap_or_default() {
                if let Some(k) = r.as_str() {
                    o.insert(k.to_string(), minimal_value(&node["properties"][k], defs, now, depth + 1));
                }
            }
            Value::Object(o)
        }
    }
}
/// raw JSON for variant `name` of the enum described by `root` (None when the schema has no such variant)
fn raw_variant(root: &Value, name: &str, now: u64) -> Option<Value> {
    let defs = if root["definitions"].is_object() { root["definitions"].clone() } else { root["$defs"].clone() };
    let (_, payload) = schema_variants(root).into_iter().find(|(n, _)| n == name)?;
    if payload.is_null() {
        return Some(Value::String(name.to_string()));
    }
    let mut o = serde_json::Map::new();
    o.insert(name.to_string(), minimal_value(&payload, &defs, now, 0));
    Some(Value::Object(o))
}
fn unknown_exec(kind: MinterKind) -> Vec<String> {
    schema_variants(&exec_schema(kind)).into_iter().map(|(n, _)| n).filter(|n| !KNOWN_EXEC.contains(&n.as_str())).collect()
}
fn unknown_sudo() -> Vec<String> {
    schema_variants(&sudo_schema()).into_iter().map(|(n, _)| n).filter(|n| !KNOWN_SUDO.contains(&n.as_str())).collect()
}

type LeafT = (Option<u64>, u64, Option<u64>);

// ------------------------------------------------------------------------------------------------ merkle trees

fn hash(tiered: bool, data: &[u8]) -> Vec<u8> {
    if tiered {
        blake3::hash(data).as_bytes()[..16].to_vec()
    } else {
        use sha2::Digest;
        sha2::Sha256::digest(data).to_vec()
    }
}
fn leaf_string(l: &LeafT) -> String {
    format!("{}{}{}", l.0.map(|s| s.to_string()).unwrap_or_default(), addr(l.1), l.2.map(|s| s.to_string()).unwrap_or_default())
}
#[derive(Clone, Debug, Default)]
struct Tree {
    layers: Vec<Vec<Vec<u8>>>,
}
impl Tree {
    fn build(tiered: bool, leaves: &[LeafT]) -> Tree {
        let mut layers = vec![leaves.iter().map(|l| hash(tiered, leaf_string(l).as_bytes())).collect::<Vec<_>>()];
        while layers.last().unwrap().len() > 1 {
            let cur = layers.last().unwrap();
            let mut next = vec![];
            for ch in cur.chunks(2) {
                if ch.len() == 2 {
                    let mut pair = [ch[0].clone(), ch[1].clone()];
                    pair.sort();
                    next.push(hash(tiered, &pair.concat()));
                } else {
                    next.push(ch[0].clone());
                }
            }
            layers.push(next);
        }
        Tree { layers }
    }
    fn root_hex(&self, tiered: bool) -> String {
        match self.layers.last().and_then(|l| l.first()) {
            Some(r) => hex::encode(r),
            None => hex::encode(hash(tiered, b"empty-tree")),
        }
    }
    fn proof(&self, mut idx: usize) -> Vec<String> {
        let mut out = vec![];
        for layer in &self.layers[..self.layers.len().saturating_sub(1)] {
            let sib = idx ^ 1;
            if sib < layer.len() {
                out.push(hex::encode(&layer[sib]));
            }
            idx /= 2;
        }
        out
    }
}

// ------------------------------------------------------------------------------------------------ whitelist bookkeeping

#[derive(Clone, Debug, Default)]
struct StageInfo {
    start: u64,
    end: u64,
    price: u128,
    per_addr: u64,
    cnt_limit: Option<u64>,
    /// list kinds: what the whitelist REPORTS (all pages); handed to the model as environment
    members: Vec<(u64, u64)>,
    /// Merkle kinds: the leaves the harness committed under this stage's root (its own ground truth)
    leaves: Vec<LeafT>,
    /// GHOST: the price the harness created this stage with (no op of this harness changes a whitelist price)
    price0: u128,
    /// GHOST: the addresses the harness itself put on / took off this stage's list (accepted messages only)
    gmembers: BTreeSet<u64>,
}
#[derive(Clone, Debug)]
struct WlInfo {
    addr: String,
    kind: WlKind,
    denom: u64,
    /// GHOST: the denom the harness created it with
    denom0: u64,
    stages: Vec<StageInfo>,
    trees: Vec<Tree>,
}
fn wl_kind_idx(k: WlKind) -> usize {
    ALL_WL.iter().position(|x| *x == k).unwrap()
}
fn is_tiered(k: WlKind) -> bool {
    matches!(k, WlKind::Tiered | WlKind::TieredFlex | WlKind::TieredMerkle)
}
fn is_merkle(k: WlKind) -> bool {
    matches!(k, WlKind::Merkle | WlKind::TieredMerkle)
}
fn is_flex(k: WlKind) -> bool {
    matches!(k, WlKind::Flex | WlKind::TieredFlex)
}
fn ox<T: std::fmt::Display>(x: &Option<T>) -> String {
    match x {
        Some(v) => v.to_string(),
        None => "x".into(),
    }
}
fn parse_ox(s: &str) -> Option<u64> {
    if s == "x" || s == "-" {
        None
    } else {
        s.parse().ok()
    }
}
impl WlInfo {
    /// single-stage kinds only: the property's own notion of "active" (`start <= now < end`). Which stage of a TIERED
    /// whitelist is in force is asked from the whitelist itself (`S::active_of`): the property text does not fix the
    /// interval ends nor which of two touching stages wins — property C13 owns that.
    fn spec_active(&self, now: u64) -> Option<usize> {
        if self.kind == WlKind::Immutable || is_tiered(self.kind) {
            return None;
        }
        self.stages.first().and_then(|s| if s.start <= now && now < s.end { Some(0) } else { None })
    }
    fn describe(&self, k: u64) -> String {
        let st: Vec<String> = self.stages.iter().map(|s| format!("{}:{}:{}:{}:{}", s.start, s.end, s.price, s.per_addr, ox(&s.cnt_limit))).collect();
        let mem: Vec<String> = self.stages.iter().map(|s| fmt_pairs(&s.members)).collect();
        let lv: Vec<String> = self
            .stages
            .iter()
            .map(|s| if s.leaves.is_empty() { "-".to_string() } else { s.leaves.iter().map(|l| format!("{}:{}:{}", ox(&l.0), l.1, ox(&l.2))).collect::<Vec<_>>().join(",") })
            .collect();
        let j = |v: Vec<String>| if v.is_empty() { "-".to_string() } else { v.join(";") };
        format!("wl k={k} kind={} denom={} st={} mem={} lv={}", wl_kind_idx(self.kind), self.denom, j(st), j(mem), j(lv))
    }
}
fn parse_wl_line(line: &str) -> Option<(u64, WlKind, u64, Vec<StageInfo>)> {
    let k = kv_u64(line, "k")?;
    let kind = ALL_WL[kv_u64(line, "kind")? as usize];
    let denom = kv_u64(line, "denom")?;
    let groups = |key: &str| -> Vec<String> {
        match kv(line, key) {
            None | Some("-") | Some("") => vec![],
            Some(v) => v.split(';').map(String::from).collect(),
        }
    };
    let mut stages = vec![];
    let mems = groups("mem");
    let lvs = groups("lv");
    for (i, g) in groups("st").iter().enumerate() {
        let p: Vec<&str> = g.split(':').collect();
        if p.len() != 5 {
            return None;
        }
        let members: Vec<(u64, u64)> = match mems.get(i).map(|s| s.as_str()) {
            None | Some("-") | Some("") => vec![],
            Some(m) => m.split(',').filter_map(|x| x.split_once(':')).map(|(a, b)| (a.parse().unwrap(), b.parse().unwrap())).collect(),
        };
        let leaves: Vec<LeafT> = match lvs.get(i).map(|s| s.as_str()) {
            None | Some("-") | Some("") => vec![],
            Some(m) => m
                .split(',')
                .map(|x| {
                    let q: Vec<&str> = x.split(':').collect();
                    (parse_ox(q[0]), q[1].parse().unwrap(), parse_ox(q[2]))
                })
                .collect(),
        };
        let price: u128 = p[2].parse().ok()?;
        let gmembers: BTreeSet<u64> = members.iter().map(|m| m.0).collect();
        stages.push(StageInfo { start: p[0].parse().ok()?, end: p[1].parse().ok()?, price, per_addr: p[3].parse().ok()?, cnt_limit: parse_ox(p[4]), members, leaves, price0: price, gmembers });
    }
    Some((k, kind, denom, stages))
}

// ------------------------------------------------------------------------------------------------ the system under test

#[derive(Clone, Debug, Default, PartialEq)]
struct Snap {
    now: u64,
    exists: bool,
    start: u64,
    end: Option<u64>,
    wl: Option<u64>,
    left: Option<u64>,
    price: (u64, u128),
    limit: u64,
    admin: Option<u64>,
}
/// GHOST record of the minter: what the harness asked for in every ACCEPTED message (never read back from the minter)
#[derive(Clone, Debug, Default, PartialEq)]
struct Ghost {
    admin: u64,
    start: u64,
    end: Option<u64>,
    wl: Option<u64>,
    denom: u64,
    pub_price: u128,
    ntok: Option<u64>,
    /// a price-changing message (`UpdateMintPrice`, discounts, unknown variants, migrate) was accepted: the public price is
    /// C07's business from here on and the minter's own answer is used for it
    price_touched: bool,
}
#[derive(Clone, Debug)]
struct MonRec {
    line: String,
    op: String,
    ok: bool,
    pre: Snap,
    post: Snap,
    g0: Option<Ghost>,
    g1: Option<Ghost>,
    /// stage in force of the whitelist attached BEFORE the op (by the ghost record), at the op's instant
    act: Option<usize>,
    /// set_wl / create: stage in force of the whitelist that was asked for
    act_new: Option<usize>,
    /// a single-stage whitelist whose own `is_active` answer differs from `start <= now < end`: (kind name, detail)
    wl_incons: Option<(String, String)>,
    sender: u64,
    leaf: LeafT,
    proof: String,
    charged: [i128; 2],
    new_t: u64,
}

struct S {
    w: World,
    vidx: usize,
    kind: MinterKind,
    denom: u64,
    airp: u128,
    factory: String,
    minter: Option<String>,
    coll: Option<String>,
    ghost: Option<Ghost>,
    minp0: u128,
    src_minter: String,
    src_coll: String,
    src_next: u64,
    src_owned: BTreeMap<u64, Vec<u64>>,
    wls: BTreeMap<u64, WlInfo>,
    last: Option<MonRec>,
    exec_schema: Value,
    sudo_schema: Value,
}

fn variant_kind(i: usize) -> MinterKind {
    [
        MinterKind::Vending,
        MinterKind::VendingFeatured,
        MinterKind::VendingFlex,
        MinterKind::VendingFlexFeatured,
        MinterKind::VendingMerkle,
        MinterKind::VendingMerkleFeatured,
        MinterKind::OpenEdition,
        MinterKind::OpenEditionFlex,
        MinterKind::OpenEditionMerkle,
        MinterKind::TokenMerge,
    ][i]
}
fn nanos(v: &Value) -> Option<u64> {
    v.as_str().and_then(|s| s.parse().ok())
}

impl S {
    fn new() -> S {
        S {
            w: World::new(GENESIS),
            vidx: 0,
            kind: MinterKind::Vending,
            denom: 0,
            airp: 0,
            factory: String::new(),
            minter: None,
            coll: None,
            ghost: None,
            minp0: 0,
            src_minter: String::new(),
            src_coll: String::new(),
            src_next: 0,
            src_owned: BTreeMap::new(),
            wls: BTreeMap::new(),
            last: None,
            exec_schema: Value::Null,
            sudo_schema: sudo_schema(),
        }
    }
    fn wl_key_of(&self, a: &str) -> Option<u64> {
        self.wls.iter().find(|(_, i)| i.addr == a).map(|(k, _)| *k)
    }
    fn snap(&self) -> Snap {
        let mut s = Snap { now: self.w.time(), ..Default::default() };
        let Some(m) = &self.minter else { return s };
        let Ok(c) = self.w.query(m, &json!({"config":{}})) else { return s };
        s.exists = true;
        s.start = nanos(&c["start_time"]).unwrap_or(0);
        s.end = nanos(&c["end_time"]);
        s.wl = c["whitelist"].as_str().map(|a| self.wl_key_of(a).unwrap_or(999_999));
        s.admin = c["admin"].as_str().map(addr_id);
        if let Some(mp) = c.get("mint_price") {
            if let (Some(d), Some(a)) = (mp["denom"].as_str(), mp["amount"].as_str()) {
                s.price = (denom_id(d), a.parse().unwrap_or(0));
            }
        }
        if let Ok(n) = self.w.query(m, &json!({"mintable_num_tokens":{}})) {
            s.left = n["count"].as_u64();
        }
        // the effective public price: a standing discount replaces the configured price (vending family)
        if let Ok(v) = self.w.query(m, &json!({"mint_price":{}})) {
            if let Some(a) = v["discount_price"]["amount"].as_str().and_then(|x| x.parse::<u128>().ok()) {
                s.price.1 = a;
            }
        }
        s.limit = c["per_address_limit"].as_u64().unwrap_or(0);
        s
    }
    /// `st= en= wl=` is what C04 constrains (primary); the supply is C01's (drift)
    fn obs(s: &Snap) -> String {
        if !s.exists {
            return "st=- en=- wl=- ## left=-".into();
        }
        format!("st={} en={} wl={} ## left={}", s.start, fmt_opt(&s.end), fmt_opt(&s.wl), fmt_opt(&s.left))
    }
    fn count_of(&self, a: u64) -> String {
        let Some(m) = &self.minter else { return "cnt=-".into() };
        match self.w.query(m, &json!({"mint_count":{"address": addr(a)}})) {
            Ok(v) => format!("cnt={}", v["count"].as_u64().unwrap_or(0) + v["whitelist_count"].as_u64().unwrap_or(0)),
            Err(_) => "cnt=?".into(),
        }
    }

    /// every page of a whitelist's `Members` query (the page size is the whitelist's business)
    fn all_members(&self, a: &str, stage: Option<usize>) -> Vec<(u64, u64)> {
        let mut out: Vec<(u64, u64)> = vec![];
        let mut after: Option<String> = None;
        for _ in 0..200 {
            let mut q = json!({"limit": 100, "start_after": after});
            if let Some(i) = stage {
                q["stage_id"] = json!(i);
            }
            let Ok(m) = self.w.query(a, &json!({ "members": q })) else { break };
            let Some(arr) = m["members"].as_array() else { break };
            if arr.is_empty() {
                break;
            }
            let mut last = None;
            for x in arr {
                let (s, c) = match x.as_str() {
                    Some(s) => (s.to_string(), 0),
                    None => (x["address"].as_str().unwrap_or("").to_string(), x["mint_count"].as_u64().unwrap_or(0)),
                };
                out.push((addr_id(&s), c));
                last = Some(s);
            }
            if last == after {
                break;
            }
            after = last;
        }
        out
    }

    /// refresh our description of whitelist `k` from what the real contract reports (windows, prices, limits, member lists:
    /// environment for this property). The ghost fields (`price0`, `gmembers`, `leaves`, `denom0`) are NOT touched here.
    fn observe(&mut self, k: u64) {
        let Some(info) = self.wls.get(&k).cloned() else { return };
        let mut info = info;
        let a = info.addr.clone();
        let coin_of = |v: &Value| -> (u64, u128) { (denom_id(v["denom"].as_str().unwrap_or("")), v["amount"].as_str().and_then(|x| x.parse().ok()).unwrap_or(0)) };
        match info.kind {
            WlKind::Immutable => {}
            WlKind::Plain | WlKind::Flex | WlKind::Merkle => {
                let c = self.w.query(&a, &json!({"config":{}})).expect("wl config");
                let (d, p) = coin_of(&c["mint_price"]);
                info.denom = d;
                let members = if info.kind != WlKind::Merkle { self.all_members(&a, None) } else { vec![] };
                let st = &mut info.stages[0];
                st.start = nanos(&c["start_time"]).unwrap();
                st.end = nanos(&c["end_time"]).unwrap();
                st.price = p;
                st.per_addr = c["per_address_limit"].as_u64().unwrap_or(0);
                st.members = members;
            }
            WlKind::Tiered | WlKind::TieredFlex | WlKind::TieredMerkle => {
                let r = self.w.query(&a, &json!({"stages":{}})).expect("stages");
                let arr = r["stages"].as_array().unwrap().clone();
                let old = info.stages.clone();
                info.stages.clear();
                for (i, s) in arr.iter().enumerate() {
                    let sg = &s["stage"];
                    let (d, p) = coin_of(&sg["mint_price"]);
                    info.denom = d;
                    let o = old.get(i);
                    let mut st = StageInfo {
                        start: nanos(&sg["start_time"]).unwrap(),
                        end: nanos(&sg["end_time"]).unwrap(),
                        price: p,
                        per_addr: sg["per_address_limit"].as_u64().unwrap_or(0),
                        cnt_limit: sg["mint_count_limit"].as_u64(),
                        members: vec![],
                        leaves: o.map(|o| o.leaves.clone()).unwrap_or_default(),
                        price0: o.map(|o| o.price0).unwrap_or(p),
                        gmembers: o.map(|o| o.gmembers.clone()).unwrap_or_default(),
                    };
                    if info.kind != WlKind::TieredMerkle {
                        st.members = self.all_members(&a, Some(i));
                    }
                    info.stages.push(st);
                }
            }
        }
        self.wls.insert(k, info);
    }

    fn create_wl(&mut self, line: &str) -> bool {
        let Some((k, kind, denom, stages)) = parse_wl_line(line) else { return false };
        if self.wls.contains_key(&k) {
            return false;
        }
        let tiered = is_tiered(kind);
        let trees: Vec<Tree> = stages.iter().map(|s| Tree::build(tiered, &s.leaves)).collect();
        let args = WlArgs {
            admin: WLADMIN,
            member_limit: kv_u64(line, "ml").unwrap_or(1000) as u32,
            admins_mutable: true,
            whale_cap: None,
            stages: stages
                .iter()
                .zip(trees.iter())
                .map(|(s, t)| WlStage {
                    start: s.start,
                    end: s.end,
                    mint_price: (denom, s.price),
                    per_address_limit: s.per_addr as u32,
                    mint_count_limit: s.cnt_limit.map(|x| x as u32),
                    members: s.members.iter().map(|(a, c)| (*a, *c as u32)).collect(),
                    merkle_root: t.root_hex(tiered),
                })
                .collect(),
        };
        let args = if args.stages.is_empty() {
            WlArgs { stages: vec![WlStage { start: 0, end: 0, mint_price: (0, 0), per_address_limit: 1, mint_count_limit: None, members: vec![(20, 1)], merkle_root: String::new() }], ..args }
        } else {
            args
        };
        match self.w.new_whitelist(kind, &args) {
            Ok(a) => {
                self.wls.insert(k, WlInfo { addr: a, kind, denom, denom0: denom, stages: if kind == WlKind::Immutable { vec![] } else { stages }, trees });
                self.observe(k);
                true
            }
            Err(_) => false,
        }
    }

    fn wl_addr(&self, k: u64) -> String {
        self.wls.get(&k).map(|i| i.addr.clone()).unwrap_or_else(|| addr(9000 + k))
    }

    /// the stage of whitelist `k` that is in force NOW. Tiered kinds: the whitelist's own `ActiveStageId` answer (C13 owns
    /// the interval semantics); single-stage kinds: the property's `start <= now < end` on the window the whitelist reports.
    fn active_of(&self, k: u64) -> Option<usize> {
        let info = self.wls.get(&k)?;
        if info.kind == WlKind::Immutable || info.stages.is_empty() {
            return None;
        }
        if is_tiered(info.kind) {
            let v = self.w.query(&info.addr, &json!({"active_stage_id":{}})).ok()?;
            let id = v.as_u64()?;
            if id == 0 || id as usize > info.stages.len() {
                None
            } else {
                Some(id as usize - 1)
            }
        } else {
            info.spec_active(self.w.time())
        }
    }
    /// single-stage whitelist `k`: does its own `is_active` answer differ from `start <= now < end`?
    fn is_active_inconsistent(&self, k: u64) -> Option<(String, String)> {
        let info = self.wls.get(&k)?;
        if info.kind == WlKind::Immutable || is_tiered(info.kind) || info.stages.is_empty() {
            return None;
        }
        let now = self.w.time();
        let want = info.spec_active(now).is_some();
        let c = self.w.query(&info.addr, &json!({"config":{}})).ok()?;
        let got = c["is_active"].as_bool()?;
        if got != want {
            let name = match info.kind {
                WlKind::Plain => "sg-whitelist",
                WlKind::Flex => "sg-whitelist-flex",
                _ => "whitelist-merkletree",
            };
            return Some((name.to_string(), format!("window [{}, {}) at now={now}: `start <= now < end` is {want}, the whitelist's is_active says {got}", info.stages[0].start, info.stages[0].end)));
        }
        None
    }
    /// what a buyer must pay NOW according to the harness's own record: the price it created the stage in force with, else
    /// the public price it created the minter with (after an accepted price-changing message: the minter's own answer)
    fn expected_price(&self) -> Option<(u64, u128)> {
        let g = self.ghost.as_ref()?;
        if let Some(k) = g.wl {
            if let Some(si) = self.active_of(k) {
                let i = &self.wls[&k];
                return Some((i.denom0, i.stages[si].price0));
            }
        }
        if g.price_touched {
            Some(self.snap().price)
        } else {
            Some((g.denom, g.pub_price))
        }
    }

    /// make sure `owner` holds a token of the source collection (token-merge), return its id
    fn source_token(&mut self, owner: u64) -> u64 {
        if let Some(v) = self.src_owned.get(&owner) {
            if let Some(t) = v.last() {
                return *t;
            }
        }
        let fee = 50_000_000u128 * 1000 / 10_000;
        self.w.fund(&addr(SRC_CREATOR), 0, fee);
        self.w.exec(&addr(SRC_CREATOR), &self.src_minter.clone(), &json!({"mint":{"token_uri":"ipfs://src/1"}}), &[(0, fee)]).expect("source mint");
        self.src_next += 1;
        let id = self.src_next;
        self.w
            .exec(&addr(SRC_CREATOR), &self.src_coll.clone(), &json!({"transfer_nft":{"recipient": addr(owner), "token_id": id.to_string()}}), &[])
            .expect("source transfer");
        self.src_owned.entry(owner).or_default().push(id);
        id
    }

    fn proof_hashes(&self, spec: &str) -> Value {
        match spec {
            "-" => Value::Null,
            "b" => json!(["zz-not-hex", "1234"]),
            "j" => {
                // well-formed digests that are no path: the digest size of the attached whitelist's kind
                let tiered = self.snap().wl.and_then(|k| self.wls.get(&k)).map(|i| is_tiered(i.kind)).unwrap_or(false);
                let n = if tiered { 16 } else { 32 };
                json!([hex::encode(vec![0xabu8; n]), hex::encode(vec![0x17u8; n])])
            }
            "e" => json!([]),
            p => {
                let q: Vec<&str> = p.split('.').collect();
                if q.len() != 6 {
                    return Value::Null;
                }
                let k: u64 = q[1].parse().unwrap_or(0);
                let i: usize = q[2].parse().unwrap_or(0);
                let leaf: LeafT = (parse_ox(q[3]), q[4].parse().unwrap_or(0), parse_ox(q[5]));
                let Some(info) = self.wls.get(&k) else { return json!([]) };
                let Some(st) = info.stages.get(i) else { return json!([]) };
                match st.leaves.iter().position(|l| *l == leaf) {
                    Some(pos) => json!(info.trees[i].proof(pos)),
                    None => json!([hex::encode(vec![1u8; if is_tiered(info.kind) { 16 } else { 32 }])]),
                }
            }
        }
    }

    /// run the crate's `migrate` for real: rewrite the cw2 version to `ver` first (with the same version `migrate` returns early)
    fn do_migrate(&mut self, ver: &str) -> bool {
        let Some(m) = self.minter.clone() else { return false };
        let a = cosmwasm_std::Addr::unchecked(&m);
        let old = {
            let st = self.w.app.contract_storage(&a);
            cw2::get_contract_version(&*st).ok()
        };
        if let (Some(old), true) = (&old, ver != "same") {
            let mut st = self.w.app.contract_storage_mut(&a);
            let _ = cw2::set_contract_version(&mut *st, old.contract.clone(), ver.to_string());
        }
        let code = self.w.codes.minters[self.kind.idx()];
        let admin = self.ghost.as_ref().map(|g| g.admin).unwrap_or(ADMIN);
        let r = self.w.migrate(&addr(admin), &m, code, &json!({}));
        if r.is_err() {
            if let Some(old) = old {
                let mut st = self.w.app.contract_storage_mut(&a);
                let _ = cw2::set_contract_version(&mut *st, old.contract, old.version);
            }
        }
        r.is_ok()
    }
}


impl Sut for S {
    fn begin(&mut self, header: &str) -> (String, String) {
        let now = kv_u64(header, "now").unwrap_or(GENESIS);
        self.vidx = kv_u64(header, "v").unwrap_or(0) as usize;
        self.kind = variant_kind(self.vidx);
        self.denom = kv_u64(header, "denom").unwrap_or(0);
        let mut w = World::new(now);
        let mut p = w.default_params(self.kind);
        self.minp0 = kv_u128(header, "minp").unwrap_or(0);
        p.min_mint_price = (self.denom, self.minp0);
        self.airp = kv_u128(header, "airp").unwrap_or(0);
        p.airdrop_mint_price = (self.denom, self.airp);
        p.max_token_limit = kv_u64(header, "maxtok").unwrap_or(100) as u32;
        p.max_per_address_limit = 50;
        self.factory = w.new_factory(self.kind.factory(), &p).expect("factory");
        self.src_minter.clear();
        self.src_coll.clear();
        self.src_next = 0;
        self.src_owned.clear();
        if self.kind == MinterKind::TokenMerge {
            let pb = w.default_params(MinterKind::Base);
            let fb = w.new_factory(FactoryKind::Base, &pb).expect("base factory");
            let mut ab = w.default_create(MinterKind::Base, &pb);
            ab.creator = SRC_CREATOR;
            w.fund(&addr(SRC_CREATOR), 0, 10_000_000_000);
            let (mb, cb) = w.create_minter(&fb, MinterKind::Base, &ab).expect("source collection");
            self.src_minter = mb;
            self.src_coll = cb;
        }
        // floor cases use a fresh buyer for every probe
        let hi = if header.contains(" floor") { 140 } else { 40 };
        for b in 20..hi {
            w.fund(&addr(b), 0, 1_000_000_000_000_000);
            w.fund(&addr(b), 1, 1_000_000_000_000_000);
        }
        if hi > 40 {
            w.fund(&addr(BIG), 0, 1_000_000_000_000_000);
            w.fund(&addr(BIG), 1, 1_000_000_000_000_000);
        }
        w.fund(&addr(ADMIN), 0, 1_000_000_000_000_000);
        w.fund(&addr(ADMIN), 1, 1_000_000_000_000_000);
        self.w = w;
        self.minter = None;
        self.coll = None;
        self.ghost = None;
        self.wls.clear();
        self.last = None;
        self.exec_schema = exec_schema(self.kind);
        (header.to_string(), "case".to_string())
    }

    fn exec(&mut self, line: &str) -> (String, String) {
        let op = line.split_whitespace().next().unwrap_or("").to_string();
        self.last = None;
        match op.as_str() {
            "wl" => {
                let ok = self.create_wl(line);
                let k = kv_u64(line, "k").unwrap_or(0);
                return if ok { (self.wls[&k].describe(k), "env".into()) } else { ("noop".into(), "env".into()) };
            }
            "wl_time" | "wl_stage" | "wl_add" | "wl_rm" | "wl_rmstage" | "wl_addstage" => {
                let k = kv_u64(line, "k").unwrap_or(0);
                let Some(info) = self.wls.get(&k).cloned() else { return ("noop".into(), "env".into()) };
                let stage = kv_u64(line, "stage").unwrap_or(0);
                let who = kv_u64(line, "a").unwrap_or(0);
                let msg = match op.as_str() {
                    "wl_time" => {
                        let t = kv_u64(line, "t").unwrap_or(0).to_string();
                        if kv(line, "which") == Some("start") {
                            json!({"update_start_time": t})
                        } else {
                            json!({"update_end_time": t})
                        }
                    }
                    "wl_stage" => json!({"update_stage_config": {"stage_id": stage, "start_time": kv_u64(line, "start").map(|t| t.to_string()),
                        "end_time": kv_u64(line, "end").map(|t| t.to_string())}}),
                    "wl_rmstage" => json!({"remove_stage": {"stage_id": stage}}),
                    "wl_addstage" => {
                        // a NEW stage appended by the whitelist admin, with its own member list
                        let n = info.stages.len();
                        let mut st = json!({"name": format!("stage{}", n + 1), "start_time": kv_u64(line, "start").unwrap_or(0).to_string(),
                            "end_time": kv_u64(line, "end").unwrap_or(0).to_string(), "mint_price": jcoin((info.denom0, kv_u128(line, "price").unwrap_or(0))),
                            "mint_count_limit": Value::Null});
                        if !is_flex(info.kind) {
                            st["per_address_limit"] = json!(kv_u64(line, "per").unwrap_or(1));
                        }
                        let sent: Vec<(u64, u64)> = kv_pairs(line, "mem").unwrap_or_default().into_iter().map(|(a, c)| (a as u64, c as u64)).collect();
                        let members: Vec<Value> = sent.iter().map(|(a, c)| if is_flex(info.kind) { json!({"address": addr(*a), "mint_count": c}) } else { json!(addr(*a)) }).collect();
                        if info.kind == WlKind::TieredMerkle {
                            json!({"add_stage": {"stage": st, "merkle_root": hex::encode(hash(true, b"unused")), "merkle_tree_uri": Value::Null}})
                        } else {
                            json!({"add_stage": {"stage": st, "members": members}})
                        }
                    }
                    "wl_add" => {
                        let a = addr(who);
                        let m = if is_flex(info.kind) { json!({"address": a, "mint_count": kv_u64(line, "c").unwrap_or(1)}) } else { json!(a) };
                        if is_tiered(info.kind) {
                            json!({"add_members": {"to_add": [m], "stage_id": stage}})
                        } else {
                            json!({"add_members": {"to_add": [m]}})
                        }
                    }
                    _ => {
                        let a = addr(who);
                        if is_tiered(info.kind) {
                            json!({"remove_members": {"to_remove": [a], "stage_id": stage}})
                        } else {
                            json!({"remove_members": {"to_remove": [a]}})
                        }
                    }
                };
                let accepted = self.w.exec(&addr(WLADMIN), &info.addr, &msg, &[]).is_ok();
                // a removed stage takes its ghost list — and those of all later stages — with it (observe keeps ghosts by index
                // only for the stages that still exist); a re-added stage at the same index starts from what the harness SENT
                if accepted && op == "wl_rmstage" {
                    if let Some(i) = self.wls.get_mut(&k) {
                        i.stages.truncate(stage as usize);
                        i.trees.truncate(stage as usize);
                    }
                }
                let n_before = self.wls.get(&k).map(|i| i.stages.len()).unwrap_or(0);
                self.observe(k);
                if accepted && op == "wl_addstage" {
                    let sent: BTreeSet<u64> = kv_pairs(line, "mem").unwrap_or_default().into_iter().map(|(a, _)| a as u64).collect();
                    let price = kv_u128(line, "price").unwrap_or(0);
                    if let Some(i) = self.wls.get_mut(&k) {
                        if i.stages.len() == n_before + 1 {
                            let st = i.stages.last_mut().unwrap();
                            st.gmembers = sent;
                            st.price0 = price;
                            st.leaves = vec![];
                            i.trees.push(Tree::default());
                        }
                    }
                }
                // ghost member lists: what the harness itself put on / took off (accepted messages only)
                if accepted {
                    let si = if is_tiered(info.kind) { stage as usize } else { 0 };
                    if let Some(st) = self.wls.get_mut(&k).and_then(|i| i.stages.get_mut(si)) {
                        if op == "wl_add" {
                            st.gmembers.insert(who);
                        } else if op == "wl_rm" {
                            st.gmembers.remove(&who);
                        }
                    }
                }
                return (self.wls[&k].describe(k), "env".into());
            }
            "t" => {
                let t = kv_u64(line, "now").unwrap_or(0);
                if t < self.w.time() {
                    return (line.to_string(), "err".into());
                }
                self.w.set_time(t);
                return (line.to_string(), "ok".into());
            }
            "menv" => {
                // any other minter message (incl. migrate and variants this check has never heard of); the model only learns
                // what can be observed afterwards
                let Some(m) = self.minter.clone() else { return ("noop".into(), "env".into()) };
                let pre = self.snap();
                let g0 = self.ghost.clone();
                let what = kv(line, "what").unwrap_or("");
                let arg = kv_u128(line, "arg").unwrap_or(0);
                let who = addr(kv_u64(line, "sender").unwrap_or(ADMIN));
                let now = self.w.time();
                let mut purged = false;
                let mut touches_price = false;
                let r: Result<(), String> = match what {
                    "upd_price" => {
                        touches_price = true;
                        self.w.exec(&who, &m, &json!({"update_mint_price": {"price": arg.to_string()}}), &[]).map(|_| ())
                    }
                    "upd_limit" => self.w.exec(&who, &m, &json!({"update_per_address_limit": {"per_address_limit": arg as u64}}), &[]).map(|_| ()),
                    "purge" => {
                        let r = self.w.exec(&who, &m, &json!({"purge": {}}), &[]);
                        purged = r.is_ok();
                        r.map(|_| ())
                    }
                    "shuffle" => {
                        self.w.fund(&who, 0, 500_000_000);
                        self.w.exec(&who, &m, &json!({"shuffle": {}}), &[(0, 500_000_000)]).map(|_| ())
                    }
                    "burn" => self.w.exec(&who, &m, &json!({"burn_remaining": {}}), &[]).map(|_| ()),
                    "trading" => self.w.exec(&who, &m, &json!({"update_start_trading_time": (arg as u64).to_string()}), &[]).map(|_| ()),
                    "discount" => {
                        touches_price = true;
                        self.w.exec(&who, &m, &json!({"update_discount_price": {"price": arg.to_string()}}), &[]).map(|_| ())
                    }
                    "rm_discount" => {
                        touches_price = true;
                        self.w.exec(&who, &m, &json!({"remove_discount_price": {}}), &[]).map(|_| ())
                    }
                    "migrate" => {
                        touches_price = true;
                        let ver = kv(line, "ver").unwrap_or("same").to_string();
                        if self.do_migrate(&ver) {
                            Ok(())
                        } else {
                            Err("migrate".into())
                        }
                    }
                    x if x.starts_with("x.") => {
                        touches_price = true;
                        match raw_variant(&self.exec_schema, &x[2..], now) {
                            Some(msg) => self.w.exec(&who, &m, &msg, &[]).map(|_| ()),
                            None => Err("no such variant".into()),
                        }
                    }
                    x if x.starts_with("s.") => {
                        touches_price = true;
                        match raw_variant(&self.sudo_schema, &x[2..], now) {
                            Some(msg) => self.w.sudo(&m, &msg).map(|_| ()),
                            None => Err("no such variant".into()),
                        }
                    }
                    _ => self.w.sudo(&m, &json!({"update_status": {"is_verified": arg % 2 == 1, "is_blocked": arg % 4 >= 2, "is_explicit": arg % 8 >= 4}})).map(|_| ()),
                };
                let ok = r.is_ok();
                if ok && touches_price {
                    if let Some(g) = self.ghost.as_mut() {
                        g.price_touched = true;
                    }
                }
                let post = self.snap();
                let g1 = self.ghost.clone();
                self.last = Some(MonRec { line: line.to_string(), op: "menv".into(), ok, pre, post: post.clone(), g0, g1, act: None, act_new: None, wl_incons: None, sender: 0, leaf: (None, 0, None), proof: "-".into(), charged: [0, 0], new_t: 0 });
                let pw = purged && self.kind.is_flex();
                return (
                    format!("menv price={} limit={} left={} pp={} pw={}", post.price.1, post.limit, fmt_opt(&post.left), purged as u8, pw as u8),
                    format!("env {}", S::obs(&post)),
                );
            }
            "fsudo" => {
                // factory governance: `sudo UpdateParams` (the model takes over what the factory reports afterwards)
                let pre = self.snap();
                let g0 = self.ghost.clone();
                let minp = kv_u128(line, "minp").unwrap_or(0);
                let airp = kv_u128(line, "airp").unwrap_or(0);
                let msg = match self.kind.factory() {
                    FactoryKind::TokenMerge => json!({"update_params": {"extension": {"airdrop_mint_price": jcoin((self.denom, airp))}}}),
                    _ => json!({"update_params": {"min_mint_price": jcoin((self.denom, minp)), "extension": {"airdrop_mint_price": jcoin((self.denom, airp))}}}),
                };
                let f = self.factory.clone();
                let ok = self.w.sudo(&f, &msg).is_ok();
                let (mut ominp, mut oairp) = (self.minp0, self.airp);
                if let Ok(v) = self.w.query(&f, &json!({"params":{}})) {
                    let pp = &v["params"];
                    let amt = |x: &Value| x["amount"].as_str().and_then(|a| a.parse::<u128>().ok());
                    if let Some(a) = amt(&pp["min_mint_price"]) {
                        ominp = a;
                    }
                    if let Some(a) = amt(&pp["extension"]["airdrop_mint_price"]).or(amt(&pp["airdrop_mint_price"])) {
                        oairp = a;
                    }
                }
                self.minp0 = ominp;
                self.airp = oairp;
                let post = self.snap();
                let g1 = self.ghost.clone();
                self.last = Some(MonRec { line: line.to_string(), op: "fsudo".into(), ok, pre, post: post.clone(), g0, g1, act: None, act_new: None, wl_incons: None, sender: 0, leaf: (None, 0, None), proof: "-".into(), charged: [0, 0], new_t: 0 });
                return (format!("fsudo minp={ominp} airp={oairp}"), format!("env {}", S::obs(&post)));
            }
            "price" => {
                // the MintPrice answer is property C07's: outside the projection
                let Some(m) = &self.minter else { return (line.to_string(), "err".into()) };
                return match self.w.query(m, &json!({"mint_price":{}})) {
                    Ok(v) => {
                        let c = |x: &Value| format!("{}:{}", denom_id(x["denom"].as_str().unwrap_or("")), x["amount"].as_str().unwrap_or("?"));
                        let wlp = if v["whitelist_price"].is_null() { "-".to_string() } else { c(&v["whitelist_price"]) };
                        (line.to_string(), format!("ok ## cur={} wlp={}", c(&v["current_price"]), wlp))
                    }
                    Err(_) => (line.to_string(), "err".into()),
                };
            }
            _ => {}
        }

        // ---- minter operations
        let pre = self.snap();
        let g0 = self.ghost.clone();
        let sender = kv_u64(line, "sender").unwrap_or(0);
        let funds: Vec<(u64, u128)> = kv_pairs(line, "funds").unwrap_or_default().into_iter().map(|(d, a)| (d as u64, a)).collect();
        let bal = |s: &S, a: u64| -> [i128; 2] { [s.w.balance(&addr(a), 0) as i128, s.w.balance(&addr(a), 1) as i128] };
        let b0 = bal(self, sender);
        let mut leaf: LeafT = (None, sender, None);
        let mut proof = "-".to_string();
        let mut cnt_addr: Option<u64> = None;
        let mut new_t = 0u64;
        let mut witness = String::new();
        let attached = g0.as_ref().and_then(|g| g.wl);
        let act = attached.and_then(|k| self.active_of(k));
        let mut act_new: Option<usize> = None;
        let mut wl_incons = attached.and_then(|k| self.is_active_inconsistent(k));
        let mut new_ghost: Option<Ghost> = None;
        let ok: bool = match op.as_str() {
            "create" => {
                if self.minter.is_some() {
                    false
                } else {
                    let p = self.w.default_params(self.kind);
                    let mut a = self.w.default_create(self.kind, &p);
                    a.creator = sender;
                    a.start_time = kv_u64(line, "start").unwrap_or(0);
                    a.end_time = kv_opt_u64(line, "end").unwrap_or(None);
                    let wlk = kv_opt_u64(line, "wl").unwrap_or(None);
                    a.whitelist = wlk.map(|k| self.wl_addr(k));
                    a.mint_price = (self.denom, kv_u128(line, "price").unwrap_or(0));
                    a.per_address_limit = kv_u64(line, "limit").unwrap_or(1) as u32;
                    a.num_tokens = kv_opt_u64(line, "ntok").unwrap_or(None).map(|n| n as u32);
                    a.payment_address = Some(PAYEE);
                    if self.kind == MinterKind::TokenMerge {
                        a.mint_tokens = vec![(self.src_coll.clone(), 1)];
                        a.payment_address = None;
                    }
                    a.funds = vec![(0, 5_000_000_000)];
                    let tm = self.kind == MinterKind::TokenMerge;
                    if !tm {
                        act_new = wlk.and_then(|k| self.active_of(k));
                        if wl_incons.is_none() {
                            wl_incons = wlk.and_then(|k| self.is_active_inconsistent(k));
                        }
                    }
                    match self.w.create_minter(&self.factory.clone(), self.kind, &a) {
                        Ok((m, c)) => {
                            self.minter = Some(m);
                            self.coll = Some(c);
                            new_ghost = Some(Ghost {
                                admin: sender,
                                start: a.start_time,
                                end: if self.kind.is_open_edition() { a.end_time } else { None },
                                wl: if tm { None } else { wlk },
                                denom: self.denom,
                                pub_price: a.mint_price.1,
                                ntok: a.num_tokens.map(|n| n as u64),
                                price_touched: false,
                            });
                            true
                        }
                        Err(_) => false,
                    }
                }
            }
            _ if self.minter.is_none() => false,
            "mint" => {
                cnt_addr = Some(sender);
                let m = self.minter.clone().unwrap();
                let msg = if self.kind.is_merkle() {
                    let stage = kv_opt_u64(line, "stage").unwrap_or(None);
                    let alloc = kv_opt_u64(line, "alloc").unwrap_or(None);
                    leaf = (stage, sender, alloc);
                    proof = kv(line, "proof").unwrap_or("-").to_string();
                    let ph = self.proof_hashes(&proof);
                    json!({"mint": {"stage": stage, "proof_hashes": ph, "allocation": alloc}})
                } else {
                    json!({"mint": {}})
                };
                if self.kind == MinterKind::TokenMerge {
                    false
                } else {
                    let r = self.w.exec(&addr(sender), &m, &msg, &funds);
                    if let (Err(e), true) = (&r, std::env::var("C04_DEBUG").is_ok()) {
                        eprintln!("DBG v{} {} => {}", self.vidx, line, e.lines().last().unwrap_or("").rsplit("}: ").next().unwrap_or("").to_string());
                    }
                    r.is_ok()
                }
            }
            "mint_to" => {
                let r = kv_u64(line, "rcpt").unwrap_or(0);
                cnt_addr = Some(if self.kind == MinterKind::TokenMerge { r } else { sender });
                let m = self.minter.clone().unwrap();
                self.w.exec(&addr(sender), &m, &json!({"mint_to": {"recipient": addr(r)}}), &funds).is_ok()
            }
            "mint_for" => {
                let r = kv_u64(line, "rcpt").unwrap_or(0);
                let tok = kv_u64(line, "token").unwrap_or(0);
                cnt_addr = Some(if self.kind == MinterKind::TokenMerge { r } else { sender });
                // witness for the model: the id is in range (the harness's own record of num_tokens) and not yet minted
                // (asked from the COLLECTION, not from the minter under test)
                let ntok = g0.as_ref().and_then(|g| g.ntok).unwrap_or(0);
                let minted = self.coll.as_ref().map(|c| self.w.query(c, &json!({"owner_of": {"token_id": tok.to_string()}})).is_ok()).unwrap_or(false);
                let free = tok >= 1 && tok <= ntok && !minted;
                witness = format!(" free={}", free as u8);
                let m = self.minter.clone().unwrap();
                self.w.exec(&addr(sender), &m, &json!({"mint_for": {"token_id": tok, "recipient": addr(r)}}), &funds).is_ok()
            }
            "deposit" => {
                let r = kv_opt_u64(line, "rcpt").unwrap_or(None);
                cnt_addr = Some(r.unwrap_or(sender));
                if self.kind != MinterKind::TokenMerge {
                    false
                } else {
                    let id = self.source_token(sender);
                    let m = self.minter.clone().unwrap();
                    let inner = cosmwasm_std::to_json_binary(&json!({"deposit_token": {"recipient": r.map(addr)}})).unwrap();
                    let res = self.w.exec(&addr(sender), &self.src_coll.clone(), &json!({"send_nft": {"contract": m, "token_id": id.to_string(), "msg": inner}}), &[]);
                    if res.is_ok() {
                        self.src_owned.get_mut(&sender).unwrap().pop();
                    }
                    res.is_ok()
                }
            }
            "upd_start" => {
                new_t = kv_u64(line, "t").unwrap_or(0);
                let m = self.minter.clone().unwrap();
                let ok = self.w.exec(&addr(sender), &m, &json!({"update_start_time": new_t.to_string()}), &[]).is_ok();
                if ok {
                    new_ghost = g0.clone().map(|g| Ghost { start: new_t, ..g });
                }
                ok
            }
            "upd_end" => {
                new_t = kv_u64(line, "t").unwrap_or(0);
                let m = self.minter.clone().unwrap();
                let ok = self.w.exec(&addr(sender), &m, &json!({"update_end_time": new_t.to_string()}), &[]).is_ok();
                if ok {
                    new_ghost = g0.clone().map(|g| Ghost { end: Some(new_t), ..g });
                }
                ok
            }
            "set_wl" => {
                let k = kv_u64(line, "wl").unwrap_or(0);
                act_new = self.active_of(k);
                if wl_incons.is_none() {
                    wl_incons = self.is_active_inconsistent(k);
                }
                let m = self.minter.clone().unwrap();
                let a = self.wl_addr(k);
                let ok = self.w.exec(&addr(sender), &m, &json!({"set_whitelist": {"whitelist": a}}), &[]).is_ok();
                if ok {
                    new_ghost = g0.clone().map(|g| Ghost { wl: Some(k), ..g });
                }
                ok
            }
            _ => return (line.to_string(), "bad-op".into()),
        };
        if let Some(g) = new_ghost {
            self.ghost = Some(g);
        }
        let post = self.snap();
        let b1 = bal(self, sender);
        let g1 = self.ghost.clone();
        self.last = Some(MonRec {
            line: line.to_string(),
            op: op.clone(),
            ok,
            pre,
            post: post.clone(),
            g0,
            g1,
            act,
            act_new,
            wl_incons,
            sender,
            leaf,
            proof,
            charged: [b0[0] - b1[0], b0[1] - b1[1]],
            new_t,
        });
        let out = if ok {
            match cnt_addr {
                Some(a) => format!("ok {} {}", S::obs(&post), self.count_of(a)),
                None => format!("ok {}", S::obs(&post)),
            }
        } else {
            "err".to_string()
        };
        (format!("{line}{witness}"), out)
    }

    /// Direct transcription of the property on the implementation's own trace, evaluated on the harness's OWN record
    /// (`Ghost`, ghost member lists / leaves / prices) — independent of the Lean model and of the minter's own answers.
    fn monitor(&mut self) -> Option<(String, String)> {
        let r = self.last.clone()?;
        let name = self.kind.name();
        let bad = |op: &str, p: &str, w: String| Some((format!("{name}/{op}/{p}"), format!("{w} on `{}` (now={}, record before={:?}, record after={:?}, stored after={:?})", r.line, r.pre.now, r.g0, r.g1, r.post)));
        let now = r.pre.now;
        let oe = self.kind.is_open_edition();
        let op = r.op.as_str();
        if let Some((wn, d)) = &r.wl_incons {
            return Some((format!("{wn}/is_active/differs-from-start-le-now-lt-end"), d.clone()));
        }
        // A. the accepted request itself, against the record BEFORE it
        if r.ok {
            if let Some(g0) = &r.g0 {
                match op {
                    "upd_start" => {
                        if now >= g0.start {
                            return bad(op, "start-updated-after-start", format!("start {} had passed at {now}", g0.start));
                        }
                        if r.new_t < now {
                            return bad(op, "start-moved-into-the-past", format!("new start {} < now {now}", r.new_t));
                        }
                    }
                    "upd_end" => {
                        match g0.end {
                            Some(e) if now < e => {}
                            _ => return bad(op, "end-updated-after-end", format!("end {:?} had passed (or was never set) at {now}", g0.end)),
                        }
                        if r.new_t < g0.start {
                            return bad(op, "end-before-start", format!("new end {} < start {}", r.new_t, g0.start));
                        }
                        if r.new_t < now {
                            return bad(op, "end-moved-into-the-past", format!("new end {} < now {now}", r.new_t));
                        }
                    }
                    "set_wl" => {
                        if now >= g0.start {
                            return bad(op, "whitelist-attached-after-start", format!("start {} had passed at {now}", g0.start));
                        }
                        if r.act.is_some() {
                            return bad(op, "whitelist-replaced-while-active", format!("current whitelist {:?} is active at {now}", g0.wl));
                        }
                        if r.act_new.is_some() {
                            return bad(op, "active-whitelist-attached", format!("new whitelist is active at {now}"));
                        }
                    }
                    _ => {}
                }
            }
            if op == "create" {
                if let Some(g1) = &r.g1 {
                    if g1.wl.is_some() && r.act_new.is_some() {
                        return bad(op, "active-whitelist-attached", format!("whitelist {:?} is active at {now}", g1.wl));
                    }
                    if g1.start < now {
                        return bad(op, "start-in-the-past", format!("created with start {} < now {now}", g1.start));
                    }
                    if let Some(e) = g1.end {
                        if e < g1.start {
                            return bad(op, "end-before-start", format!("created with end {e} < start {}", g1.start));
                        }
                    }
                }
            }
        }
        // B. whatever the message was (mints, failed messages, migrate, governance, variants this check has never heard of):
        // what the minter now stores must be what the accepted requests imply
        if let (Some(g1), true) = (&r.g1, r.post.exists) {
            if r.post.start != g1.start {
                let p = if r.ok && (op == "create" || op == "upd_start") {
                    "start-not-stored"
                } else if now >= g1.start {
                    "start-changed-after-start"
                } else {
                    "start-changed-by-other-message"
                };
                return bad(op, p, format!("the accepted requests imply start {}, the minter stores {}", g1.start, r.post.start));
            }
            if r.post.end != g1.end {
                let p = if r.ok && (op == "create" || op == "upd_end") {
                    "end-not-stored"
                } else if g1.end.map_or(false, |e| now >= e) {
                    "end-changed-after-end"
                } else {
                    "end-changed-by-other-message"
                };
                return bad(op, p, format!("the accepted requests imply end {:?}, the minter stores {:?}", g1.end, r.post.end));
            }
            if r.post.wl != g1.wl {
                let p = if r.ok && (op == "create" || op == "set_wl") {
                    "whitelist-not-stored"
                } else if now >= g1.start {
                    "whitelist-changed-after-start"
                } else {
                    "whitelist-changed-by-other-message"
                };
                return bad(op, p, format!("the accepted requests imply whitelist {:?}, the minter stores {:?}", g1.wl, r.post.wl));
            }
        }
        // the window stays well-formed (Lean: C04_window_wellformed): whichever accepted update produced it, an end before the start
        if let Some(g1) = &r.g1 {
            if let Some(e) = g1.end {
                if e < g1.start {
                    return bad(op, "end-before-start", format!("the accepted requests leave end {e} < start {}", g1.start));
                }
            }
        }
        if !r.ok {
            return None;
        }
        // C. accepted mints, against the record
        let g0 = r.g0.clone()?;
        let attached = g0.wl.and_then(|k| self.wls.get(&k).map(|i| (k, i)));
        let active = attached.and_then(|(k, i)| r.act.map(|s| (k, i, s)));
        match op {
            "mint" | "deposit" => {
                if oe {
                    if let Some(e) = g0.end {
                        if now >= e {
                            return bad(op, "open-edition-mint-at-or-after-end", format!("mint succeeded at {now} >= end {e}"));
                        }
                    }
                }
                match active {
                    None => {
                        if now < g0.start {
                            return bad(op, "public-mint-before-start", format!("public mint succeeded at {now} < start {}", g0.start));
                        }
                        if op == "mint" {
                            let pp = if g0.price_touched { r.pre.price } else { (g0.denom, g0.pub_price) };
                            let mut want = [0i128; 2];
                            want[pp.0 as usize % 2] = pp.1 as i128;
                            if r.charged != want {
                                return bad(op, "public-price", format!("no active whitelist: charged {:?}, public price is {:?}", r.charged, pp));
                            }
                        }
                    }
                    Some((k, info, si)) => {
                        let Some(st) = info.stages.get(si) else { return None };
                        let entitled = if is_merkle(info.kind) {
                            // only the sibling path the harness generated for THIS sender's own leaf in the tree in force counts
                            let q: Vec<&str> = r.proof.split('.').collect();
                            q.len() == 6
                                && q[0] == "p"
                                && q[1].parse::<u64>().ok() == Some(k)
                                && q[2].parse::<usize>().ok() == Some(si)
                                && (parse_ox(q[3]), q[4].parse::<u64>().unwrap_or(u64::MAX), parse_ox(q[5])) == r.leaf
                                && r.leaf.1 == r.sender
                                && st.leaves.contains(&r.leaf)
                        } else {
                            st.gmembers.contains(&r.sender)
                        };
                        if !entitled {
                            return bad(op, "non-member-minted-during-active-whitelist", format!("sender {} (proof `{}`) is not entitled in stage {si} of whitelist {k}", r.sender, r.proof));
                        }
                        let mut want = [0i128; 2];
                        want[info.denom0 as usize % 2] = st.price0 as i128;
                        if r.charged != want {
                            return bad(op, "whitelist-price", format!("active whitelist: charged {:?}, whitelist price is {}:{}", r.charged, info.denom0, st.price0));
                        }
                    }
                }
            }
            "mint_to" | "mint_for" => {
                if oe {
                    if let Some(e) = g0.end {
                        if now >= e {
                            return bad(op, "open-edition-airdrop-at-or-after-end", format!("airdrop succeeded at {now} >= end {e}"));
                        }
                    }
                }
            }
            _ => {}
        }
        None
    }
}

// ------------------------------------------------------------------------------------------------ generators

const MEMBERS: [u64; 8] = [20, 21, 22, 23, 24, 25, 26, 27];
const OUTSIDERS: [u64; 3] = [30, 31, 32];

struct Gen {
    rng: Rng,
    rot: u64,
}

/// stage windows (relative to the mint start S) per shape; tiered kinds use all, single-stage kinds the first
fn windows(shape: u64, s: u64) -> Vec<(u64, u64)> {
    match shape % 8 {
        0 => vec![(s - 600, s - 400), (s - 400, s - 200), (s - 150, s - 100)], // before start, two stages touching
        1 => vec![(s - 300, s + 300)],                                          // straddles the start
        2 => vec![(s + 100, s + 300), (s + 305, s + 400)],                      // after the start
        3 => vec![(s - 200, s)],                                                // ends exactly at the start
        4 => vec![(s, s + 200)],                                                // begins exactly at the start
        5 => vec![(s - 400, s - 100), (s - 100, s + 100), (s + 100, s + 250)],  // chain across the start, touching
        6 => vec![(s - 500, s - 499)],                                          // one-nanosecond window
        _ => vec![(s - 50, s + 900), (s + 950, s + 1200)],                      // outlives an open-edition end
    }
}

fn wl_line(k: u64, kind: WlKind, denom: u64, wins: &[(u64, u64)], base_price: u128, rng: &mut Rng) -> String {
    let n = if is_tiered(kind) { wins.len().min(3) } else { 1 };
    let mut st = vec![];
    let mut mem = vec![];
    let mut lv = vec![];
    for i in 0..n {
        let (a, b) = wins[i];
        let per = if is_flex(kind) { 0 } else { 1 + rng.below(3) };
        let cl = if is_tiered(kind) && rng.chance(1, 3) { (2 + rng.below(4)).to_string() } else { "x".into() };
        st.push(format!("{a}:{b}:{}:{per}:{cl}", base_price + 1000 * i as u128));
        // members: rotate so that stages differ; MEMBERS[3] only in later stages
        let ms: Vec<u64> = MEMBERS.iter().cloned().filter(|m| (*m as usize + i) % 4 != 3).collect();
        if is_merkle(kind) {
            let mut leaves: Vec<String> = vec![format!("x:{}:x", 9000 + 10 * k + i as u64)]; // marker leaf: makes every tree distinct
            for (j, m) in ms.iter().enumerate() {
                match j % 3 {
                    0 => leaves.push(format!("x:{m}:x")),
                    1 => leaves.push(format!("x:{m}:{}", 2 + j)),
                    _ => leaves.push(format!("{}:{m}:{}", i + 1, 1 + j)),
                }
            }
            lv.push(leaves.join(","));
            mem.push("-".to_string());
        } else {
            mem.push(ms.iter().map(|m| format!("{m}:{}", if is_flex(kind) { 1 + (m % 3) } else { 0 })).collect::<Vec<_>>().join(","));
            lv.push("-".to_string());
        }
    }
    if kind == WlKind::Immutable {
        return format!("wl k={k} kind={} denom={denom} st=- mem=- lv=-", wl_kind_idx(kind));
    }
    format!("wl k={k} kind={} denom={denom} st={} mem={} lv={}", wl_kind_idx(kind), st.join(";"), mem.join(";"), lv.join(";"))
}

impl Gen {
    fn buyer(&mut self, pool: &[u64]) -> u64 {
        self.rot += 1;
        pool[(self.rot as usize) % pool.len()]
    }
}

/// what a buyer must pay now, from the harness's OWN record (created prices), not from the minter's `MintPrice` answer
fn current_price(sut: &S) -> Option<(u64, u128)> {
    sut.expected_price()
}
fn funds_str(p: Option<(u64, u128)>) -> String {
    match p {
        Some((_, 0)) | None => "-".into(),
        Some((d, a)) => format!("{d}:{a}"),
    }
}

/// the mint line a given buyer would send (Merkle minters: with the proof of the buyer's own leaf in the active
/// tree when there is one, else a plain call)
fn mint_line(sut: &S, buyer: u64, funds: &str, mode: u64) -> String {
    if !sut.kind.is_merkle() {
        return format!("mint sender={buyer} funds={funds}");
    }
    let snap = sut.snap();
    let now = snap.now;
    let info = snap.wl.and_then(|k| sut.wls.get(&k).map(|i| (k, i)));
    // candidate leaf: the buyer's own leaf in the tree in force (or in tree 0 when nothing is active)
    let mut stage = "-".to_string();
    let mut alloc = "-".to_string();
    let mut proof = "-".to_string();
    if let Some((k, i)) = info {
        if is_merkle(i.kind) && !i.stages.is_empty() {
            let _ = now;
            let ti = sut.active_of(k).unwrap_or(0);
            let own = i.stages[ti].leaves.iter().find(|l| l.1 == buyer).cloned();
            let other = i.stages[ti].leaves.iter().find(|l| l.1 != buyer && l.1 < 9000).cloned();
            let enc = |t: usize, l: &LeafT| format!("p.{k}.{t}.{}.{}.{}", ox(&l.0), l.1, ox(&l.2));
            match mode % 12 {
                0 | 1 | 2 => {
                    if let Some(l) = own.clone().or(other.clone()) {
                        // own leaf with own proof; an outsider presents someone else's proof and claims that leaf's stage/allocation
                        stage = fmt_opt(&l.0);
                        alloc = fmt_opt(&l.2);
                        proof = enc(ti, &l);
                    }
                }
                3 => {
                    // somebody else's proof, own (true) stage/allocation
                    if let Some(l) = other {
                        proof = enc(ti, &l);
                        if let Some(o) = own {
                            stage = fmt_opt(&o.0);
                            alloc = fmt_opt(&o.2);
                        }
                    }
                }
                4 => {
                    // right proof, inflated allocation
                    if let Some(l) = own {
                        stage = fmt_opt(&l.0);
                        alloc = (l.2.unwrap_or(1) + 5).to_string();
                        proof = enc(ti, &l);
                    }
                }
                5 => {
                    // proof from another tree of the same whitelist
                    let tj = (ti + 1) % i.stages.len();
                    if let Some(l) = i.stages[tj].leaves.iter().find(|l| l.1 == buyer).cloned() {
                        stage = fmt_opt(&l.0);
                        alloc = fmt_opt(&l.2);
                        proof = enc(tj, &l);
                    }
                }
                6 | 10 => {
                    // the claimed leaf IS committed (own stage / allocation) but the path is junk (6) or empty (10)
                    if let Some(l) = own {
                        stage = fmt_opt(&l.0);
                        alloc = fmt_opt(&l.2);
                    }
                    proof = if mode % 12 == 6 { "j".into() } else { "e".into() };
                }
                8 => {
                    // a genuine path out of ANOTHER whitelist's tree (same buyer)
                    if let Some((k2, i2)) = sut.wls.iter().find(|(k2, i2)| **k2 != k && is_merkle(i2.kind) && !i2.stages.is_empty()) {
                        if let Some(l) = i2.stages[0].leaves.iter().find(|l| l.1 == buyer).cloned() {
                            stage = fmt_opt(&l.0);
                            alloc = fmt_opt(&l.2);
                            proof = format!("p.{k2}.0.{}.{}.{}", ox(&l.0), l.1, ox(&l.2));
                        }
                    }
                }
                9 => {
                    // a leaf that was never committed (own address, invented allocation), "proved" with hashes of the right size
                    let l: LeafT = (own.as_ref().and_then(|o| o.0), buyer, Some(own.as_ref().and_then(|o| o.2).unwrap_or(1) + 40));
                    stage = fmt_opt(&l.0);
                    alloc = fmt_opt(&l.2);
                    proof = enc(ti, &l);
                }
                _ => proof = if mode % 24 == 7 { "b".into() } else { "-".into() },
            }
        } else if mode % 4 == 3 {
            proof = "j".into();
            alloc = "7".into();
        }
    }
    format!("mint sender={buyer} funds={funds} stage={stage} alloc={alloc} proof={proof}")
}

fn rel(now: u64, t: u64) -> &'static str {
    if now < t {
        "lt"
    } else if now == t {
        "eq"
    } else {
        "gt"
    }
}

/// exact position relative to a boundary: one nanosecond before / at / one nanosecond after (else far)
fn rel3(now: u64, t: u64) -> Option<&'static str> {
    if now + 1 == t {
        Some("m1")
    } else if now == t {
        Some("0")
    } else if now == t + 1 {
        Some("p1")
    } else {
        None
    }
}

fn classify(ses: &mut Session, sut: &S, line: &str, out: &str) {
    let op = line.split_whitespace().next().unwrap_or("?");
    if matches!(op, "wl" | "wl_time" | "wl_stage" | "wl_add" | "wl_rm" | "t") {
        ses.mark(format!("v{}:{}:{}", sut.vidx, op, out.split_whitespace().next().unwrap_or("?")));
        return;
    }
    // classes are keyed on the harness's own record (ghost), not on the minter's answers
    let now = sut.w.time();
    let g = sut.ghost.clone();
    let okk = out.split_whitespace().next().unwrap_or("?");
    let wlk = g.as_ref().and_then(|g| g.wl);
    let wl = wlk.and_then(|k| sut.wls.get(&k));
    let wk = wl.map(|i| wl_kind_idx(i.kind) as i64).unwrap_or(-1);
    let act = wlk.map(|k| sut.active_of(k).map(|x| x as i64 + 1).unwrap_or(0)).unwrap_or(-1);
    let e = g.as_ref().and_then(|g| g.end).map(|e| rel(now, e)).unwrap_or("na");
    let pf = kv(line, "proof").map(|p| &p[..1]).unwrap_or("n");
    let what = if op == "menv" { format!("menv.{}", kv(line, "what").unwrap_or("?").split('.').next().unwrap_or("?")) } else { op.to_string() };
    if op == "mint" && act > 0 {
        ses.count(&format!("wlmint:v{}:wl{}:{}", sut.vidx, wk, okk));
    }
    ses.mark(format!("v{}:wl{}:{}:{}:start-{}:end-{}:act{}:pf{}", sut.vidx, wk, what, okk, g.as_ref().map(|g| rel(now, g.start)).unwrap_or("na"), e, act, pf));
    // exact boundary instants (−1 ns / 0 / +1 ns) of the mint start, the mint end and every edge of the attached whitelist
    if let Some(g) = &g {
        let mode = if act > 0 { "wl" } else { "pub" };
        if let Some(r) = rel3(now, g.start) {
            ses.mark(format!("bd:v{}:{}:{}:start:{}:{}", sut.vidx, what, mode, r, okk));
        }
        if let Some(r) = g.end.and_then(|e| rel3(now, e)) {
            ses.mark(format!("bd:v{}:{}:{}:end:{}:{}", sut.vidx, what, mode, r, okk));
        }
        if let Some(i) = wl {
            for (si, st) in i.stages.iter().enumerate() {
                if let Some(r) = rel3(now, st.start) {
                    ses.mark(format!("bd:v{}:wl{}:{}:stage{}-start:{}:{}", sut.vidx, wk, what, si, r, okk));
                }
                if let Some(r) = rel3(now, st.end) {
                    ses.mark(format!("bd:v{}:wl{}:{}:stage{}-end:{}:{}", sut.vidx, wk, what, si, r, okk));
                }
            }
        }
    }
}

fn do_step(ses: &mut Session, sut: &mut S, line: &str) -> String {
    let out = ses.step(sut, line);
    if std::env::var("C04_TRACE").is_ok() {
        eprintln!("TRACE v{} {} => {}", sut.vidx, line, out);
    }
    classify(ses, sut, line, &out);
    out
}

/// battery of probes at the current instant (identity updates do not change the schedule when they succeed)
fn battery(ses: &mut Session, sut: &mut S, g: &mut Gen, heavy: bool) {
    let tm = sut.kind == MinterKind::TokenMerge;
    let snap = sut.snap();
    if !snap.exists {
        return;
    }
    if tm {
        let b = g.buyer(&MEMBERS);
        do_step(ses, sut, &format!("deposit sender={b} rcpt=-"));
        if heavy {
            let b2 = g.buyer(&OUTSIDERS);
            do_step(ses, sut, &format!("deposit sender={b2} rcpt={}", g.buyer(&MEMBERS)));
        }
    } else {
        do_step(ses, sut, "price");
        let cur = current_price(sut);
        // an entitled buyer of the stage in force when there is one (ground truth), else any listed buyer
        let entitled: Vec<u64> = snap
            .wl
            .and_then(|k| sut.active_of(k).and_then(|si| sut.wls.get(&k).map(|i| (i, si))))
            .map(|(i, si)| if is_merkle(i.kind) { i.stages[si].leaves.iter().map(|l| l.1).filter(|a| *a < 9000).collect() } else { i.stages[si].gmembers.iter().cloned().filter(|a| *a < 100).collect() })
            .unwrap_or_default();
        let m = if entitled.is_empty() || g.rng.chance(1, 5) { g.buyer(&MEMBERS) } else { g.buyer(&entitled) };
        let mode = g.rng.below(3);
        let l = mint_line(sut, m, &funds_str(cur), mode);
        do_step(ses, sut, &l);
        let o = g.buyer(&OUTSIDERS);
        let mode = g.rng.below(24);
        let l = mint_line(sut, o, &funds_str(cur), mode);
        do_step(ses, sut, &l);
        if heavy {
            // the other price kind / a wrong amount / adversarial proofs by a member
            let other: Option<(u64, u128)> = {
                let att = snap.wl.and_then(|k| sut.wls.get(&k));
                match (att, cur) {
                    (Some(i), Some(c)) if !i.stages.is_empty() => {
                        let si = snap.wl.and_then(|k| sut.active_of(k)).unwrap_or(0).min(i.stages.len() - 1);
                        let wlp = (i.denom0, i.stages[si].price0);
                        Some(if c == wlp { snap.price } else { wlp })
                    }
                    (_, Some(c)) => Some((c.0, c.1 + 1)),
                    _ => None,
                }
            };
            let m2 = g.buyer(&MEMBERS);
            let l = mint_line(sut, m2, &funds_str(other), 0);
            do_step(ses, sut, &l);
            // the same buyer again, twice (whitelist / public / stage limits)
            for _ in 0..2 {
                let cur2 = current_price(sut);
                let l = mint_line(sut, m, &funds_str(cur2), 0);
                do_step(ses, sut, &l);
            }
            if sut.kind.is_merkle() {
                let m3 = g.buyer(&MEMBERS);
                let mode = 3 + g.rng.below(21);
                let l = mint_line(sut, m3, &funds_str(cur), mode);
                do_step(ses, sut, &l);
            }
        }
    }
    // airdrop by the admin (and rarely by a stranger)
    let who = if g.rng.chance(1, 8) { 20 } else { ADMIN };
    let r = g.buyer(&OUTSIDERS);
    let af = if sut.airp == 0 || g.rng.chance(1, 10) { "-".to_string() } else { format!("{}:{}", sut.denom, sut.airp) };
    do_step(ses, sut, &format!("mint_to sender={who} rcpt={r} funds={af}"));
    // identity updates: probe the gates without moving the schedule
    let who = if g.rng.chance(1, 10) { 21 } else { ADMIN };
    do_step(ses, sut, &format!("upd_start sender={who} t={}", snap.start));
    if let Some(e) = snap.end {
        do_step(ses, sut, &format!("upd_end sender={who} t={e}"));
    } else if heavy && !tm {
        do_step(ses, sut, &format!("upd_end sender={ADMIN} t={}", snap.now + 10));
    }
    if let Some(k) = snap.wl {
        do_step(ses, sut, &format!("set_wl sender={who} wl={k}"));
    }
}

fn interesting_instants(sut: &S) -> Vec<u64> {
    let s = sut.snap();
    let mut v = vec![];
    if s.exists {
        v.push(s.start);
        if let Some(e) = s.end {
            v.push(e);
        }
    }
    for i in sut.wls.values() {
        for st in &i.stages {
            v.push(st.start);
            v.push(st.end);
        }
    }
    v.sort();
    v.dedup();
    v
}

fn header(v: usize, now: u64, denom: u64, minp: u128, airp: u128, maxtok: u64) -> String {
    format!("case v={v} now={now} denom={denom} minp={minp} airp={airp} maxtok={maxtok}")
}

/// migrate (old / same / newer cw2 version), `MintFor`, factory governance: none of them may move the schedule
fn extra_surface(ses: &mut Session, sut: &mut S, g: &mut Gen) {
    match g.rng.below(4) {
        0 => {
            let ver = *g.rng.pick(&["same", "0.1.0", "2.99.99", "3.8.9", "99.0.0"]);
            let who = if g.rng.chance(1, 8) { 24 } else { ADMIN };
            do_step(ses, sut, &format!("menv what=migrate ver={ver} arg=0 sender={who}"));
        }
        1 => {
            let who = if g.rng.chance(1, 8) { 24 } else { ADMIN };
            let tok = *g.rng.pick(&[0u64, 1, 2, 7, 399, 400, 401]);
            let af = if sut.airp == 0 { "-".to_string() } else { format!("{}:{}", sut.denom, sut.airp) };
            do_step(ses, sut, &format!("mint_for sender={who} rcpt={} token={tok} funds={af}", g.buyer(&OUTSIDERS)));
        }
        _ => {
            let minp = *g.rng.pick(&[50_000_000u128, 40_000_000, 60_000_500, 70_000_000]);
            let airp = *g.rng.pick(&[0u128, 3_000_000, 7_000_000]);
            do_step(ses, sut, &format!("fsudo minp={minp} airp={airp}"));
        }
    }
}

/// every `ExecuteMsg` / `SudoMsg` variant found in the crates' schemas at RUN TIME that this check has no op for is sent as
/// raw JSON (minimal arguments built from the schema) by the admin and by a stranger, under all monitors: afterwards the
/// minter must still store the schedule the accepted requests imply. On the unchanged tree there is none.
fn unknown_surface(ses: &mut Session, sut: &mut S) {
    if sut.minter.is_none() {
        return;
    }
    for v in unknown_exec(sut.kind) {
        ses.mark(format!("surface:v{}:unknown-execute:{v}", sut.vidx));
        for who in [ADMIN, 24] {
            do_step(ses, sut, &format!("menv what=x.{v} arg=0 sender={who}"));
        }
    }
    for v in unknown_sudo() {
        ses.mark(format!("surface:v{}:unknown-sudo:{v}", sut.vidx));
        do_step(ses, sut, &format!("menv what=s.{v} arg=0 sender={ADMIN}"));
    }
}

/// sweep: one minter × one whitelist kind × one window shape; the clock visits t-1, t, t+1 of every instant in order
fn sweep_case(ses: &mut Session, sut: &mut S, g: &mut Gen, v: usize, wk: WlKind, shape: u64, heavy: bool) {
    let kind = variant_kind(v);
    let t0 = GENESIS + 1_000_000 + g.rng.below(1000) * 7;
    let s = t0 + 2000;
    let denom = if g.rng.chance(1, 6) { 1 } else { 0 };
    let minp: u128 = 50_000_000;
    // an uncapped open edition needs an end time and a non-zero airdrop price
    let uncapped = kind.is_open_edition() && shape % 5 != 4 && g.rng.chance(1, 3);
    let airp: u128 = if uncapped || g.rng.chance(1, 4) { 7_000_000 } else { 0 };
    ses.begin_case(sut, &format!("{} sweep wk={} shape={}", header(v, t0, denom, minp, airp, 500), wl_kind_idx(wk), shape));
    let wins = windows(shape, s);
    let wl_denom = if g.rng.chance(1, 12) { 1 - denom } else { denom };
    let l1 = wl_line(1, wk, wl_denom, &wins, 60_000_000, &mut g.rng);
    do_step(ses, sut, &l1);
    // a second whitelist of the same kind, shifted by 37 ns, for swap probes
    let wins2: Vec<(u64, u64)> = windows(shape + 1, s).iter().map(|(a, b)| (a + 37, b + 37)).collect();
    let l2 = wl_line(2, wk, denom, &wins2, 61_000_000, &mut g.rng);
    do_step(ses, sut, &l2);
    let oe = kind.is_open_edition();
    let end = if oe && shape % 5 != 4 { format!("{}", s + 700 + (shape % 3) * 100) } else { "-".into() };
    // supply large enough that no sweep sells out before the last boundary (review item 1)
    let ntok = if uncapped { "-".to_string() } else { "400".to_string() };
    let attach_at_create = g.rng.chance(2, 3) && kind != MinterKind::TokenMerge;
    let price = if kind == MinterKind::TokenMerge { 0 } else { 100_000_000u128 + g.rng.below(5) as u128 };
    let limit = 1 + g.rng.below(3);
    let c = format!("create sender={ADMIN} start={s} end={end} wl={} price={price} limit={limit} ntok={ntok}", if attach_at_create { "1" } else { "-" });
    let out = do_step(ses, sut, &c);
    if !out.starts_with("ok") {
        // e.g. whitelist kind the minter cannot read: create without it so that the schedule is still swept
        let c = format!("create sender={ADMIN} start={s} end={end} wl=- price={price} limit={limit} ntok={ntok}");
        do_step(ses, sut, &c);
    }
    if !attach_at_create && kind != MinterKind::TokenMerge {
        do_step(ses, sut, &format!("set_wl sender={ADMIN} wl=1"));
    }
    unknown_surface(ses, sut);
    // the sweep
    let mut points: Vec<u64> = vec![];
    for t in interesting_instants(sut) {
        points.extend([t - 1, t, t + 1]);
    }
    points.sort();
    points.dedup();
    let mut discount_done = false;
    for p in points {
        if p < sut.w.time() {
            continue;
        }
        do_step(ses, sut, &format!("t now={p}"));
        // vending family: once the sale has started a discount may be set — also while a whitelist is still active;
        // the whitelist price must keep applying to whitelist mints
        if kind.is_vending() && !discount_done && p >= s && g.rng.chance(1, 2) {
            discount_done = true;
            let d = *g.rng.pick(&[55_000_000u128, 80_000_000, 60_000_000]);
            do_step(ses, sut, &format!("menv what=discount arg={d} sender={ADMIN}"));
        }
        battery(ses, sut, g, heavy);
        // swap probes: to the other whitelist and back (both succeed only while everything is inactive and not started)
        if g.rng.chance(1, 3) && kind != MinterKind::TokenMerge {
            let cur = sut.snap().wl;
            let target = if cur == Some(1) { 2 } else { 1 };
            do_step(ses, sut, &format!("set_wl sender={ADMIN} wl={target}"));
            if let Some(back) = cur {
                do_step(ses, sut, &format!("set_wl sender={ADMIN} wl={back}"));
            }
        }
        // the rest of the message surface must leave the schedule alone
        if g.rng.chance(1, 4) {
            let (what, arg): (&str, u128) = match g.rng.below(6) {
                0 => ("upd_price", 99_000_000),
                1 => ("upd_limit", 1 + g.rng.below(3) as u128),
                2 => ("status", g.rng.below(8) as u128),
                3 => ("discount", 80_000_000),
                4 => ("rm_discount", 0),
                _ => ("trading", (p + 100) as u128),
            };
            do_step(ses, sut, &format!("menv what={what} arg={arg} sender={ADMIN}"));
        }
        if g.rng.chance(1, 10) {
            extra_surface(ses, sut, g);
        }
    }
    // every variant the schemas list that this check has no op for, after everything has started / ended
    unknown_surface(ses, sut);
    // everything is over: purge (anyone may), shuffle, burn the rest — still no schedule change
    for what in ["purge", "shuffle", "burn", "purge"] {
        do_step(ses, sut, &format!("menv what={what} arg=0 sender={}", if what == "purge" { 25 } else { ADMIN }));
    }
    battery(ses, sut, g, false);
    ses.end_case();
}

/// random walk: real schedule changes, whitelist edits and swaps (also to kinds the minter cannot read)
fn random_case(ses: &mut Session, sut: &mut S, g: &mut Gen, v: usize, steps: u64) {
    let kind = variant_kind(v);
    let tm = kind == MinterKind::TokenMerge;
    let t0 = GENESIS + if g.rng.chance(1, 10) { 0 } else { 5_000_000 + g.rng.below(100_000) };
    let denom = if g.rng.chance(1, 5) { 1 } else { 0 };
    let minp: u128 = *g.rng.pick(&[0u128, 50_000_000, 60_000_500]);
    let airp: u128 = *g.rng.pick(&[0u128, 0, 3_000_000]);
    ses.begin_case(sut, &format!("{} random", header(v, t0, denom, minp, airp, 40)));
    let s = t0 + 500 + g.rng.below(1500);
    // a pool of whitelists of several kinds
    let compatible: Vec<WlKind> = if kind.is_flex() {
        vec![WlKind::Flex, WlKind::TieredFlex]
    } else if kind.is_merkle() {
        vec![WlKind::Merkle, WlKind::TieredMerkle, WlKind::Plain, WlKind::Tiered]
    } else {
        vec![WlKind::Plain, WlKind::Tiered]
    };
    let nwl = if tm { 0 } else { 2 + g.rng.below(3) };
    for k in 1..=nwl {
        let wk = if g.rng.chance(3, 4) { *g.rng.pick(&compatible) } else { *g.rng.pick(&ALL_WL) };
        let shape = g.rng.below(8);
        let shift = g.rng.below(40);
        let wins: Vec<(u64, u64)> = windows(shape, s).iter().map(|(a, b)| (a + shift, b + shift)).collect();
        let wd = if g.rng.chance(1, 10) { 1 - denom } else { denom };
        let bp = *g.rng.pick(&[60_000_000u128, 50_000_000, 49_999_999, 0, 120_000_000]);
        let l = wl_line(k, wk, wd, &wins, bp, &mut g.rng);
        do_step(ses, sut, &l);
    }
    let oe = kind.is_open_edition();
    // creation itself probes the instantiate-time checks: start at now-1 / now / now+1 / genesis-ish, active whitelist
    for attempt in 0..4 {
        let start = match if attempt < 2 { g.rng.below(8) } else { 7 } {
            0 => t0 - 1,
            1 => t0,
            2 => t0 + 1,
            3 => GENESIS - 1,
            4 => GENESIS,
            _ => s,
        };
        let end = if oe {
            match g.rng.below(6) {
                0 => "-".to_string(),
                1 => start.to_string(),
                2 => (start + 1).to_string(),
                3 => (start.saturating_sub(1)).to_string(),
                _ => (start + 300 + g.rng.below(1500)).to_string(),
            }
        } else {
            "-".into()
        };
        let ntok = if oe && g.rng.chance(1, 3) { "-".to_string() } else { (3 + g.rng.below(40)).to_string() };
        let wl = if nwl > 0 && g.rng.chance(2, 3) { (1 + g.rng.below(nwl)).to_string() } else { "-".into() };
        let price: u128 = if tm { 0 } else { *g.rng.pick(&[100_000_000u128, 60_000_500, 50_000_000, 49_999_999, 0]) };
        let limit = 1 + g.rng.below(3);
        let line = if attempt == 3 {
            // last resort: a plainly valid creation so that the walk has a minter
            format!("create sender={ADMIN} start={s} end={} wl=- price={} limit={limit} ntok=20", if oe { (s + 900).to_string() } else { "-".into() }, if tm { 0 } else { 100_000_000u128 })
        } else {
            format!("create sender={ADMIN} start={start} end={end} wl={wl} price={price} limit={limit} ntok={ntok}")
        };
        let out = do_step(ses, sut, &line);
        if out.starts_with("ok") {
            break;
        }
    }
    for _ in 0..steps {
        let snap = sut.snap();
        let now = snap.now;
        let inst = interesting_instants(sut);
        match g.rng.below(15) {
            12 => extra_surface(ses, sut, g),
            0 | 1 | 2 => {
                // clock: next boundary-ish instant, or a jump
                let mut cands: Vec<u64> = inst.iter().flat_map(|t| [t.saturating_sub(1), *t, t + 1]).filter(|t| *t > now).collect();
                cands.sort();
                let t = if !cands.is_empty() && g.rng.chance(3, 4) { cands[(g.rng.below(3) as usize).min(cands.len() - 1)] } else { now + 1 + g.rng.below(400) };
                do_step(ses, sut, &format!("t now={t}"));
            }
            3 | 4 => {
                let heavy = g.rng.chance(1, 2);
                battery(ses, sut, g, heavy)
            }
            5 => {
                // real start update around every boundary
                let mut c: Vec<u64> = vec![now.saturating_sub(1), now, now + 1, GENESIS - 1, GENESIS, snap.start + 1, snap.start.saturating_sub(1)];
                if let Some(e) = snap.end {
                    c.extend([e - 1, e, e + 1]);
                }
                for t in &inst {
                    c.extend([t.saturating_sub(1), *t, t + 1]);
                }
                let t = *g.rng.pick(&c);
                let who = if g.rng.chance(1, 12) { 22 } else { ADMIN };
                do_step(ses, sut, &format!("upd_start sender={who} t={t}"));
            }
            6 => {
                let mut c: Vec<u64> = vec![now.saturating_sub(1), now, now + 1, snap.start.saturating_sub(1), snap.start, snap.start + 1, now + 500];
                if let Some(e) = snap.end {
                    c.extend([e - 1, e, e + 1]);
                }
                let t = *g.rng.pick(&c);
                let who = if g.rng.chance(1, 12) { 22 } else { ADMIN };
                do_step(ses, sut, &format!("upd_end sender={who} t={t}"));
            }
            7 | 8 => {
                if nwl > 0 {
                    let k = if g.rng.chance(1, 15) { 77 } else { 1 + g.rng.below(nwl) };
                    let who = if g.rng.chance(1, 12) { 23 } else { ADMIN };
                    do_step(ses, sut, &format!("set_wl sender={who} wl={k}"));
                }
            }
            9 | 10 => {
                // whitelist admin edits (environment for this property)
                if nwl > 0 {
                    let k = 1 + g.rng.below(nwl);
                    if let Some(info) = sut.wls.get(&k).cloned() {
                        if info.stages.is_empty() {
                            continue;
                        }
                        let si = g.rng.below(info.stages.len() as u64);
                        let st = &info.stages[si as usize];
                        let near = [now.saturating_sub(1), now, now + 1, now + 50, st.start + 1, st.end.saturating_sub(1), st.end + 1, snap.start, snap.start + 1];
                        match g.rng.below(5) {
                            4 => {
                                // stage surgery (list-based tiered kinds): drop a later stage, or append one with a new member list
                                if matches!(info.kind, WlKind::Tiered | WlKind::TieredFlex) {
                                    if info.stages.len() > 1 && g.rng.chance(1, 2) {
                                        do_step(ses, sut, &format!("wl_rmstage k={k} stage={}", 1 + g.rng.below(info.stages.len() as u64 - 1)));
                                    } else {
                                        let last = info.stages.last().map(|s| s.end).unwrap_or(now);
                                        let a = last.max(now) + g.rng.below(60);
                                        let b = a + 1 + g.rng.below(300);
                                        let mut ms: Vec<String> = vec![];
                                        for m in MEMBERS.iter().chain(OUTSIDERS.iter()) {
                                            if g.rng.chance(1, 2) {
                                                ms.push(format!("{m}:{}", 1 + g.rng.below(3)));
                                            }
                                        }
                                        let mem = if ms.is_empty() { "-".to_string() } else { ms.join(",") };
                                        do_step(ses, sut, &format!("wl_addstage k={k} start={a} end={b} price={} per={} mem={mem}", 60_000_000 + g.rng.below(5) * 1000, 1 + g.rng.below(3)));
                                    }
                                }
                            }
                            0 | 1 => {
                                if is_tiered(info.kind) {
                                    let a = *g.rng.pick(&near);
                                    let b = a + 1 + g.rng.below(300);
                                    do_step(ses, sut, &format!("wl_stage k={k} stage={si} start={a} end={b}"));
                                } else {
                                    let which = if g.rng.chance(1, 2) { "start" } else { "end" };
                                    do_step(ses, sut, &format!("wl_time k={k} which={which} t={}", g.rng.pick(&near)));
                                }
                            }
                            2 => {
                                let a = if g.rng.chance(1, 2) { *g.rng.pick(&OUTSIDERS) } else { *g.rng.pick(&MEMBERS) };
                                do_step(ses, sut, &format!("wl_add k={k} stage={si} a={a} c={}", 1 + g.rng.below(3)));
                            }
                            _ => {
                                let a = *g.rng.pick(&MEMBERS);
                                do_step(ses, sut, &format!("wl_rm k={k} stage={si} a={a}"));
                            }
                        }
                    }
                }
            }
            11 => {
                // any other minter message (environment for this property; must not move the schedule)
                let (what, arg): (&str, u128) = match g.rng.below(12) {
                    0 | 1 => ("upd_price", *g.rng.pick(&[50_000_000u128, 70_000_000, 100_000_001, 49_999_999, 150_000_000])),
                    2 => ("upd_limit", 1 + g.rng.below(4) as u128),
                    3 => ("purge", 0),
                    4 => ("shuffle", 0),
                    5 => ("trading", (now + g.rng.below(5000)) as u128),
                    6 | 7 => ("discount", *g.rng.pick(&[55_000_000u128, 90_000_000, 50_000_000])),
                    8 => ("rm_discount", 0),
                    9 => ("status", g.rng.below(8) as u128),
                    10 => if g.rng.chance(1, 4) { ("burn", 0) } else { ("upd_limit", 2) },
                    _ => ("upd_price", snap.price.1.saturating_sub(1)),
                };
                let who = if g.rng.chance(1, 10) { 24 } else { ADMIN };
                do_step(ses, sut, &format!("menv what={what} arg={arg} sender={who}"));
            }
            _ => {
                // a burst of mints by one buyer (runs into the per-address limits)
                if !tm {
                    let b = *g.rng.pick(&MEMBERS);
                    for _ in 0..(1 + g.rng.below(3)) {
                        let cur = current_price(sut);
                        let l = mint_line(sut, b, &funds_str(cur), 0);
                        do_step(ses, sut, &l);
                    }
                } else {
                    let b = *g.rng.pick(&MEMBERS);
                    for _ in 0..(1 + g.rng.below(3)) {
                        do_step(ses, sut, &format!("deposit sender={b} rcpt=-"));
                    }
                }
            }
        }
    }
    ses.end_case();
}

/// instantiate-time checks at exact instants: the minter is created at t-1 / t / t+1 of a whitelist edge (with that
/// whitelist attached), or with its start at now-1 / now / now+1 / genesis-1 / genesis / genesis+1
fn create_boundary_case(ses: &mut Session, sut: &mut S, g: &mut Gen, v: usize, wk: WlKind, pos: u64) {
    let kind = variant_kind(v);
    let oe = kind.is_open_edition();
    let tm = kind == MinterKind::TokenMerge;
    let early = pos >= 12; // the clock is before genesis
    let t0 = if early { GENESIS - 50 } else { GENESIS + 1_000_000 + g.rng.below(1000) * 3 };
    ses.begin_case(sut, &format!("{} create-boundary wk={} pos={}", header(v, t0, 0, 50_000_000, if oe { 5_000_000 } else { 0 }, 60), wl_kind_idx(wk), pos));
    let base = t0.max(GENESIS) + 1000;
    let wins = vec![(base, base + 200), (base + 200, base + 300)];
    if !tm {
        let l = wl_line(1, wk, 0, &wins, 60_000_000, &mut g.rng);
        do_step(ses, sut, &l);
    }
    let price = if tm { 0 } else { 100_000_000u128 };
    let wl = if tm { "-" } else { "1" };
    let edges = interesting_instants(sut);
    if pos < 12 && !edges.is_empty() {
        // at a whitelist edge
        let e = edges[(pos / 3) as usize % edges.len()];
        let now = e - 1 + pos % 3;
        do_step(ses, sut, &format!("t now={now}"));
        let start = now + 5000;
        let end = if oe { (start + 100).to_string() } else { "-".into() };
        do_step(ses, sut, &format!("create sender={ADMIN} start={start} end={end} wl={wl} price={price} limit=2 ntok=20"));
    } else {
        let now = sut.w.time();
        let start = match pos % 6 {
            0 => now - 1,
            1 => now,
            2 => now + 1,
            3 => GENESIS - 1,
            4 => GENESIS,
            _ => GENESIS + 1,
        };
        let end = if oe {
            match g.rng.below(4) {
                0 => start.to_string(),
                1 => (start + 1).to_string(),
                2 => (start - 1).to_string(),
                _ => (start + 500).to_string(),
            }
        } else {
            "-".into()
        };
        do_step(ses, sut, &format!("create sender={ADMIN} start={start} end={end} wl=- price={price} limit=2 ntok=20"));
    }
    // if it exists, probe the genesis bound of the start update from before genesis
    if sut.minter.is_some() {
        for t in [GENESIS - 1, GENESIS, GENESIS + 1] {
            if t >= sut.w.time() {
                do_step(ses, sut, &format!("upd_start sender={ADMIN} t={t}"));
            }
        }
        battery(ses, sut, g, false);
        if early {
            // walk across genesis
            for t in [GENESIS - 1, GENESIS, GENESIS + 1] {
                do_step(ses, sut, &format!("t now={t}"));
                battery(ses, sut, g, false);
            }
        }
    }
    ses.end_case();
}

// ------------------------------------------------------------------------------------------------ floor cases (deterministic)

/// fresh buyers: every probe of a floor case uses an address that has never minted (no per-address limit can interfere)
struct Fresh {
    m: u64,
    o: u64,
}
const FM0: u64 = 40; // fresh members 40..90 (on the whitelists), fresh outsiders 90..140 (on none)
const FM1: u64 = 90;
impl Fresh {
    fn new() -> Fresh {
        Fresh { m: FM0, o: FM1 }
    }
    /// a fresh member of stage `si` of `n` stages (members are dealt to the stages round-robin by id)
    fn member(&mut self, si: usize, n: usize) -> u64 {
        loop {
            let c = self.m;
            self.m += 1;
            assert!(c < FM1, "floor case ran out of fresh members");
            if (c as usize) % n.max(1) == si {
                return c;
            }
        }
    }
    fn outsider(&mut self) -> u64 {
        let c = self.o;
        self.o += 1;
        assert!(c < 140, "floor case ran out of fresh outsiders");
        c
    }
}
fn okerr(out: &str) -> &'static str {
    if out.starts_with("ok") {
        "ok"
    } else {
        "err"
    }
}
fn fl(ses: &mut Session, sut: &S, tag: &str, what: &str, out: &str) {
    ses.mark(format!("fl:v{}:{}:{}:{}", sut.vidx, tag, what, okerr(out)));
}
/// whitelist for a floor case: every stage lists MEMBERS and its share of the fresh members; `big`: stage 0 of a list kind
/// also holds 120 filler members and `BIG`, whose address sorts after all of them (position > 100: beyond every page)
fn floor_wl_line(k: u64, kind: WlKind, wins: &[(u64, u64)], base_price: u128, big: bool) -> String {
    if kind == WlKind::Immutable {
        return format!("wl k={k} kind={} denom=0 st=- mem=- lv=-", wl_kind_idx(kind));
    }
    let n = if is_tiered(kind) { wins.len().min(3) } else { 1 };
    let (mut st, mut mem, mut lv) = (vec![], vec![], vec![]);
    for i in 0..n {
        let (a, b) = wins[i];
        let per = if is_flex(kind) { 0 } else { 2 };
        st.push(format!("{a}:{b}:{}:{per}:x", base_price + 1000 * i as u128));
        let mut ms: Vec<u64> = MEMBERS.to_vec();
        ms.extend((FM0..FM1).filter(|m| (*m as usize) % n == i));
        if big && i == 0 && !is_merkle(kind) {
            ms.extend(FILLER0..FILLER0 + NFILL);
            ms.push(BIG);
        }
        if is_merkle(kind) {
            let mut leaves: Vec<String> = vec![format!("x:{}:x", 9000 + 10 * k + i as u64)];
            leaves.extend(ms.iter().map(|m| format!("x:{m}:x")));
            lv.push(leaves.join(","));
            mem.push("-".to_string());
        } else {
            mem.push(ms.iter().map(|m| format!("{m}:{}", if is_flex(kind) { 2 } else { 0 })).collect::<Vec<_>>().join(","));
            lv.push("-".to_string());
        }
    }
    format!("wl k={k} kind={} denom=0 st={} mem={} lv={}", wl_kind_idx(kind), st.join(";"), mem.join(";"), lv.join(";"))
}
/// a mint by `buyer` paying what the harness's own record says is due now (Merkle minters: with the path of the buyer's own
/// leaf in the tree in force, an outsider with somebody else's path)
fn probe_mint(ses: &mut Session, sut: &mut S, buyer: u64) -> String {
    let f = funds_str(current_price(sut));
    let l = mint_line(sut, buyer, &f, 0);
    do_step(ses, sut, &l)
}
/// a token id the COLLECTION does not know yet (generator convenience for `MintFor`)
fn free_token(sut: &S) -> u64 {
    let Some(c) = &sut.coll else { return 1 };
    for t in 1..=400u64 {
        if sut.w.query(c, &json!({"owner_of": {"token_id": t.to_string()}})).is_err() {
            return t;
        }
    }
    1
}
fn airdrop_funds(sut: &S) -> String {
    if sut.airp == 0 {
        "-".to_string()
    } else {
        format!("{}:{}", sut.denom, sut.airp)
    }
}
const TRIPLE: [(i64, &str); 3] = [(-1, "m1"), (0, "0"), (1, "p1")];
fn at(t: u64, d: i64) -> u64 {
    (t as i64 + d) as u64
}
/// minters that can mint through a LIST-based tiered whitelist: plain dialect ↔ tiered-whitelist, flex dialect ↔ tiered-whitelist-flex
fn rebuild_pairs() -> Vec<(usize, WlKind)> {
    vec![(0, WlKind::Tiered), (1, WlKind::Tiered), (6, WlKind::Tiered), (2, WlKind::TieredFlex), (3, WlKind::TieredFlex), (7, WlKind::TieredFlex)]
}
fn compat_kinds(v: usize) -> Vec<WlKind> {
    if v == 9 {
        vec![WlKind::Plain]
    } else if variant_kind(v).is_flex() {
        vec![WlKind::Flex, WlKind::TieredFlex]
    } else if variant_kind(v).is_merkle() {
        vec![WlKind::Merkle, WlKind::TieredMerkle]
    } else {
        vec![WlKind::Plain, WlKind::Tiered]
    }
}

/// Floor case: the boundary triples (−1 ns / 0 / +1 ns) of the whitelist start, the stage hand-over, the whitelist end, the
/// mint start and the open-edition end, each probed by a FRESH buyer paying the price the harness's own record demands, with a
/// supply of 400. Layout A: whitelist window entirely before the start. Layout B: the window straddles the start and outlives
/// the open-edition end. Every decisive outcome is marked `fl:v<v>:<layout><whitelist kind>:…` and REQUIRED by `main`.
fn floor_case(ses: &mut Session, sut: &mut S, v: usize, wk: WlKind, overlap: bool) {
    let kind = variant_kind(v);
    let oe = kind.is_open_edition();
    let tm = kind == MinterKind::TokenMerge;
    let t0 = GENESIS + 10_000_000;
    let s = t0 + 10_000;
    let e = s + 4_000;
    let airp: u128 = if oe { 5_000_000 } else { 0 };
    let tag = format!("{}{}", if overlap { "B" } else { "A" }, wl_kind_idx(wk));
    ses.begin_case(sut, &format!("{} floor lay={tag}", header(v, t0, 0, 50_000_000, airp, 500)));
    let tiered = is_tiered(wk);
    let wins: Vec<(u64, u64)> = match (overlap, tiered) {
        (true, true) => vec![(s - 1000, s + 500), (s + 500, e + 300)],
        (true, false) => vec![(s - 1000, e + 300)],
        (false, true) => vec![(s - 3000, s - 2500), (s - 2500, s - 2000)],
        (false, false) => vec![(s - 3000, s - 2000)],
    };
    let n = if tiered { wins.len() } else { 1 };
    let li = n - 1;
    let mut fr = Fresh::new();
    if !tm {
        let wins2: Vec<(u64, u64)> = wins.iter().map(|(a, b)| (a + 10, b - 10)).collect();
        do_step(ses, sut, &floor_wl_line(1, wk, &wins, 60_000_000, true));
        do_step(ses, sut, &floor_wl_line(2, wk, &wins2, 61_000_000, false));
    }
    let end = if oe { e.to_string() } else { "-".into() };
    let price = if tm { 0 } else { 100_000_000u128 };
    let out = do_step(ses, sut, &format!("create sender={ADMIN} start={s} end={end} wl={} price={price} limit=3 ntok=400", if tm { "-" } else { "1" }));
    fl(ses, sut, &tag, "create", &out);
    if tm {
        for (d, r) in TRIPLE {
            do_step(ses, sut, &format!("t now={}", at(s, d)));
            let b = fr.outsider();
            let out = do_step(ses, sut, &format!("deposit sender={b} rcpt=-"));
            fl(ses, sut, &tag, &format!("deposit:start:{r}"), &out);
            let out = do_step(ses, sut, &format!("upd_start sender={ADMIN} t={}", if d < 0 { s } else { s + 10 }));
            fl(ses, sut, &tag, &format!("upd_start:start:{r}"), &out);
            let out = do_step(ses, sut, &format!("mint_to sender={ADMIN} rcpt={} funds=-", fr.outsider()));
            fl(ses, sut, &tag, &format!("mint_to:start:{r}"), &out);
            if d == -1 {
                let out = do_step(ses, sut, &format!("menv what=migrate ver=0.1.0 arg=0 sender={ADMIN}"));
                fl(ses, sut, &tag, "migrate:before-start", &out_ok(sut, &out));
            }
            if d == 0 {
                let out = do_step(ses, sut, &format!("mint_for sender={ADMIN} rcpt={} token={} funds=-", fr.outsider(), free_token(sut)));
                fl(ses, sut, &tag, "mint_for:start:0", &out);
            }
        }
        let out = do_step(ses, sut, &format!("menv what=migrate ver=same arg=0 sender={ADMIN}"));
        fl(ses, sut, &tag, "migrate:after-start", &out_ok(sut, &out));
        do_step(ses, sut, "fsudo minp=50000000 airp=3000000");
        unknown_surface(ses, sut);
        ses.end_case();
        return;
    }
    let list_kind = !is_merkle(wk);
    if !overlap {
        // ---- whitelist start
        for (d, r) in TRIPLE {
            do_step(ses, sut, &format!("t now={}", at(wins[0].0, d)));
            let m = fr.member(0, n);
            let out = probe_mint(ses, sut, m);
            fl(ses, sut, &tag, &format!("mint:member:wls:{r}"), &out);
            if d == -1 {
                let out = do_step(ses, sut, &format!("set_wl sender={ADMIN} wl=2"));
                fl(ses, sut, &tag, "set_wl:wls:m1", &out);
                do_step(ses, sut, &format!("set_wl sender={ADMIN} wl=1"));
            }
            if d == 0 {
                let o = fr.outsider();
                let out = probe_mint(ses, sut, o);
                fl(ses, sut, &tag, "mint:outsider:wlactive", &out);
                let m2 = fr.member(0, n);
                let l = mint_line(sut, m2, "0:100000000", 0);
                let out = do_step(ses, sut, &l);
                fl(ses, sut, &tag, "mint:member-pubprice:wlactive", &out);
                if list_kind {
                    let out = probe_mint(ses, sut, BIG);
                    fl(ses, sut, &tag, "mint:member101:wlactive", &out);
                }
                let out = do_step(ses, sut, &format!("set_wl sender={ADMIN} wl=2"));
                fl(ses, sut, &tag, "set_wl:wls:0", &out);
                let out = do_step(ses, sut, &format!("upd_start sender={ADMIN} t={s}"));
                fl(ses, sut, &tag, "upd_start:wlactive", &out);
            }
        }
        // ---- stage hand-over (touching stages; which one wins is the whitelist's business — no requirement, monitors only)
        if tiered {
            for (d, r) in TRIPLE {
                do_step(ses, sut, &format!("t now={}", at(wins[0].1, d)));
                let m0 = fr.member(0, n);
                let out = probe_mint(ses, sut, m0);
                fl(ses, sut, &tag, &format!("mint:stage0-member:handover:{r}"), &out);
                let m1 = fr.member(1, n);
                let out = probe_mint(ses, sut, m1);
                fl(ses, sut, &tag, &format!("mint:stage1-member:handover:{r}"), &out);
            }
        }
        // ---- whitelist end
        for (d, r) in TRIPLE {
            do_step(ses, sut, &format!("t now={}", at(wins[li].1, d)));
            let m = fr.member(li, n);
            let out = probe_mint(ses, sut, m);
            fl(ses, sut, &tag, &format!("mint:member:wle:{r}"), &out);
        }
    } else {
        do_step(ses, sut, &format!("t now={}", wins[0].0));
        let m = fr.member(0, n);
        let out = probe_mint(ses, sut, m);
        fl(ses, sut, &tag, "mint:member:wls:0", &out);
    }
    // ---- mint start (layout B: while the whitelist is active)
    for (d, r) in TRIPLE {
        do_step(ses, sut, &format!("t now={}", at(s, d)));
        if overlap {
            let m = fr.member(0, n);
            let out = probe_mint(ses, sut, m);
            fl(ses, sut, &tag, &format!("mint:wl:start:{r}"), &out);
            let o = fr.outsider();
            let out = probe_mint(ses, sut, o);
            fl(ses, sut, &tag, &format!("mint:outsider:start:{r}"), &out);
        } else {
            let o = fr.outsider();
            let out = probe_mint(ses, sut, o);
            fl(ses, sut, &tag, &format!("mint:pub:start:{r}"), &out);
        }
        let out = do_step(ses, sut, &format!("upd_start sender={ADMIN} t={}", if d < 0 { s } else { s + 10 }));
        fl(ses, sut, &tag, &format!("upd_start:start:{r}"), &out);
        let out = do_step(ses, sut, &format!("set_wl sender={ADMIN} wl=2"));
        fl(ses, sut, &tag, &format!("set_wl:start:{r}"), &out);
        if out.starts_with("ok") {
            do_step(ses, sut, &format!("set_wl sender={ADMIN} wl=1"));
        }
        let out = do_step(ses, sut, &format!("mint_to sender={ADMIN} rcpt={} funds={}", fr.outsider(), airdrop_funds(sut)));
        fl(ses, sut, &tag, &format!("mint_to:start:{r}"), &out);
        if d == -1 {
            let out = do_step(ses, sut, &format!("menv what=migrate ver=0.1.0 arg=0 sender={ADMIN}"));
            fl(ses, sut, &tag, "migrate:before-start", &out_ok(sut, &out));
        }
        if d == 0 {
            let out = do_step(ses, sut, &format!("mint_for sender={ADMIN} rcpt={} token={} funds={}", fr.outsider(), free_token(sut), airdrop_funds(sut)));
            fl(ses, sut, &tag, "mint_for:start:0", &out);
        }
    }
    // ---- the end instant (open edition: the gate; vending: nothing happens there)
    for (d, r) in TRIPLE {
        do_step(ses, sut, &format!("t now={}", at(e, d)));
        if overlap {
            let m = fr.member(li, n);
            let out = probe_mint(ses, sut, m);
            fl(ses, sut, &tag, &format!("mint:wl:end:{r}"), &out);
        } else {
            let o = fr.outsider();
            let out = probe_mint(ses, sut, o);
            fl(ses, sut, &tag, &format!("mint:pub:end:{r}"), &out);
        }
        let out = do_step(ses, sut, &format!("mint_to sender={ADMIN} rcpt={} funds={}", fr.outsider(), airdrop_funds(sut)));
        fl(ses, sut, &tag, &format!("mint_to:end:{r}"), &out);
        let out = do_step(ses, sut, &format!("upd_end sender={ADMIN} t={}", if d < 0 { e } else { e + 10 }));
        fl(ses, sut, &tag, &format!("upd_end:end:{r}"), &out);
    }
    let out = do_step(ses, sut, &format!("menv what=migrate ver=same arg=0 sender={ADMIN}"));
    fl(ses, sut, &tag, "migrate:after-start", &out_ok(sut, &out));
    do_step(ses, sut, &format!("menv what=migrate ver=99.0.0 arg=0 sender={ADMIN}"));
    do_step(ses, sut, "fsudo minp=50000000 airp=3000000");
    do_step(ses, sut, &format!("mint_to sender={ADMIN} rcpt={} funds={}", fr.outsider(), airdrop_funds(sut)));
    unknown_surface(ses, sut);
    ses.end_case();
}
/// did the last `menv` message go through? (its protocol answer is `env …` either way; the monitor record knows)
fn out_ok(sut: &S, _out: &str) -> String {
    if sut.last.as_ref().map_or(false, |r| r.ok) {
        "ok".into()
    } else {
        "err".into()
    }
}

/// an update BETWEEN two calls in the same block: `UpdateStartTime(now)` opens the sale at once, `UpdateEndTime(now)` closes
/// an open edition at once; both are final afterwards
fn seq_case(ses: &mut Session, sut: &mut S, v: usize) {
    let kind = variant_kind(v);
    let oe = kind.is_open_edition();
    let tm = kind == MinterKind::TokenMerge;
    let t0 = GENESIS + 20_000_000;
    let s = t0 + 5_000;
    let e = s + 3_000;
    let tag = "seq";
    ses.begin_case(sut, &format!("{} floor seq", header(v, t0, 0, 50_000_000, if oe { 5_000_000 } else { 0 }, 500)));
    let mut fr = Fresh::new();
    let end = if oe { e.to_string() } else { "-".into() };
    do_step(ses, sut, &format!("create sender={ADMIN} start={s} end={end} wl=- price={} limit=3 ntok=400", if tm { 0 } else { 100_000_000u128 }));
    let now = t0 + 100;
    do_step(ses, sut, &format!("t now={now}"));
    let b = fr.outsider();
    let buy = |ses: &mut Session, sut: &mut S, b: u64| -> String {
        if tm {
            do_step(ses, sut, &format!("deposit sender={b} rcpt=-"))
        } else {
            probe_mint(ses, sut, b)
        }
    };
    let out = buy(ses, sut, b);
    fl(ses, sut, tag, "mint-before", &out);
    let out = do_step(ses, sut, &format!("upd_start sender={ADMIN} t={now}"));
    fl(ses, sut, tag, "upd_start-now", &out);
    let out = buy(ses, sut, b);
    fl(ses, sut, tag, "mint-after-upd_start-now", &out);
    let out = do_step(ses, sut, &format!("upd_start sender={ADMIN} t={}", now + 5));
    fl(ses, sut, tag, "upd_start-after-start", &out);
    if tm {
        do_step(ses, sut, &format!("t now={}", now + 1));
        let out = buy(ses, sut, b);
        fl(ses, sut, tag, "deposit-next-ns", &out);
    }
    if oe {
        let now = t0 + 200;
        do_step(ses, sut, &format!("t now={now}"));
        let b2 = fr.outsider();
        let out = buy(ses, sut, b2);
        fl(ses, sut, tag, "mint-before-upd_end", &out);
        let out = do_step(ses, sut, &format!("upd_end sender={ADMIN} t={now}"));
        fl(ses, sut, tag, "upd_end-now", &out);
        let out = buy(ses, sut, b2);
        fl(ses, sut, tag, "mint-after-upd_end-now", &out);
        let out = do_step(ses, sut, &format!("mint_to sender={ADMIN} rcpt={} funds={}", fr.outsider(), airdrop_funds(sut)));
        fl(ses, sut, tag, "mint_to-after-upd_end-now", &out);
        let out = do_step(ses, sut, &format!("upd_end sender={ADMIN} t={}", now + 50));
        fl(ses, sut, tag, "upd_end-after-end", &out);
    }
    ses.end_case();
}

/// replay of `C04_attach_before_start_counterexample` on the real minters: creation with `start_time = now` and a whitelist
/// (vending family: accepted — the whitelist is attached AT the start instant; open edition: refused, `start > now` needed)
fn attach_case(ses: &mut Session, sut: &mut S, v: usize) {
    let kind = variant_kind(v);
    let oe = kind.is_open_edition();
    let t0 = GENESIS + 30_000_000;
    let tag = "attach";
    ses.begin_case(sut, &format!("{} floor attach", header(v, t0, 0, 50_000_000, if oe { 5_000_000 } else { 0 }, 500)));
    let wk = compat_kinds(v)[0];
    let mut fr = Fresh::new();
    do_step(ses, sut, &floor_wl_line(1, wk, &[(t0 + 1000, t0 + 2000)], 60_000_000, false));
    do_step(ses, sut, &floor_wl_line(2, wk, &[(t0 + 1010, t0 + 1990)], 61_000_000, false));
    let end = if oe { (t0 + 3000).to_string() } else { "-".into() };
    let out = do_step(ses, sut, &format!("create sender={ADMIN} start={t0} end={end} wl=1 price=100000000 limit=3 ntok=400"));
    fl(ses, sut, tag, "create:wl:start-eq-now", &out);
    if !out.starts_with("ok") {
        let out = do_step(ses, sut, &format!("create sender={ADMIN} start={} end={end} wl=1 price=100000000 limit=3 ntok=400", t0 + 1));
        fl(ses, sut, tag, "create:wl:start-eq-now-plus-1", &out);
    }
    let out = do_step(ses, sut, &format!("set_wl sender={ADMIN} wl=2"));
    fl(ses, sut, tag, "set_wl-right-after-create", &out);
    let o = fr.outsider();
    let out = probe_mint(ses, sut, o);
    fl(ses, sut, tag, "mint-right-after-create", &out);
    // later the whitelist opens although the public sale is running: whitelist rules take over (property: "while active …")
    do_step(ses, sut, &format!("t now={}", t0 + 1500));
    let m = fr.member(0, 1);
    let out = probe_mint(ses, sut, m);
    fl(ses, sut, tag, "mint:member:wl-opens-after-start", &out);
    let o = fr.outsider();
    let out = probe_mint(ses, sut, o);
    fl(ses, sut, tag, "mint:outsider:wl-opens-after-start", &out);
    ses.end_case();
}

/// model hypothesis `WlKind.isMerkle`: a LIST whitelist can never report `member_limit == 0 && num_members == 0` (which is
/// how the Merkle minters recognise a Merkle whitelist) — every list whitelist refuses `member_limit = 0` at instantiation
fn hyp_case(ses: &mut Session, sut: &mut S) {
    let t0 = GENESIS + 40_000_000;
    ses.begin_case(sut, &format!("{} floor hyp", header(4, t0, 0, 50_000_000, 0, 500)));
    for (k, wk) in [WlKind::Plain, WlKind::Flex, WlKind::Tiered, WlKind::TieredFlex].iter().enumerate() {
        let st = format!("{}:{}:60000000:{}:x", t0 + 1000, t0 + 2000, if is_flex(*wk) { 0 } else { 1 });
        let out = {
            let line = format!("wl k={} kind={} denom=0 st={st} mem=- lv=- ml=0", k + 1, wl_kind_idx(*wk));
            do_step(ses, sut, &line);
            sut.wls.contains_key(&(k as u64 + 1))
        };
        ses.mark(format!("hyp:list-wl-member-limit-0:{}:{}", if out { "ACCEPTED" } else { "refused" }, wl_kind_idx(*wk)));
    }
    // if one was accepted the Merkle minter would treat it as a Merkle whitelist: let the correspondence see it
    if !sut.wls.is_empty() {
        let k = *sut.wls.keys().next().unwrap();
        do_step(ses, sut, &format!("create sender={ADMIN} start={} end=- wl={k} price=100000000 limit=3 ntok=50", t0 + 3000));
        do_step(ses, sut, &format!("t now={}", t0 + 1500));
        probe_mint(ses, sut, 20);
    }
    ses.end_case();
}

/// Whitelist-admin surgery between attach and mint (seeded change C04-3): a 3-stage list-based tiered whitelist is attached;
/// before it starts its admin removes stage 1 (which drops stage 2 too) and re-adds two stages with NEW member lists that omit
/// an old member of each dropped stage, then edits them with AddMembers / RemoveMembers. Membership truth is the harness's
/// own ghost (what it sent and saw accepted per stage index; a removed stage's ghost goes with all later ones): during a
/// rebuilt stage an omitted old member must be refused, a listed one accepted.
fn rebuild_case(ses: &mut Session, sut: &mut S, v: usize, wk: WlKind) {
    let kind = variant_kind(v);
    let oe = kind.is_open_edition();
    let t0 = GENESIS + 50_000_000;
    let s = t0 + 10_000;
    let tag = format!("rebuild{}", wl_kind_idx(wk));
    ses.begin_case(sut, &format!("{} floor rebuild", header(v, t0, 0, 50_000_000, if oe { 5_000_000 } else { 0 }, 500)));
    let wins = vec![(s - 3000, s - 2600), (s - 2500, s - 2100), (s - 2000, s - 1600)];
    do_step(ses, sut, &floor_wl_line(1, wk, &wins, 60_000_000, false));
    let end = if oe { (s + 4000).to_string() } else { "-".into() };
    let out = do_step(ses, sut, &format!("create sender={ADMIN} start={s} end={end} wl=1 price=100000000 limit=3 ntok=400"));
    fl(ses, sut, &tag, "create", &out);
    let flex = is_flex(wk);
    let per = if flex { 0 } else { 2 };
    let old = |i: usize| -> Vec<u64> { (FM0..FM1).filter(|m| (*m as usize) % 3 == i).collect() };
    let (old1, old2) = (old(1), old(2));
    // the old members that the rebuilt lists OMIT, and brand-new members
    let (y, x) = (old1[0], old2[0]);
    let (z, w, late) = (95u64, 96u64, 97u64);
    let fmt = |ms: &[u64]| ms.iter().map(|m| format!("{m}:{}", if flex { 2 } else { 0 })).collect::<Vec<_>>().join(",");
    let new1: Vec<u64> = old1[1..].iter().cloned().chain([z]).collect();
    let new2: Vec<u64> = old2[1..].iter().cloned().chain([w]).collect();
    let out = do_step(ses, sut, "wl_rmstage k=1 stage=1");
    let _ = out;
    fl(ses, sut, &tag, "rmstage", if sut.wls.get(&1).map_or(false, |i| i.stages.len() == 1) { "ok" } else { "err" });
    do_step(ses, sut, &format!("wl_addstage k=1 start={} end={} price=62000000 per={per} mem={}", wins[1].0, wins[1].1, fmt(&new1)));
    do_step(ses, sut, &format!("wl_addstage k=1 start={} end={} price=63000000 per={per} mem={}", wins[2].0, wins[2].1, fmt(&new2)));
    fl(ses, sut, &tag, "addstage", if sut.wls.get(&1).map_or(false, |i| i.stages.len() == 3) { "ok" } else { "err" });
    // edits of the rebuilt last stage: one more member in, one listed member out
    do_step(ses, sut, &format!("wl_add k=1 stage=2 a={late} c=2"));
    let gone = new2[0];
    do_step(ses, sut, &format!("wl_rm k=1 stage=2 a={gone}"));
    // rebuilt stage 1
    do_step(ses, sut, &format!("t now={}", wins[1].0 + 200));
    let out = probe_mint(ses, sut, new1[0]);
    fl(ses, sut, &tag, "stage1:listed-member", &out);
    let out = probe_mint(ses, sut, z);
    fl(ses, sut, &tag, "stage1:new-member", &out);
    let out = probe_mint(ses, sut, y);
    fl(ses, sut, &tag, "stage1:omitted-old-member", &out);
    let out = probe_mint(ses, sut, x);
    fl(ses, sut, &tag, "stage1:member-of-other-stage", &out);
    // rebuilt stage 2 (the one whose old list a broken RemoveStage leaves behind)
    do_step(ses, sut, &format!("t now={}", wins[2].0 + 200));
    let out = probe_mint(ses, sut, new2[1]);
    fl(ses, sut, &tag, "stage2:listed-member", &out);
    let out = probe_mint(ses, sut, w);
    fl(ses, sut, &tag, "stage2:new-member", &out);
    let out = probe_mint(ses, sut, late);
    fl(ses, sut, &tag, "stage2:added-member", &out);
    let out = probe_mint(ses, sut, x);
    fl(ses, sut, &tag, "stage2:omitted-old-member", &out);
    let out = probe_mint(ses, sut, gone);
    fl(ses, sut, &tag, "stage2:removed-member", &out);
    let out = probe_mint(ses, sut, 120);
    fl(ses, sut, &tag, "stage2:outsider", &out);
    ses.end_case();
}

/// the classes without which a run would be vacuous; reached by the deterministic floor cases for EVERY seed
fn require_floor(ses: &mut Session) {
    for (v, wk) in rebuild_pairs() {
        let t = format!("fl:v{v}:rebuild{}", wl_kind_idx(wk));
        for w in [
            "create:ok", "rmstage:ok", "addstage:ok", "stage1:listed-member:ok", "stage1:new-member:ok", "stage1:omitted-old-member:err", "stage1:member-of-other-stage:err",
            "stage2:listed-member:ok", "stage2:new-member:ok", "stage2:added-member:ok", "stage2:omitted-old-member:err", "stage2:removed-member:err", "stage2:outsider:err",
        ] {
            ses.require(format!("{t}:{w}"));
        }
    }
    for v in 0..9usize {
        let kind = variant_kind(v);
        let oe = kind.is_open_edition();
        for wk in compat_kinds(v) {
            let a = format!("fl:v{v}:A{}", wl_kind_idx(wk));
            let b = format!("fl:v{v}:B{}", wl_kind_idx(wk));
            let mut need: Vec<String> = vec![];
            for w in [
                "create:ok", "mint:member:wls:m1:err", "mint:member:wls:0:ok", "mint:member:wls:p1:ok", "mint:outsider:wlactive:err", "mint:member-pubprice:wlactive:err",
                "set_wl:wls:m1:ok", "set_wl:wls:0:err", "mint:member:wle:m1:ok", "mint:member:wle:p1:err", "mint:pub:start:m1:err", "mint:pub:start:0:ok",
                "mint:pub:start:p1:ok", "upd_start:start:m1:ok", "upd_start:start:0:err", "upd_start:start:p1:err", "set_wl:start:m1:ok", "set_wl:start:0:err",
                "migrate:before-start:ok", "migrate:after-start:ok",
            ] {
                need.push(format!("{a}:{w}"));
            }
            if !is_merkle(wk) {
                need.push(format!("{a}:mint:member101:wlactive:ok"));
            }
            if oe {
                for w in ["mint:pub:end:m1:ok", "mint:pub:end:0:err", "mint:pub:end:p1:err", "mint_to:end:m1:ok", "mint_to:end:0:err", "mint_to:end:p1:err", "upd_end:end:m1:ok", "upd_end:end:0:err"] {
                    need.push(format!("{a}:{w}"));
                }
                for w in ["mint:wl:end:m1:ok", "mint:wl:end:0:err", "mint:wl:end:p1:err", "mint_to:end:0:err"] {
                    need.push(format!("{b}:{w}"));
                }
            } else {
                for w in ["mint_to:start:m1:ok", "mint_for:start:0:ok", "mint:pub:end:0:ok"] {
                    need.push(format!("{a}:{w}"));
                }
                need.push(format!("{b}:mint:wl:end:0:ok"));
            }
            for w in ["mint:member:wls:0:ok", "mint:wl:start:m1:ok", "mint:wl:start:0:ok", "mint:wl:start:p1:ok", "mint:outsider:start:0:err", "mint:outsider:start:p1:err", "set_wl:start:m1:err"] {
                need.push(format!("{b}:{w}"));
            }
            for n in need {
                ses.require(n);
            }
        }
        for w in ["mint-before:err", "upd_start-now:ok", "mint-after-upd_start-now:ok", "upd_start-after-start:err"] {
            ses.require(format!("fl:v{v}:seq:{w}"));
        }
        if oe {
            for w in ["mint-before-upd_end:ok", "upd_end-now:ok", "mint-after-upd_end-now:err", "mint_to-after-upd_end-now:err", "upd_end-after-end:err"] {
                ses.require(format!("fl:v{v}:seq:{w}"));
            }
            ses.require(format!("fl:v{v}:attach:create:wl:start-eq-now:err"));
            ses.require(format!("fl:v{v}:attach:create:wl:start-eq-now-plus-1:ok"));
        } else {
            ses.require(format!("fl:v{v}:attach:create:wl:start-eq-now:ok"));
            ses.require(format!("fl:v{v}:attach:set_wl-right-after-create:err"));
            ses.require(format!("fl:v{v}:attach:mint-right-after-create:ok"));
        }
        ses.require(format!("fl:v{v}:attach:mint:member:wl-opens-after-start:ok"));
        ses.require(format!("fl:v{v}:attach:mint:outsider:wl-opens-after-start:err"));
    }
    for w in [
        "A0:create:ok", "A0:deposit:start:m1:err", "A0:deposit:start:0:err", "A0:deposit:start:p1:ok", "A0:upd_start:start:m1:ok", "A0:upd_start:start:0:err", "A0:mint_to:start:m1:ok",
        "A0:mint_for:start:0:ok", "A0:migrate:before-start:ok", "A0:migrate:after-start:ok", "seq:mint-before:err", "seq:upd_start-now:ok", "seq:mint-after-upd_start-now:err",
        "seq:deposit-next-ns:ok", "seq:upd_start-after-start:err",
    ] {
        ses.require(format!("fl:v9:{w}"));
    }
    for k in 0..4 {
        ses.require(format!("hyp:list-wl-member-limit-0:refused:{k}"));
    }
}

fn main() {
    let mut ses = Session::new("C04");
    let mut sut = S::new();
    if ses.maybe_replay(&mut sut) {
        ses.finish(&mut sut);
    }
    let mut g = Gen { rng: ses.rng.fork(), rot: 0 };

    // 0. floor: deterministic boundary triples with fresh buyers, per variant × compatible whitelist kind × layout; the
    // decisive classes are REQUIRED (a run that does not reach them is vacuous and fails with status 4)
    require_floor(&mut ses);
    for v in 0..10usize {
        for wk in compat_kinds(v) {
            floor_case(&mut ses, &mut sut, v, wk, false);
            if v != 9 {
                floor_case(&mut ses, &mut sut, v, wk, true);
            }
        }
        seq_case(&mut ses, &mut sut, v);
        if v != 9 {
            attach_case(&mut ses, &mut sut, v);
        }
    }
    hyp_case(&mut ses, &mut sut);
    for (v, wk) in rebuild_pairs() {
        rebuild_case(&mut ses, &mut sut, v, wk);
    }
    // run-time message surface: what the crates' schemas list beyond the ops of this check
    let mut unknown: Vec<String> = vec![];
    for v in 0..10usize {
        for u in unknown_exec(variant_kind(v)) {
            unknown.push(format!("{}::{u}", variant_kind(v).name()));
        }
    }
    for u in unknown_sudo() {
        unknown.push(format!("sudo::{u}"));
    }
    ses.note(format!(
        "message surface enumerated at run time from schema_for!(ExecuteMsg) of the 10 minter crates and sg4::SudoMsg; variants without an op are sent as raw JSON (`menv what=x.<variant>` / `s.<variant>`) by admin and stranger under all monitors. Unknown to this check: {}",
        if unknown.is_empty() { "none".to_string() } else { unknown.join(", ") }
    ));

    // 1. sweeps: every minter × every whitelist kind (incl. the ones it cannot read), window shapes rotating
    let rounds = ses.scale(3, 40);
    let mut shape = g.rng.below(8);
    for round in 0..rounds {
        for v in 0..9usize {
            for wk in ALL_WL {
                shape += 1;
                sweep_case(&mut ses, &mut sut, &mut g, v, wk, shape, round % 2 == 0);
                ses.count(&format!("sweep:v{v}:wl{}", wl_kind_idx(wk)));
            }
        }
        // token-merge: no whitelist; two sweeps per round
        for _ in 0..2 {
            shape += 1;
            sweep_case(&mut ses, &mut sut, &mut g, 9, WlKind::Plain, shape, true);
        }
    }
    // 1b. creation / genesis boundaries
    let reps = ses.scale(1, 6);
    for _ in 0..reps {
        for v in 0..10usize {
            let kinds: Vec<WlKind> = if v == 9 {
                vec![WlKind::Plain]
            } else if variant_kind(v).is_flex() {
                vec![WlKind::Flex, WlKind::TieredFlex]
            } else if variant_kind(v).is_merkle() {
                vec![WlKind::Merkle, WlKind::TieredMerkle]
            } else {
                vec![WlKind::Plain, WlKind::Tiered]
            };
            for wk in kinds {
                for pos in 0..18u64 {
                    create_boundary_case(&mut ses, &mut sut, &mut g, v, wk, pos);
                }
            }
        }
    }
    // 2. random walks with real schedule changes
    let n_random = ses.scale(600, 20000);
    for i in 0..n_random {
        let v = (i % 10) as usize;
        let steps = 25 + g.rng.below(30);
        random_case(&mut ses, &mut sut, &mut g, v, steps);
        ses.count(&format!("random:v{v}"));
    }
    ses.note("monitors use the harness's own record (ghost): requested start/end/whitelist of every accepted message, the member lists / Merkle leaves / prices it created; tiered stage in force = the whitelist's ActiveStageId answer; floor cases: fresh buyer per probe, supply 400, funds from the record");
    ses.note("projection: `st= en= wl=` and ok/err are primary; `left=`, `cnt=` and the MintPrice answer are behind ` ## ` (drift only)");
    ses.note("clock: every instant of {mint start, mint end, each whitelist stage start/end} is visited at t-1 ns, t, t+1 ns in the sweep cases (identity updates probe the update gates without moving the schedule); random cases move the schedule for real, with new values drawn from {now, start, end, stage edges, genesis} ± 1 ns");
    ses.note("pairings: all 9 whitelist-capable minters × all 7 whitelist kinds (incompatible kinds must fail to attach / never let a whitelist mint through), token-merge separately");
    ses.note("Merkle: real SHA-256 (whitelist-merkletree) and BLAKE3/16 (tiered) trees built by the harness; proofs by the right sender, by another sender, for another tree, with inflated allocation, junk and malformed hashes");
    // full class list next to the report (the report itself only samples 40)
    let _ = std::fs::create_dir_all(&ses.args.out);
    let _ = std::fs::write(ses.args.out.join("classes.txt"), ses.classes.iter().cloned().collect::<Vec<_>>().join("\n"));
    ses.finish(&mut sut);
}
