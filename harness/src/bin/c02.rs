//! C02 — a mint charges exactly the current price and disburses all of it.
//!
//! All 11 minters are created through their factories (`lp_harness::minters`); every protocol line is executed
//! against the real contracts with a full balance sheet (every tracked account x every tracked denom + total
//! supply) taken before and after. The Lean driver (`Driver/C02.lean`, model `Model/MintPay.lean`) runs the same
//! lines; answers must be identical. Monitors transcribe the property on the implementation's own observations.
use cosmwasm_std::to_json_binary;
use lp_harness::minters::*;
use lp_harness::world::{addr, addr_id, denom_id, ID_FAIRBURN_POOL, ID_FOUNDATION, ID_LAUNCHPAD_DAO, ID_LIQUIDITY_DAO};
use lp_harness::*;
use serde_json::{json, Value};

const ADMIN: u64 = 10;
const WL_ADMIN: u64 = 11;
const BUYERS: [u64; 6] = [20, 21, 22, 23, 24, 25];
const OUTSIDER: u64 = 26; // never on a whitelist, nearly broke
const MERGER: u64 = 30; // token-merge: owns the source NFTs
const PAYADDR: u64 = 41;
const RECIP: u64 = 42;
const DEV_A: u64 = 60;
const DEV_B: u64 = 61;
const FIXED_ACCTS: [u64; 19] = [1, 2, 3, 4, 10, 11, 20, 21, 22, 23, 24, 25, 26, 30, 41, 42, 60, 61, 90];
const DENOMS: [u64; 4] = [0, 7, 8, 9];
const DAY: u64 = 86_400_000_000_000;
const SEC: u64 = 1_000_000_000;

type C = (u64, u128); // (denom id, amount)

#[derive(Clone, Debug, PartialEq)]
struct WlSpec {
    price: C,
    start: u64,
    end: u64,
}

#[derive(Clone, Debug)]
struct Sc {
    v: usize,
    d: u64,
    price: u128,
    pay: Option<u64>,
    cap: bool,
    fee_bps: u64,
    air: C,
    air_bps: u64,
    dev: u64,
    min: u128,
    wl: Option<WlSpec>,
    wlb: Option<WlSpec>,
    now: u64,
    start: u64,
    /// optional per-address limit override (sweep cases)
    pal: Option<u64>,
}

fn fmt_c(c: &C) -> String {
    format!("{}:{}", c.0, c.1)
}
fn parse_c(s: &str) -> Option<C> {
    let (a, b) = s.split_once(':')?;
    Some((a.parse().ok()?, b.parse().ok()?))
}
fn fmt_wl(w: &Option<WlSpec>) -> String {
    match w {
        None => "-".into(),
        Some(w) => format!("{}:{}:{}:{}", w.price.0, w.price.1, w.start, w.end),
    }
}
fn parse_wl(s: &str) -> Option<WlSpec> {
    if s == "-" {
        return None;
    }
    let p: Vec<&str> = s.split(':').collect();
    Some(WlSpec { price: (p[0].parse().ok()?, p[1].parse().ok()?), start: p[2].parse().ok()?, end: p[3].parse().ok()? })
}

impl Sc {
    fn header(&self) -> String {
        let pal = match self.pal {
            Some(p) => format!(" pal={p}"),
            None => String::new(),
        };
        format!(
            "case v={} d={} price={} pay={} cap={} fee_bps={} air={} air_bps={} dev={} min={} wl={} wlb={} now={} start={}{pal} accts={} denoms={}",
            self.v,
            self.d,
            self.price,
            fmt_opt(&self.pay),
            self.cap as u8,
            self.fee_bps,
            fmt_c(&self.air),
            self.air_bps,
            self.dev,
            self.min,
            fmt_wl(&self.wl),
            fmt_wl(&self.wlb),
            self.now,
            self.start,
            fmt_list(&FIXED_ACCTS),
            fmt_list(&DENOMS)
        )
    }
    fn parse(h: &str) -> Sc {
        Sc {
            v: kv_u64(h, "v").expect("v") as usize,
            d: kv_u64(h, "d").expect("d"),
            price: kv_u128(h, "price").expect("price"),
            pay: kv_opt_u64(h, "pay").expect("pay"),
            cap: kv_bool(h, "cap").expect("cap"),
            fee_bps: kv_u64(h, "fee_bps").expect("fee_bps"),
            air: parse_c(kv(h, "air").expect("air")).expect("air"),
            air_bps: kv_u64(h, "air_bps").expect("air_bps"),
            dev: kv_u64(h, "dev").expect("dev"),
            min: kv_u128(h, "min").expect("min"),
            wl: parse_wl(kv(h, "wl").expect("wl")),
            wlb: parse_wl(kv(h, "wlb").expect("wlb")),
            now: kv_u64(h, "now").expect("now"),
            start: kv_u64(h, "start").expect("start"),
            pal: kv_u64(h, "pal"),
        }
    }
    fn kind(&self) -> MinterKind {
        MinterKind::from_idx(self.v)
    }
}

type Sheet = Vec<((u64, u64), u128)>;

/// what the implementation's own queries say about prices and fees (raw configuration, not `mint_price()`)
#[derive(Clone, Debug, Default)]
struct View {
    public: Option<C>,
    discount: Option<C>,
    wl: Option<(bool, C)>, // (is_active, mint_price) of the attached whitelist
    fee_bps: u64,
    air: C,
    air_bps: u64,
    dev: Option<u64>,
}

#[derive(Clone, Debug)]
struct Last {
    line: String,
    ok: bool,
    before: Sheet,
    after: Sheet,
    sup_before: Vec<u128>,
    sup_after: Vec<u128>,
    view: View,
}

struct S {
    w: Option<World>,
    sc: Option<Sc>,
    factory: String,
    minter: String,
    coll: String,
    wl_a: Option<String>,
    wl_b: Option<String>,
    src_coll: Option<String>,
    accts: Vec<u64>,
    last: Option<Last>,
    err_kinds: std::collections::BTreeMap<String, u64>,
}

fn jcoin_to_c(v: &Value) -> Option<C> {
    Some((denom_id(v.get("denom")?.as_str()?), v.get("amount")?.as_str()?.parse().ok()?))
}

/// errors the MODEL must reproduce (payment / price / arithmetic / bank); anything else is a gate C02 is silent about
fn payment_owned(err: &str) -> bool {
    const PAT: [&str; 13] = [
        "Cannot transfer empty coins amount",
        "IncorrectPaymentAmount",
        "Must send reserve token",
        "Received unsupported denom",
        "Sent more than one denomination",
        "No funds sent",
        "Insufficient fee",
        "InvalidMintPrice",
        "verflow",
        "Cannot Sub",
        "non-zero airdrop price",
        "panic:",
        "nsufficient funds",
    ];
    PAT.iter().any(|p| err.contains(p))
}

fn err_kind(err: &str) -> String {
    const K: [&str; 26] = [
        "Cannot transfer empty coins amount",
        "MissingProofHashes",
        "invalid collection",
        "not found",
        "IncorrectPaymentAmount",
        "Must send reserve token",
        "Received unsupported denom",
        "Sent more than one denomination",
        "No funds sent",
        "Insufficient fee",
        "InvalidMintPrice",
        "non-zero airdrop price",
        "panic:",
        "verflow",
        "Cannot Sub",
        "Unauthorized",
        "not on whitelist",
        "Max minting limit per address exceeded",
        "Minting has not started yet",
        "Sold out",
        "already sold",
        "Invalid token id",
        "InvalidCollection",
        "AfterMintEndTime",
        "Minting has ended",
        "Error parsing",
    ];
    for k in K {
        if err.contains(k) {
            return k.to_string();
        }
    }
    let tail = err.rsplit(": ").next().unwrap_or(err);
    let tail: String = tail.chars().take(60).collect();
    format!("other:{}", tail.replace(' ', "_"))
}

impl S {
    fn new() -> S {
        S {
            w: None,
            sc: None,
            factory: String::new(),
            minter: String::new(),
            coll: String::new(),
            wl_a: None,
            wl_b: None,
            src_coll: None,
            accts: vec![],
            last: None,
            err_kinds: Default::default(),
        }
    }
    fn world(&mut self) -> &mut World {
        self.w.as_mut().expect("world")
    }
    fn kind(&self) -> MinterKind {
        self.sc.as_ref().unwrap().kind()
    }
    fn sheet(&self) -> Sheet {
        let w = self.w.as_ref().unwrap();
        let mut v = vec![];
        for a in &self.accts {
            let s = addr(*a);
            for d in DENOMS {
                v.push(((*a, d), w.balance(&s, d)));
            }
        }
        v
    }
    /// total supply per tracked denom = sum over EVERY account in the bank module's storage (cw-multi-test 1.2 has no
    /// supply query without the cosmwasm_1_1 feature; reading the raw `bank/balances` map also sees untracked holders)
    fn supplies(&self) -> Vec<u128> {
        let w = self.w.as_ref().unwrap();
        let mut prefix: Vec<u8> = vec![0, 4];
        prefix.extend_from_slice(b"bank");
        prefix.extend_from_slice(&[0, 8]);
        prefix.extend_from_slice(b"balances");
        let mut end = prefix.clone();
        *end.last_mut().unwrap() += 1;
        let mut tot = vec![0u128; DENOMS.len()];
        w.app.read_module(|_, _, storage| {
            for (_k, v) in storage.range(Some(&prefix), Some(&end), cosmwasm_std::Order::Ascending) {
                let coins: Vec<cosmwasm_std::Coin> = cosmwasm_std::from_json(&v).expect("bank balance record");
                for c in coins {
                    if let Some(i) = DENOMS.iter().position(|d| *d == denom_id(&c.denom)) {
                        tot[i] += c.amount.u128();
                    }
                }
            }
        });
        tot
    }
    fn view(&self) -> View {
        let w = self.w.as_ref().unwrap();
        let k = self.kind();
        let mut v = View::default();
        let p = w.query(&self.factory, &json!({"params":{}})).expect("factory params");
        let p = &p["params"];
        match k.factory() {
            FactoryKind::TokenMerge => {
                v.air = jcoin_to_c(&p["airdrop_mint_price"]).unwrap();
                v.air_bps = p["airdrop_mint_fee_bps"].as_u64().unwrap();
            }
            FactoryKind::Base => {
                v.fee_bps = p["mint_fee_bps"].as_u64().unwrap();
            }
            _ => {
                v.fee_bps = p["mint_fee_bps"].as_u64().unwrap();
                v.air = jcoin_to_c(&p["extension"]["airdrop_mint_price"]).unwrap();
                v.air_bps = p["extension"]["airdrop_mint_fee_bps"].as_u64().unwrap();
                v.dev = p["extension"].get("dev_fee_address").and_then(|x| x.as_str()).map(addr_id);
            }
        }
        let cfg = w.query(&self.minter, &json!({"config":{}})).expect("minter config");
        match k {
            MinterKind::TokenMerge => {}
            MinterKind::Base => v.public = jcoin_to_c(&cfg["config"]["mint_price"]),
            _ => {
                v.public = jcoin_to_c(&cfg["mint_price"]);
                v.discount = cfg.get("discount_price").and_then(jcoin_to_c);
                if let Some(wl) = cfg.get("whitelist").and_then(|x| x.as_str()) {
                    if let Ok(wc) = w.query(wl, &json!({"config":{}})) {
                        v.wl = Some((wc["is_active"].as_bool().unwrap_or(false), jcoin_to_c(&wc["mint_price"]).unwrap_or((999_999, 0))));
                    }
                }
            }
        }
        v
    }
    /// The price in force per the property text, from raw configuration: airdrop price for admin mints, whitelist price
    /// while a whitelist is active, else discount price, else public price; base-minter = min_mint_price x mint_fee_bps
    /// in the native denom; token-merge deposits are free. (fee rate bps, whole-price-is-fee)
    fn price_in_force(&self, v: &View, admin: bool) -> (C, u64) {
        match self.kind() {
            MinterKind::Base => {
                let p = v.public.unwrap();
                ((0, mul_bps(p.1, v.fee_bps)), 10_000)
            }
            MinterKind::TokenMerge => {
                if admin {
                    (v.air, v.air_bps)
                } else {
                    ((0, 0), 0)
                }
            }
            _ => {
                if admin {
                    (v.air, v.air_bps)
                } else {
                    let pubp = v.discount.or(v.public).unwrap();
                    match v.wl {
                        Some((true, p)) => (p, v.fee_bps),
                        _ => (pubp, v.fee_bps),
                    }
                }
            }
        }
    }
    fn px(&self) -> String {
        let k = self.kind();
        if !(k.is_vending() || k.is_open_edition()) {
            return "-".into();
        }
        let w = self.w.as_ref().unwrap();
        match w.query(&self.minter, &json!({"mint_price":{}})) {
            Err(_) => "?".into(),
            Ok(r) => {
                let c = |x: &Value| jcoin_to_c(x).map(|c| fmt_c(&c)).unwrap_or_else(|| "?".into());
                let oc = |x: Option<&Value>| match x {
                    Some(Value::Null) | None => "-".to_string(),
                    Some(x) => c(x),
                };
                let disc = if k.is_vending() { oc(r.get("discount_price")) } else { "-".into() };
                format!(
                    "{}/{}/{}/{}/{}",
                    c(&r["public_price"]),
                    c(&r["current_price"]),
                    disc,
                    oc(r.get("whitelist_price")),
                    jcoin_to_c(&r["airdrop_price"]).map(|c| c.1.to_string()).unwrap_or_else(|| "?".into())
                )
            }
        }
    }
    fn obs(&self, sheet: &Sheet, sup: &[u128]) -> String {
        let bal: Vec<String> = sheet.iter().filter(|(_, n)| *n != 0).map(|((a, d), n)| format!("{a}:{d}:{n}")).collect();
        let sup: Vec<String> = DENOMS.iter().zip(sup.iter()).map(|(d, n)| format!("{d}:{n}")).collect();
        format!("bal={} sup={} px={}", if bal.is_empty() { "-".into() } else { bal.join(",") }, sup.join(","), self.px())
    }

    fn make_wl(&mut self, kind: MinterKind, spec: &WlSpec) -> String {
        let wk = if kind.is_flex() {
            WlKind::Flex
        } else if kind.is_merkle() {
            WlKind::Merkle
        } else {
            WlKind::Plain
        };
        let members: Vec<(u64, u32)> = BUYERS.iter().map(|b| (*b, 30)).collect();
        let args = WlArgs {
            admin: WL_ADMIN,
            member_limit: 1000,
            admins_mutable: true,
            whale_cap: None,
            stages: vec![WlStage {
                start: spec.start,
                end: spec.end,
                mint_price: spec.price,
                per_address_limit: 30,
                mint_count_limit: None,
                members,
                merkle_root: buyers_tree().0,
            }],
        };
        self.world().new_whitelist(wk, &args).expect("whitelist")
    }

    fn do_mint(&mut self, line: &str) -> Result<(), String> {
        let kind = self.kind();
        let who = addr(kv_u64(line, "who").expect("who"));
        let admin = kv_bool(line, "admin").expect("admin");
        let funds: Vec<(u64, u128)> = kv_pairs(line, "funds").expect("funds").into_iter().map(|(d, a)| (d as u64, a)).collect();
        let to = kv_opt_u64(line, "to").unwrap_or(None).map(addr);
        let for_id = kv_opt_u64(line, "for").unwrap_or(None);
        let direct = kv_bool(line, "direct").unwrap_or(false);
        let minter = self.minter.clone();
        let src = self.src_coll.clone();
        let w = self.world();
        let r = if admin {
            let rcp = to.unwrap_or_else(|| addr(RECIP));
            match for_id {
                Some(t) => w.exec(&who, &minter, &json!({"mint_for":{"token_id": t, "recipient": rcp}}), &funds),
                None => w.exec(&who, &minter, &json!({"mint_to":{"recipient": rcp}}), &funds),
            }
        } else {
            match kind {
                MinterKind::Base => w.exec(&who, &minter, &json!({"mint":{"token_uri":"ipfs://bafybeigi3bwpvyvsmnbj46ra4hyffcxdeaj6ntfk5jpic5mx27x6ih2qvq/1"}}), &funds),
                MinterKind::TokenMerge => {
                    let tok = kv_u64(line, "tok").unwrap_or(1).to_string();
                    let inner = to_json_binary(&json!({"deposit_token":{"recipient": null}})).unwrap();
                    if direct {
                        // a stranger pretends to be a collection
                        w.exec(&who, &minter, &json!({"receive_nft":{"sender": who, "token_id": tok, "msg": inner}}), &funds)
                    } else {
                        w.exec(&who, &src.unwrap(), &json!({"send_nft":{"contract": minter, "token_id": tok, "msg": inner}}), &funds)
                    }
                }
                k if k.is_merkle() => {
                    let whoid = kv_u64(line, "who").unwrap();
                    let proof: Vec<String> = match BUYERS.iter().position(|b| *b == whoid) {
                        Some(i) => buyers_tree().1[i].clone(),
                        None => vec![],
                    };
                    w.exec(&who, &minter, &json!({"mint":{"proof_hashes": proof, "stage": null, "allocation": null}}), &funds)
                }
                _ => w.exec(&who, &minter, &json!({"mint":{}}), &funds),
            }
        };
        r.map(|_| ())
    }

    fn do_sudo(&mut self, line: &str) -> Result<(), String> {
        let kind = self.kind();
        let fee_bps = kv_u64(line, "fee_bps").expect("fee_bps");
        let air = parse_c(kv(line, "air").expect("air")).expect("air");
        let air_bps = kv_u64(line, "air_bps").expect("air_bps");
        let dev = kv_u64(line, "dev").expect("dev");
        let base = |ext: Value| {
            json!({"update_params": {"code_id": null, "add_sg721_code_ids": null, "rm_sg721_code_ids": null, "frozen": null,
            "creation_fee": null, "min_mint_price": null, "mint_fee_bps": fee_bps, "max_trading_offset_secs": null, "extension": ext}})
        };
        let msg = match kind.factory() {
            FactoryKind::Vending => base(json!({"max_token_limit": null, "max_per_address_limit": null, "airdrop_mint_price": jcoin(air),
                "airdrop_mint_fee_bps": air_bps, "shuffle_fee": null})),
            FactoryKind::OpenEdition => base(json!({"max_token_limit": null, "max_per_address_limit": null, "min_mint_price": null,
                "airdrop_mint_price": jcoin(air), "airdrop_mint_fee_bps": air_bps, "dev_fee_address": addr(dev)})),
            FactoryKind::TokenMerge => json!({"update_params": {"code_id": null, "add_sg721_code_ids": null, "rm_sg721_code_ids": null,
                "frozen": null, "creation_fee": null, "max_trading_offset_secs": null,
                "extension": {"max_token_limit": null, "max_per_address_limit": null, "airdrop_mint_price": jcoin(air),
                "airdrop_mint_fee_bps": air_bps, "shuffle_fee": null}}}),
            FactoryKind::Base => base(Value::Null),
        };
        let factory = self.factory.clone();
        self.world().sudo(&factory, &msg).map(|_| ())
    }
}

fn sha(b: &[u8]) -> [u8; 32] {
    use sha2::{Digest, Sha256};
    let mut h = Sha256::new();
    h.update(b);
    h.finalize().into()
}
/// sorted-pair SHA-256 tree over the BUYERS' addresses (what whitelist-merkletree verifies): (root, proof per buyer)
fn buyers_tree() -> (String, Vec<Vec<String>>) {
    let mut level: Vec<[u8; 32]> = BUYERS.iter().map(|b| sha(addr(*b).as_bytes())).collect();
    let mut idx: Vec<usize> = (0..level.len()).collect();
    let mut proofs: Vec<Vec<String>> = vec![vec![]; level.len()];
    while level.len() > 1 {
        for (i, ix) in idx.iter_mut().enumerate() {
            let sib = *ix ^ 1;
            if sib < level.len() {
                proofs[i].push(hex::encode(level[sib]));
            }
            *ix /= 2;
        }
        let mut next = vec![];
        for ch in level.chunks(2) {
            if ch.len() == 2 {
                let mut pair = [ch[0], ch[1]];
                pair.sort_unstable();
                next.push(sha(&pair.concat()));
            } else {
                next.push(ch[0]);
            }
        }
        level = next;
    }
    (hex::encode(level[0]), proofs)
}

/// floor(x * bps / 10^4) without overflow for x < 2^114
fn mul_bps(x: u128, bps: u64) -> u128 {
    let q = x / 10_000;
    let r = x % 10_000;
    q * bps as u128 + r * bps as u128 / 10_000
}

impl Sut for S {
    fn begin(&mut self, header: &str) -> (String, String) {
        let sc = Sc::parse(header);
        let kind = sc.kind();
        let ek = std::mem::take(&mut self.err_kinds);
        *self = S::new();
        self.err_kinds = ek;
        self.sc = Some(sc.clone());
        self.w = Some(World::new(sc.now));
        let mut p = self.world().default_params(kind);
        p.min_mint_price = (sc.d, sc.min);
        p.mint_fee_bps = sc.fee_bps;
        p.airdrop_mint_price = sc.air;
        p.airdrop_mint_fee_bps = sc.air_bps;
        p.dev_fee_address = sc.dev;
        let factory = self.world().new_factory(kind.factory(), &p).expect("factory");
        let mut extra: Vec<String> = vec![factory.clone()];
        self.world().fund(&addr(ADMIN), 0, p.creation_fee.1);
        let mut a = self.world().default_create(kind, &p);
        a.creator = ADMIN;
        a.start_time = sc.start;
        a.mint_price = (sc.d, sc.price);
        a.payment_address = sc.pay;
        a.per_address_limit = 3;
        a.num_tokens = Some(60);
        if kind.is_open_edition() {
            a.num_tokens = if sc.cap { Some(60) } else { None };
            a.end_time = Some(sc.start + 30 * DAY);
            a.per_address_limit = 5;
        }
        if let Some(p) = sc.pal {
            a.per_address_limit = p as u32;
        }
        if kind == MinterKind::TokenMerge {
            // source collection: a base-minter collection whose creator (MERGER) mints three 1/1 tokens
            let pb = self.world().default_params(MinterKind::Base);
            let fb = self.world().new_factory(FactoryKind::Base, &pb).expect("base factory");
            let mut ab = self.world().default_create(MinterKind::Base, &pb);
            ab.creator = MERGER;
            let fee1 = mul_bps(pb.min_mint_price.1, pb.mint_fee_bps);
            self.world().fund(&addr(MERGER), 0, pb.creation_fee.1 + 3 * fee1);
            let (mb, cb) = self.world().create_minter(&fb, MinterKind::Base, &ab).expect("source base minter");
            for i in 1..=3 {
                self.world()
                    .exec(&addr(MERGER), &mb, &json!({"mint":{"token_uri": format!("ipfs://bafybeigi3bwpvyvsmnbj46ra4hyffcxdeaj6ntfk5jpic5mx27x6ih2qvq/{i}")}}), &[(0, fee1)])
                    .expect("source mint");
            }
            a.mint_tokens = vec![(cb.clone(), 1)];
            extra.extend([fb, mb, cb.clone()]);
            self.src_coll = Some(cb);
        }
        if kind != MinterKind::TokenMerge && kind != MinterKind::Base {
            if let Some(spec) = &sc.wl {
                let wa = self.make_wl(kind, spec);
                a.whitelist = Some(wa.clone());
                extra.push(wa.clone());
                self.wl_a = Some(wa);
            }
            if let Some(spec) = &sc.wlb {
                let wb = self.make_wl(kind, spec);
                extra.push(wb.clone());
                self.wl_b = Some(wb);
            }
        }
        let (minter, coll) = match self.world().create_minter(&factory, kind, &a) {
            Ok(x) => x,
            Err(e) => panic!("C02 generator produced an invalid creation ({header}): {e}"),
        };
        extra.extend([minter.clone(), coll.clone()]);
        self.factory = factory;
        self.minter = minter;
        self.coll = coll;
        let xaccts: Vec<u64> = extra.iter().map(|s| addr_id(s)).collect();
        self.accts = FIXED_ACCTS.iter().copied().chain(xaccts.iter().copied()).collect();
        let sheet = self.sheet();
        let sup = self.supplies();
        let init: Vec<String> = sheet.iter().filter(|(_, n)| *n != 0).map(|((a, d), n)| format!("{a}:{d}:{n}")).collect();
        let sup0: Vec<String> = DENOMS.iter().zip(sup.iter()).map(|(d, n)| format!("{d}:{n}")).collect();
        let m = format!(
            "{header} xaccts={} minter={} admin={} init={} sup0={}",
            fmt_list(&xaccts),
            addr_id(&self.minter),
            ADMIN,
            if init.is_empty() { "-".into() } else { init.join(",") },
            sup0.join(",")
        );
        (m, "case".into())
    }

    fn exec(&mut self, line: &str) -> (String, String) {
        let op = line.split_whitespace().next().unwrap_or("");
        let before = self.sheet();
        let sup_before = self.supplies();
        let view = self.view();
        let minter = self.minter.clone();
        let mut wit = String::new();
        let res: Result<(), String> = match op {
            "t" => {
                let t = kv_u64(line, "at").expect("at");
                self.world().set_time(t);
                Ok(())
            }
            "fund" => {
                let a = kv_u64(line, "a").expect("a");
                for (d, n) in kv_pairs(line, "cs").expect("cs") {
                    self.world().fund(&addr(a), d as u64, n);
                }
                Ok(())
            }
            "mint" => {
                let r = self.do_mint(line);
                let allowed = match &r {
                    Ok(()) => true,
                    Err(e) => {
                        *self.err_kinds.entry(err_kind(e)).or_insert(0) += 1;
                        payment_owned(e)
                    }
                };
                wit = format!(" allowed={}", allowed as u8);
                r
            }
            "set_price" => {
                let p = kv_u128(line, "p").expect("p");
                let r = self.world().exec(&addr(ADMIN), &minter, &json!({"update_mint_price":{"price": p.to_string()}}), &[]).map(|_| ());
                wit = format!(" acc={}", r.is_ok() as u8);
                r
            }
            "set_discount" => {
                let p = kv_u128(line, "p").expect("p");
                let r = self.world().exec(&addr(ADMIN), &minter, &json!({"update_discount_price":{"price": p.to_string()}}), &[]).map(|_| ());
                wit = format!(" acc={}", r.is_ok() as u8);
                r
            }
            "rm_discount" => {
                let r = self.world().exec(&addr(ADMIN), &minter, &json!({"remove_discount_price":{}}), &[]).map(|_| ());
                wit = format!(" acc={}", r.is_ok() as u8);
                r
            }
            "set_wl" => {
                let which = kv(line, "which").expect("which");
                let sc = self.sc.clone().unwrap();
                let (spec, a) = if which == "a" { (sc.wl.clone(), self.wl_a.clone()) } else { (sc.wlb.clone(), self.wl_b.clone()) };
                let spec = spec.expect("set_wl: whitelist not in the case header");
                let lspec = WlSpec {
                    price: parse_c(kv(line, "price").unwrap()).unwrap(),
                    start: kv_u64(line, "start").unwrap(),
                    end: kv_u64(line, "end").unwrap(),
                };
                assert_eq!(spec, lspec, "set_wl line must repeat the header's whitelist parameters");
                let r = self.world().exec(&addr(ADMIN), &minter, &json!({"set_whitelist":{"whitelist": a.unwrap()}}), &[]).map(|_| ());
                wit = format!(" acc={}", r.is_ok() as u8);
                r
            }
            "sudo" => {
                let r = self.do_sudo(line);
                wit = format!(" acc={}", r.is_ok() as u8);
                r
            }
            _ => Err("bad-op".into()),
        };
        let after = self.sheet();
        let sup_after = self.supplies();
        let out = format!("{} {}", if res.is_ok() { "ok" } else { "err" }, self.obs(&after, &sup_after));
        self.last = Some(Last { line: line.to_string(), ok: res.is_ok(), before, after, sup_before, sup_after, view });
        (format!("{line}{wit}"), out)
    }

    /// Direct transcription of the property on the implementation's own balance sheets and configuration queries.
    fn monitor(&mut self) -> Option<(String, String)> {
        let l = self.last.clone()?;
        let kind = self.kind();
        let vname = kind.name();
        let op = l.line.split_whitespace().next().unwrap_or("?").to_string();
        let minter_id = addr_id(&self.minter);
        let bad = |p: &str, w: String| Some((format!("{vname}/{op}/{p}"), format!("{w} on `{}`", l.line)));
        let delta = |a: u64, d: u64| -> i128 {
            let i = l.before.iter().position(|(k, _)| *k == (a, d)).unwrap();
            l.after[i].1 as i128 - l.before[i].1 as i128
        };
        // (1) the minter contract never holds money after any operation
        for d in DENOMS {
            if delta(minter_id, d) != 0 {
                return bad("minter-balance-changed", format!("minter balance in denom {d} changed by {}", delta(minter_id, d)));
            }
        }
        // (2) no coins created or lost: sum of all balance deltas = -(burned) = supply delta; nothing leaks to untracked accounts
        for (i, d) in DENOMS.iter().enumerate() {
            let sum: i128 = self.accts.iter().map(|a| delta(*a, *d)).sum();
            let ds = l.sup_after[i] as i128 - l.sup_before[i] as i128;
            if sum != ds {
                return bad("sum-deltas-vs-burned", format!("denom {d}: sum of tracked balance deltas {sum} != supply delta {ds}"));
            }
            let tot: u128 = l.after.iter().filter(|((_, dd), _)| dd == d).map(|(_, n)| *n).sum();
            if tot != l.sup_after[i] {
                return bad("untracked-holder", format!("denom {d}: tracked balances {tot} != total supply {}", l.sup_after[i]));
            }
        }
        if op == "fund" || op == "t" {
            return None;
        }
        // (3) failed calls move no funds
        if !l.ok {
            if l.before != l.after || l.sup_before != l.sup_after {
                return bad("failed-call-moved-funds", "a rejected call changed a balance or the supply".into());
            }
            return None;
        }
        if op != "mint" {
            if l.before != l.after || l.sup_before != l.sup_after {
                return bad("config-op-moved-funds", "a configuration update moved funds".into());
            }
            return None;
        }
        // successful mint
        let sc = self.sc.clone().unwrap();
        let who = kv_u64(&l.line, "who").unwrap();
        let admin = kv_bool(&l.line, "admin").unwrap();
        let funds: Vec<(u64, u128)> = kv_pairs(&l.line, "funds").unwrap().into_iter().map(|(d, a)| (d as u64, a)).filter(|(_, a)| *a != 0).collect();
        let ((pd, pn), bps) = self.price_in_force(&l.view, admin);
        // (4) accepted payment = price in force (nothing when zero)
        let want: Vec<(u64, u128)> = if pn == 0 { vec![] } else { vec![(pd, pn)] };
        if funds != want {
            return bad("accepted-payment-ne-price", format!("accepted funds {:?} but the price in force is {:?}", funds, want));
        }
        // (5) where it went
        let fee = if kind == MinterKind::Base { pn } else { mul_bps(pn, bps) };
        if fee > pn {
            return bad("fee-gt-price", format!("fee {fee} > price {pn}"));
        }
        let seller = if kind == MinterKind::TokenMerge { ADMIN } else { sc.pay.unwrap_or(ADMIN) };
        let seller_amt = (pn - fee) as i128;
        let mut recips: Vec<u64> = vec![ID_FOUNDATION, ID_LAUNCHPAD_DAO, ID_LIQUIDITY_DAO, ID_FAIRBURN_POOL];
        if let Some(dv) = l.view.dev {
            recips.push(dv);
        }
        for (i, d) in DENOMS.iter().enumerate() {
            let burned = l.sup_before[i] as i128 - l.sup_after[i] as i128;
            let is_pd = *d == pd;
            let mut want_payer = if is_pd { -(pn as i128) } else { 0 };
            if is_pd && seller == who {
                want_payer += seller_amt;
            }
            if !recips.contains(&who) && delta(who, *d) != want_payer {
                return bad("payer-delta-ne-price", format!("denom {d}: payer delta {} != {}", delta(who, *d), want_payer));
            }
            if seller != who && !recips.contains(&seller) {
                let want_s = if is_pd { seller_amt } else { 0 };
                if delta(seller, *d) != want_s {
                    return bad("seller-ne-price-minus-fee", format!("denom {d}: seller delta {} != price - fee = {}", delta(seller, *d), want_s));
                }
            }
            let got_fee: i128 = recips.iter().map(|a| delta(*a, *d)).sum::<i128>() + burned;
            let want_fee = if is_pd { fee as i128 } else { 0 };
            if !recips.contains(&who) && !recips.contains(&seller) && got_fee != want_fee {
                return bad("fee-routing", format!("denom {d}: fee recipients + burned got {got_fee}, network fee is {want_fee}"));
            }
            // the fee schedule (C06 ratios) with the flag / developer THIS contract is documented to use:
            // open edition: developer gets ceil(fee/2); liquidity DAO ceil(rest/8) on *-featured minters, ceil(rest/5)
            // elsewhere; launchpad DAO the remainder; base minter: floor(fee/2) burned, the rest to the fair-burn pool
            if is_pd && !recips.contains(&who) && !recips.contains(&seller) {
                let want: Vec<(u64, i128)> = if kind == MinterKind::Base {
                    vec![(ID_FAIRBURN_POOL, (fee - fee / 2) as i128)]
                } else {
                    let mut v = vec![];
                    let mut rest = fee;
                    if kind.is_open_edition() {
                        let dv = l.view.dev.unwrap_or(0);
                        let df = fee - fee / 2;
                        v.push((dv, df as i128));
                        rest = fee - df;
                    }
                    let den: u128 = if kind.is_featured() { 8 } else { 5 };
                    let liq = rest / den + if rest % den == 0 { 0 } else { 1 };
                    v.push((ID_LIQUIDITY_DAO, liq as i128));
                    v.push((ID_LAUNCHPAD_DAO, (rest - liq) as i128));
                    v
                };
                for (a, amt) in &want {
                    if delta(*a, *d) != *amt {
                        return bad("fee-schedule", format!("denom {d}: fee {fee}: recipient {a} got {} but the schedule gives {amt}", delta(*a, *d)));
                    }
                }
                if kind == MinterKind::Base && burned != (fee / 2) as i128 {
                    return bad("fee-schedule", format!("base minter burned {burned}, schedule says floor(fee/2) = {}", fee / 2));
                }
            }
            if burned != 0 && kind != MinterKind::Base {
                return bad("unexpected-burn", format!("denom {d}: {burned} burned by a mint"));
            }
            for a in &self.accts {
                if *a != who && *a != seller && !recips.contains(a) && delta(*a, *d) != 0 {
                    return bad("bystander-changed", format!("account {a} denom {d} changed by {}", delta(*a, *d)));
                }
            }
        }
        None
    }
}

// ------------------------------------------------------------------------------------------------ generators

fn price_grid(rng: &mut Rng) -> u128 {
    match rng.below(10) {
        0 => 0,
        1 | 2 => *rng.pick(&[1u128, 2, 3, 4, 5, 7, 9999, 10001]),
        3 | 4 | 5 => {
            let k = rng.range(1, 30) as u32;
            let t = 10u128.pow(k);
            *rng.pick(&[t - 1, t, t + 1])
        }
        6 => 50_000_000 * rng.range(1, 5) as u128,
        _ => rng.sized_u128(100),
    }
}
fn bps_grid(rng: &mut Rng) -> u64 {
    match rng.below(20) {
        0 => 10_001,
        1 => 20_000,
        _ => *rng.pick(&[0u64, 1, 250, 5000, 9999, 10_000, 1000]),
    }
}
fn price_class(n: u128) -> &'static str {
    match n {
        0 => "zero",
        1..=9 => "tiny",
        10..=99_999 => "small",
        n if n < (1u128 << 64) => "mid",
        _ => "huge",
    }
}
fn bps_class(b: u64) -> String {
    match b {
        0 | 1 | 250 | 5000 | 9999 | 10_000 => b.to_string(),
        b if b > 10_000 => ">1e4".into(),
        _ => "other".into(),
    }
}

fn gen_scenario(rng: &mut Rng, v: usize) -> Sc {
    let kind = MinterKind::from_idx(v);
    let now = GENESIS + DAY + rng.below(1000) * SEC;
    let d = if rng.chance(1, 2) { 0 } else { 7 };
    let mut price = price_grid(rng);
    let mut min = match rng.below(4) {
        0 => 0,
        1 => price,
        2 => price / 2,
        _ => price.min(1),
    };
    let fee_bps = bps_grid(rng);
    let air_bps = bps_grid(rng);
    let mut air_amt = if rng.chance(1, 4) { 0 } else { price_grid(rng) };
    let air_d = match kind.factory() {
        FactoryKind::OpenEdition => *rng.pick(&[0u64, 0, d, d, 8]),
        _ => *rng.pick(&[0u64, 0, 0, d, 8]),
    };
    let cap = rng.chance(2, 3);
    if kind.is_open_edition() && !cap {
        // factory: unlimited editions need a non-zero mint price and a non-zero airdrop price
        if price == 0 {
            price = 1;
        }
        if air_amt == 0 {
            air_amt = 1 + rng.below(5) as u128;
        }
    }
    if kind == MinterKind::Base {
        // base minter: price field = the factory min_mint_price that gets captured
        min = price;
    }
    if kind == MinterKind::TokenMerge {
        price = 0;
        min = 0;
    }
    let a_s = now + rng.range(500, 1500) * SEC;
    let a_e = a_s + rng.range(100, 2000) * SEC;
    let start = match rng.below(4) {
        0 => a_e,                          // public opens exactly when the whitelist closes
        1 => a_s + (a_e - a_s) / 2,        // public start inside the whitelist window
        2 => a_e + rng.range(1, 500) * SEC, // gap
        _ => a_s,                          // whitelist opens at public start
    };
    let wl_price = |rng: &mut Rng| -> C {
        let dd = if rng.chance(1, 12) { 9 } else { d };
        (dd, if rng.chance(1, 5) { 0 } else { price_grid(rng) })
    };
    let has_wl = kind != MinterKind::TokenMerge && kind != MinterKind::Base;
    let wl = if has_wl && rng.chance(3, 4) { Some(WlSpec { price: wl_price(rng), start: a_s, end: a_e }) } else { None };
    let wlb = if has_wl && rng.chance(1, 2) {
        let b_s = now + rng.range(400, 1600) * SEC;
        // SetWhitelist demands the minter's denom and at least the factory minimum
        Some(WlSpec { price: (d, min + if rng.chance(1, 3) { 0 } else { price_grid(rng) }), start: b_s, end: b_s + rng.range(100, 2500) * SEC })
    } else {
        None
    };
    Sc {
        v,
        d,
        price,
        pay: if rng.chance(1, 2) { Some(PAYADDR) } else { None },
        cap,
        fee_bps,
        air: (air_d, air_amt),
        air_bps,
        dev: DEV_A,
        min,
        wl,
        wlb,
        now,
        start,
        pal: None,
    }
}

#[derive(Clone, Copy, Debug, PartialEq)]
enum Fault {
    Exact,
    Plus1,
    Minus1,
    WrongDenom,
    ExtraCoin,
    DupCoin,
    NoFunds,
    ZeroCoin,
    Double,
    Random,
    Broke,
    /// pay another configured price (public instead of discount, whitelist price outside its window, airdrop price…)
    AltPrice,
}

fn craft_funds(rng: &mut Rng, price: C, fault: Fault) -> Vec<C> {
    let (d, n) = price;
    let other = |rng: &mut Rng| -> u64 {
        let mut o = *rng.pick(&DENOMS);
        if o == d {
            o = if d == 9 { 0 } else { 9 };
        }
        o
    };
    let exact: Vec<C> = if n == 0 { vec![] } else { vec![(d, n)] };
    match fault {
        Fault::Exact | Fault::Broke => exact,
        Fault::Plus1 => vec![(d, n + 1)],
        Fault::Minus1 => {
            if n == 0 {
                vec![(d, 1)]
            } else {
                vec![(d, n - 1)]
            }
        }
        Fault::WrongDenom => vec![(other(rng), n.max(1))],
        Fault::ExtraCoin => {
            let mut v = if n == 0 { vec![(d, 1)] } else { exact };
            v.push((other(rng), 1 + rng.below(3) as u128));
            v.sort();
            v
        }
        Fault::DupCoin => vec![(d, n.max(1)), (d, 1)],
        Fault::NoFunds => {
            if n == 0 {
                vec![(d, 2)]
            } else {
                vec![]
            }
        }
        Fault::ZeroCoin => vec![(if rng.chance(1, 2) { d } else { other(rng) }, 0)],
        Fault::Double => vec![(d, n.max(1) * 2)],
        Fault::Random => vec![(d, rng.sized_u128(100))],
        Fault::AltPrice => exact, // replaced by the caller
    }
}

/// the deterministic price grid of the property text: 0, 1..5, 7, 9999, 10001, 10^k - 1, 10^k, 10^k + 1 (k = 1..30)
fn full_price_grid() -> Vec<u128> {
    let mut v: Vec<u128> = vec![0, 1, 2, 3, 4, 5, 7, 9999, 10001];
    for k in 1..=30u32 {
        let t = 10u128.pow(k);
        v.extend([t - 1, t, t + 1]);
    }
    v.sort();
    v.dedup();
    v
}
const BPS_GRID: [u64; 6] = [0, 1, 250, 5000, 9999, 10_000];

fn base_sc(v: usize, now: u64) -> Sc {
    Sc {
        v,
        d: 0,
        price: 100_000_000,
        pay: Some(PAYADDR),
        cap: true,
        fee_bps: 1000,
        air: (0, 0),
        air_bps: 10_000,
        dev: DEV_A,
        min: 0,
        wl: None,
        wlb: None,
        now,
        start: now + 1000 * SEC,
        pal: None,
    }
}

/// Deterministic cases run before the random ones: the F-C02 reproduction on every minter that had it, and exhaustive
/// price-grid x bps-grid sweeps (airdrop price via sudo, public price by lowering it step by step, base price via bps).
fn fixed_cases(ses: &mut Session, sut: &mut S, rng: &mut Rng) {
    let big: u128 = 1u128 << 108;
    let all: Vec<C> = DENOMS.iter().map(|d| (*d, big)).collect();
    let now = GENESIS + DAY;
    let thorough = ses.tier() != Tier::Quick;
    // 1. F-C02 (fixed by e08eaf1): airdrop price 100, airdrop fee 50 % => the other 50 must reach the seller, not stay in the minter
    for v in [0usize, 1, 2, 3, 4, 5, 9] {
        for pay in [None, Some(PAYADDR)] {
            let mut sc = base_sc(v, now);
            sc.air = (0, 100);
            sc.air_bps = 5000;
            sc.pay = pay;
            ses.begin_case(sut, &sc.header());
            ses.step(sut, &format!("fund a={ADMIN} cs={}", fmt_pairs(&all)));
            let out = ses.step(sut, &format!("mint who={ADMIN} admin=1 to={RECIP} funds=0:100"));
            ses.mark(format!("corpus:F-C02:{}:{}", MinterKind::from_idx(v).name(), &out[..2]));
            ses.end_case();
        }
    }
    // 2. airdrop sweeps: every grid price x every grid bps
    let grid = full_price_grid();
    let mut combos: Vec<(u128, u64)> = vec![];
    for p in &grid {
        for b in BPS_GRID {
            combos.push((*p, b));
        }
    }
    // open edition uncapped (dev fee recipient, unlimited tokens): all non-zero prices, alternating denoms 0 / 8
    for (v, d) in [(6usize, 0u64), (7, 8), (8, 7)] {
        if !thorough && v != 6 {
            continue;
        }
        let mut sc = base_sc(v, now);
        sc.cap = false;
        sc.air = (d, 1);
        ses.begin_case(sut, &sc.header());
        ses.step(sut, &format!("fund a={ADMIN} cs={}", fmt_pairs(&all)));
        for (i, (p, b)) in combos.iter().enumerate() {
            if *p == 0 {
                continue;
            }
            let dev = if i % 2 == 0 { DEV_A } else { DEV_B };
            ses.step(sut, &format!("sudo fee_bps=1000 air={d}:{p} air_bps={b} dev={dev}"));
            let out = ses.step(sut, &format!("mint who={ADMIN} admin=1 to={RECIP} funds={d}:{p}"));
            ses.mark(format!("sweep:oe-airdrop:{}:bps{}:{}", price_class(*p), b, &out[..2]));
            ses.count(&format!("sweep:oe-airdrop:{}", &out[..2]));
        }
        ses.end_case();
    }
    // vending / token-merge: 60 tokens per collection => chunks of 55 combos
    let chunked: Vec<usize> = if thorough { vec![0, 1, 2, 3, 4, 5, 9] } else { vec![1, 9] };
    for v in chunked {
        let mut todo: Vec<(u128, u64)> = combos.clone();
        if !thorough {
            rng.shuffle(&mut todo);
            todo.truncate(110);
        }
        for chunk in todo.chunks(55) {
            let sc = base_sc(v, now);
            ses.begin_case(sut, &sc.header());
            ses.step(sut, &format!("fund a={ADMIN} cs={}", fmt_pairs(&all)));
            for (p, b) in chunk {
                ses.step(sut, &format!("sudo fee_bps=1000 air=0:{p} air_bps={b} dev={DEV_A}"));
                let funds = if *p == 0 { "-".to_string() } else { format!("0:{p}") };
                let out = ses.step(sut, &format!("mint who={ADMIN} admin=1 to={RECIP} funds={funds}"));
                ses.mark(format!("sweep:{}-airdrop:{}:bps{}:{}", MinterKind::from_idx(v).name(), price_class(*p), b, &out[..2]));
            }
            ses.end_case();
        }
    }
    // 3. public price sweep on an uncapped open edition with per-address limit 50: start at the top of the grid and
    //    lower the price step by step (only lowering is allowed after the start), cycling the fee bps
    {
        let mut sc = base_sc(6, now);
        sc.cap = false;
        sc.air = (0, 1);
        sc.price = 10u128.pow(30) + 2;
        sc.pal = Some(50);
        ses.begin_case(sut, &sc.header());
        for b in BUYERS {
            ses.step(sut, &format!("fund a={b} cs={}", fmt_pairs(&all)));
        }
        ses.step(sut, &format!("t at={}", sc.start));
        let mut desc = grid.clone();
        desc.reverse();
        for (i, p) in desc.iter().enumerate() {
            if *p == 0 {
                continue; // an uncapped open edition cannot be free
            }
            let b = BPS_GRID[i % BPS_GRID.len()];
            ses.step(sut, &format!("sudo fee_bps={b} air=0:1 air_bps=10000 dev={DEV_A}"));
            ses.step(sut, &format!("set_price p={p}"));
            let who = BUYERS[i % BUYERS.len()];
            let out = ses.step(sut, &format!("mint who={who} admin=0 funds=0:{p}"));
            ses.mark(format!("sweep:oe-public:{}:bps{}:{}", price_class(*p), b, &out[..2]));
            ses.count(&format!("sweep:oe-public:{}", &out[..2]));
            // and one unit off, which must be rejected
            let off = if i % 2 == 0 { p + 1 } else { p - 1 };
            if off != 0 {
                let out = ses.step(sut, &format!("mint who={who} admin=0 funds=0:{off}"));
                ses.mark(format!("sweep:oe-public-off:{}", &out[..2]));
                ses.count(&format!("sweep:oe-public-off:{}", &out[..2]));
            }
        }
        ses.end_case();
    }
    // 4. base minter: price = floor(min_mint_price x bps / 10^4) for grid minimum prices x all bps (incl. non-multiples of the divisor)
    let mins: Vec<u128> = if thorough { grid.clone() } else { grid.iter().copied().step_by(6).collect() };
    for chunk in mins.chunks(8) {
        for m in chunk {
            let mut sc = base_sc(10, now);
            sc.price = *m;
            sc.min = *m;
            ses.begin_case(sut, &sc.header());
            ses.step(sut, &format!("fund a={ADMIN} cs={}", fmt_pairs(&all)));
            for b in [1u64, 250, 5000, 9999, 10_000, 3] {
                ses.step(sut, &format!("sudo fee_bps={b} air=0:0 air_bps=0 dev={DEV_A}"));
                let fee = mul_bps(*m, b);
                let funds = if fee == 0 { "-".to_string() } else { format!("0:{fee}") };
                let out = ses.step(sut, &format!("mint who={ADMIN} admin=0 funds={funds}"));
                ses.mark(format!("sweep:base:{}:bps{}:{}", price_class(fee), b, &out[..2]));
                ses.count(&format!("sweep:base:{}", &out[..2]));
                let out = ses.step(sut, &format!("mint who={ADMIN} admin=0 funds=0:{}", fee + 1));
                ses.mark(format!("sweep:base-off:{}", &out[..2]));
                ses.count(&format!("sweep:base-off:{}", &out[..2]));
            }
            ses.end_case();
        }
    }
}

fn main() {
    let mut ses = Session::new("C02");
    let mut sut = S::new();
    if ses.maybe_replay(&mut sut) {
        ses.finish(&mut sut);
    }
    let mut rng = ses.rng.fork();
    let per_kind = ses.scale(50, 1300);
    let big: u128 = 1u128 << 104;
    fixed_cases(&mut ses, &mut sut, &mut rng);

    for round in 0..per_kind {
        for v in 0..11usize {
            let kind = MinterKind::from_idx(v);
            let sc = gen_scenario(&mut rng, v);
            ses.begin_case(&mut sut, &sc.header());
            ses.count(&format!("case:{}", kind.name()));
            ses.mark(format!("setup:{}:{}:pay{}:wl{}:denom{}", kind.name(), if sc.cap { "cap" } else { "nocap" }, sc.pay.is_some() as u8, sc.wl.is_some() as u8, sc.d));
            // funding (tracked by the model as well)
            let mut payers: Vec<u64> = vec![ADMIN];
            if kind == MinterKind::TokenMerge {
                payers.push(MERGER);
            }
            payers.extend(BUYERS);
            let all: Vec<C> = DENOMS.iter().map(|d| (*d, big)).collect();
            for p in &payers {
                ses.step(&mut sut, &format!("fund a={p} cs={}", fmt_pairs(&all)));
            }
            ses.step(&mut sut, &format!("fund a={OUTSIDER} cs={}:{}", sc.d, 1 + rng.below(3)));
            let mut now = sc.now;
            let mut instants: Vec<u64> = vec![sc.start - 1, sc.start, sc.start + 1, sc.start + 13 * 3600 * SEC];
            for w in [&sc.wl, &sc.wlb].into_iter().flatten() {
                instants.extend([w.start - 1, w.start, w.end - 1, w.end]);
            }
            instants.sort();
            let mut next_tok = 1u64;
            let mut dev = sc.dev;
            let n_ops = 18 + rng.below(14);
            // phase: 20% start before everything, 30% at the whitelist opening, 50% at the public opening
            let ph = rng.below(10);
            let jump: Option<u64> = if ph < 2 {
                None
            } else if ph < 5 {
                Some(sc.wl.as_ref().map(|w| w.start + rng.below(3)).unwrap_or(sc.start))
            } else {
                Some(sc.start.max(sc.wl.as_ref().map(|w| w.end).unwrap_or(0)) + rng.below(2))
            };
            if let Some(t) = jump {
                now = t;
                ses.step(&mut sut, &format!("t at={t}"));
            }
            for _opi in 0..n_ops {
                let roll = rng.below(100);
                if roll < 14 {
                    // clock: next interesting instant, or a random step
                    let t = match instants.iter().find(|t| **t > now) {
                        Some(t) if rng.chance(3, 4) => *t,
                        _ => now + rng.range(1, 4000) * SEC,
                    };
                    now = t;
                    ses.step(&mut sut, &format!("t at={t}"));
                    continue;
                }
                if roll < 24 {
                    // governance: fee rates / airdrop price / dev address
                    let fb = bps_grid(&mut rng);
                    let ab = bps_grid(&mut rng);
                    let amt = if rng.chance(1, 5) { 0 } else { price_grid(&mut rng) };
                    let ad = match kind.factory() {
                        FactoryKind::OpenEdition => *rng.pick(&[0u64, sc.d, 8]),
                        _ => {
                            if rng.chance(1, 8) {
                                7
                            } else {
                                0
                            }
                        }
                    };
                    if rng.chance(1, 2) {
                        dev = if dev == DEV_A { DEV_B } else { DEV_A };
                    }
                    let line = format!("sudo fee_bps={fb} air={ad}:{amt} air_bps={ab} dev={dev}");
                    let out = ses.step(&mut sut, &line);
                    if !out.starts_with("ok") {
                        // the model keeps the old dev address when the update is rejected
                        dev = sut.view().dev.unwrap_or(dev);
                    }
                    ses.mark(format!("sudo:{}:{}", kind.name(), &out[..2]));
                    continue;
                }
                if roll < 38 && (kind.is_vending() || kind.is_open_edition()) {
                    // price history: update price / discount / whitelist
                    let view = sut.view();
                    let cur = view.public.map(|c| c.1).unwrap_or(0);
                    let which = rng.below(if kind.is_vending() { 5 } else { 2 });
                    let line = match which {
                        0 => {
                            let p = match rng.below(4) {
                                0 => price_grid(&mut rng),
                                1 => cur.saturating_sub(1 + rng.below(3) as u128).max(sc.min),
                                2 => sc.min,
                                _ => cur / 2 + sc.min / 2,
                            };
                            format!("set_price p={p}")
                        }
                        1 => {
                            let pick_b = rng.chance(1, 2);
                            match (if pick_b { &sc.wlb } else { &sc.wl }, pick_b) {
                                (Some(w), b) => format!("set_wl which={} price={} start={} end={}", if b { "b" } else { "a" }, fmt_c(&w.price), w.start, w.end),
                                _ => format!("set_price p={}", cur),
                            }
                        }
                        2 | 3 => {
                            let p = match rng.below(3) {
                                0 => sc.min,
                                1 => cur,
                                _ => sc.min + (cur.saturating_sub(sc.min)) / 2,
                            };
                            format!("set_discount p={p}")
                        }
                        _ => "rm_discount".to_string(),
                    };
                    let out = ses.step(&mut sut, &line);
                    ses.mark(format!("cfg:{}:{}:{}", kind.name(), line.split_whitespace().next().unwrap(), &out[..2]));
                    continue;
                }
                // a mint
                let admin = kind != MinterKind::Base && rng.chance(if kind == MinterKind::TokenMerge { 2 } else { 1 }, 3);
                let view = sut.view();
                let (price, bps) = sut.price_in_force(&view, admin);
                let fault = match rng.below(100) {
                    0..=61 => Fault::Exact,
                    62..=63 => Fault::AltPrice,
                    64..=66 => Fault::Plus1,
                    67..=71 => Fault::Minus1,
                    72..=76 => Fault::WrongDenom,
                    77..=81 => Fault::ExtraCoin,
                    82..=83 => Fault::DupCoin,
                    84..=87 => Fault::NoFunds,
                    88..=90 => Fault::ZeroCoin,
                    91..=93 => Fault::Double,
                    94..=95 => Fault::Random,
                    96 => Fault::AltPrice,
                    _ => Fault::Broke,
                };
                let mut who = if admin {
                    if rng.chance(1, 14) {
                        *rng.pick(&BUYERS)
                    } else {
                        ADMIN
                    }
                } else {
                    match kind {
                        MinterKind::Base => {
                            if rng.chance(1, 10) {
                                *rng.pick(&BUYERS)
                            } else {
                                ADMIN
                            }
                        }
                        MinterKind::TokenMerge => MERGER,
                        _ => *rng.pick(&BUYERS),
                    }
                };
                if fault == Fault::Broke && !admin && kind != MinterKind::TokenMerge && kind != MinterKind::Base {
                    who = OUTSIDER;
                }
                let mut line = format!("mint who={who} admin={}", admin as u8);
                let mut funds = craft_funds(&mut rng, price, fault);
                let mut fault = fault;
                if fault == Fault::AltPrice {
                    let mut alts: Vec<C> = vec![];
                    alts.extend(view.public);
                    alts.extend(view.discount);
                    alts.extend(view.wl.map(|w| w.1));
                    alts.push(view.air);
                    alts.retain(|c| *c != price && c.1 != 0);
                    if alts.is_empty() {
                        fault = Fault::Plus1;
                        funds = craft_funds(&mut rng, price, fault);
                    } else {
                        funds = vec![*rng.pick(&alts)];
                    }
                }
                let pkind;
                if admin {
                    pkind = "airdrop";
                    let to = if rng.chance(1, 2) { RECIP } else { *rng.pick(&BUYERS) };
                    line.push_str(&format!(" to={to}"));
                    if (kind.is_vending() || kind == MinterKind::TokenMerge) && rng.chance(1, 3) {
                        line.push_str(&format!(" for={}", rng.range(1, 60)));
                    }
                } else if kind == MinterKind::TokenMerge {
                    pkind = "merge";
                    if rng.chance(1, 5) {
                        // a stranger calls ReceiveNft directly (with or without funds): not a listed collection
                        line = format!("mint who={} admin=0 direct=1 tok=9", *rng.pick(&BUYERS));
                    } else {
                        funds = vec![]; // cw721 send_nft never forwards funds
                        fault = Fault::Exact;
                        line.push_str(&format!(" tok={next_tok}"));
                        next_tok = (next_tok % 4) + 1;
                    }
                } else if kind == MinterKind::Base {
                    pkind = "base";
                } else {
                    pkind = match view.wl {
                        Some((true, _)) => "whitelist",
                        _ => {
                            if view.discount.is_some() {
                                "discount"
                            } else {
                                "public"
                            }
                        }
                    };
                }
                line.push_str(&format!(" funds={}", fmt_pairs(&funds)));
                let out = ses.step(&mut sut, &line);
                let okerr = &out[..2];
                ses.count(&format!("mint:{pkind}:{:?}:{okerr}", fault));
                ses.count(&format!("kind:{}:{pkind}:{okerr}", kind.name()));
                ses.mark(format!("mint:{}:{pkind}:{:?}:{okerr}", kind.name(), fault));
                ses.mark(format!("price:{pkind}:{}:bps{}:d{}:{okerr}", price_class(price.1), bps_class(bps), price.0));
                if okerr == "ok" {
                    ses.mark(format!("paid:{}:{pkind}:{}:bps{}:native{}:pay{}", kind.name(), price_class(price.1), bps_class(bps), (price.0 == 0) as u8, sc.pay.is_some() as u8));
                }
            }
            ses.end_case();
        }
        let _ = round;
    }
    let ek: Vec<String> = sut.err_kinds.iter().map(|(k, n)| format!("{k}={n}")).collect();
    ses.note(format!("mint rejection kinds seen on the implementation: {}", ek.join("; ")));
    ses.note("values < 2^100; funding 2^104 per payer and denom; denoms: 0=ustars, 7/8/9 = non-native (factory min_mint_price / airdrop price denoms set at factory instantiation)".to_string());
    ses.finish(&mut sut);
}
