//! C02 — a mint charges exactly the current price and disburses all of it.
//!
//! All 11 minters are created through their factories (`lp_harness::minters`), paired with single-stage AND tiered
//! whitelists; every protocol line is executed against the real contracts with a full balance sheet (every tracked
//! account x every tracked denom + total supply) taken before and after. The Lean driver (`Driver/C02.lean`, models
//! `Model/MintPay.lean` + `Model/MintPayStaged.lean`) runs the same lines; the PRIMARY part of the answers (ok/err +
//! balances of everybody except the protocol fee recipients) must be identical, the rest (` ## ` fee split, supply,
//! MintPrice query, rejection reason) is compared as non-fatal drift.
//!
//! Monitors transcribe the property from what the harness itself knows: the prices / fee rates / whitelist stage
//! tables it SENT and that were accepted (ghost state), the clock it set, the accounts it funded — never from the
//! minter's own `mint_price()` or the whitelist's `Config {}` answer. The fee split is taken from the real
//! `sg1::distribute_mint_fees` / `sg1::fair_burn` called in-process with the flag / developer each contract is
//! documented to pass (the ratios themselves are C06's).
use cosmwasm_std::{to_json_binary, Addr, Response};
use lp_harness::minters::*;
use lp_harness::world::{addr, addr_id, coin_of, denom_id, render_msg, ID_FAIRBURN_POOL, ID_FOUNDATION, ID_LAUNCHPAD_DAO, ID_LIQUIDITY_DAO};
use lp_harness::*;
use serde_json::{json, Value};
use std::collections::BTreeMap;

const ADMIN: u64 = 10;
const WL_ADMIN: u64 = 11;
const BUYERS: [u64; 6] = [20, 21, 22, 23, 24, 25];
const OUTSIDER: u64 = 26; // never on a whitelist, nearly broke
const MERGER: u64 = 30; // token-merge: owns the source NFTs
const PAYADDR: u64 = 41;
const RECIP: u64 = 42;
const DEV_A: u64 = 60;
const DEV_B: u64 = 61;
const FIXED_ACCTS: [u64; 19] = [1, 2, 3, 4, 10, 11, 20, 21, 22, 23, 24, 25, 26, 30, 41, 42, 60, 61, 90];
const DENOMS: [u64; 4] = [0, 7, 8, 9];
const DAY: u64 = 86_400_000_000_000;
const SEC: u64 = 1_000_000_000;
const SHUFFLE_FEE: u128 = 500_000_000;

type C = (u64, u128); // (denom id, amount)

/// one whitelist stage as the harness created / edited it
#[derive(Clone, Debug, PartialEq)]
struct St {
    price: C,
    start: u64,
    end: u64,
}
/// stage table of one whitelist contract. `incl` = tiered kind (windows `start <= now <= end`, first match wins);
/// otherwise a single-stage kind (`start <= now < end`)
#[derive(Clone, Debug, PartialEq)]
struct Sched {
    incl: bool,
    stages: Vec<St>,
}
impl Sched {
    fn current(&self, now: u64) -> Option<(usize, &St)> {
        self.stages.iter().enumerate().find(|(_, s)| s.start <= now && if self.incl { now <= s.end } else { now < s.end })
    }
}

#[derive(Clone, Debug)]
struct Sc {
    v: usize,
    d: u64,
    price: u128,
    pay: Option<u64>,
    cap: bool,
    fee_bps: u64,
    air: C,
    air_bps: u64,
    /// the two developer addresses this case switches between (open edition); `devs[0]` is the initial one
    devs: [u64; 2],
    min: u128,
    wl: Option<Sched>,
    wlb: Option<Sched>,
    now: u64,
    start: u64,
    /// optional per-address limit / token count overrides
    pal: Option<u64>,
    ntok: Option<u64>,
}

fn fmt_c(c: &C) -> String {
    format!("{}:{}", c.0, c.1)
}
fn parse_c(s: &str) -> Option<C> {
    let (a, b) = s.split_once(':')?;
    Some((a.parse().ok()?, b.parse().ok()?))
}
fn fmt_sched(w: &Option<Sched>) -> String {
    match w {
        None => "-".into(),
        Some(w) => format!(
            "{}@{}",
            if w.incl { "i" } else { "x" },
            w.stages.iter().map(|s| format!("{}:{}:{}:{}", s.price.0, s.price.1, s.start, s.end)).collect::<Vec<_>>().join("+")
        ),
    }
}
fn parse_sched(s: &str) -> Option<Sched> {
    if s == "-" {
        return None;
    }
    let (k, body) = s.split_once('@')?;
    let mut stages = vec![];
    if !body.is_empty() {
        for p in body.split('+') {
            let f: Vec<&str> = p.split(':').collect();
            if f.len() != 4 {
                return None;
            }
            stages.push(St { price: (f[0].parse().ok()?, f[1].parse().ok()?), start: f[2].parse().ok()?, end: f[3].parse().ok()? });
        }
    }
    Some(Sched { incl: k == "i", stages })
}

impl Sc {
    fn fee_accts(&self) -> Vec<u64> {
        let mut v = vec![ID_FOUNDATION, ID_LAUNCHPAD_DAO, ID_LIQUIDITY_DAO, ID_FAIRBURN_POOL];
        for d in self.devs {
            if !v.contains(&d) {
                v.push(d);
            }
        }
        v
    }
    fn header(&self) -> String {
        let mut opt = String::new();
        if let Some(p) = self.pal {
            opt.push_str(&format!(" pal={p}"));
        }
        if let Some(p) = self.ntok {
            opt.push_str(&format!(" ntok={p}"));
        }
        format!(
            "case v={} d={} price={} pay={} cap={} fee_bps={} air={} air_bps={} dev={} devs={} min={} wl={} wlb={} now={} start={}{opt} accts={} denoms={} feeaccts={}",
            self.v,
            self.d,
            self.price,
            fmt_opt(&self.pay),
            self.cap as u8,
            self.fee_bps,
            fmt_c(&self.air),
            self.air_bps,
            self.devs[0],
            fmt_list(&self.devs),
            self.min,
            fmt_sched(&self.wl),
            fmt_sched(&self.wlb),
            self.now,
            self.start,
            fmt_list(&FIXED_ACCTS),
            fmt_list(&DENOMS),
            fmt_list(&self.fee_accts())
        )
    }
    fn parse(h: &str) -> Sc {
        let devs = kv_list(h, "devs").expect("devs");
        Sc {
            v: kv_u64(h, "v").expect("v") as usize,
            d: kv_u64(h, "d").expect("d"),
            price: kv_u128(h, "price").expect("price"),
            pay: kv_opt_u64(h, "pay").expect("pay"),
            cap: kv_bool(h, "cap").expect("cap"),
            fee_bps: kv_u64(h, "fee_bps").expect("fee_bps"),
            air: parse_c(kv(h, "air").expect("air")).expect("air"),
            air_bps: kv_u64(h, "air_bps").expect("air_bps"),
            devs: [devs[0] as u64, devs[1] as u64],
            min: kv_u128(h, "min").expect("min"),
            wl: parse_sched(kv(h, "wl").expect("wl")),
            wlb: parse_sched(kv(h, "wlb").expect("wlb")),
            now: kv_u64(h, "now").expect("now"),
            start: kv_u64(h, "start").expect("start"),
            pal: kv_u64(h, "pal"),
            ntok: kv_u64(h, "ntok"),
        }
    }
    fn kind(&self) -> MinterKind {
        MinterKind::from_idx(self.v)
    }
}

type Sheet = Vec<((u64, u64), u128)>;

/// What the harness knows by itself: everything it configured, sent and saw accepted (never a price answer of the
/// contracts under test).
#[derive(Clone, Debug)]
struct Ghost {
    /// `config.mint_price` (base minter: the factory minimum captured at instantiation)
    public: C,
    discount: Option<C>,
    att: Option<char>,
    wla: Option<Sched>,
    wlb: Option<Sched>,
    fee_bps: u64,
    air: C,
    air_bps: u64,
    dev: u64,
    now: u64,
}
impl Ghost {
    fn sched(&self) -> Option<&Sched> {
        match self.att {
            Some('a') => self.wla.as_ref(),
            Some('b') => self.wlb.as_ref(),
            _ => None,
        }
    }
    fn stage_now(&self) -> Option<(usize, &St)> {
        self.sched().and_then(|s| s.current(self.now))
    }
    fn wl_mut(&mut self, which: char) -> Option<&mut Sched> {
        if which == 'a' {
            self.wla.as_mut()
        } else {
            self.wlb.as_mut()
        }
    }
}

/// The price in force per the property text: airdrop price for admin mints, the active whitelist stage's price, else
/// discount price, else public price; base-minter = captured min_mint_price x mint_fee_bps in the native denom (all of
/// it is the fee); token-merge deposits are free. Returns (price, fee rate bps).
fn price_in_force(kind: MinterKind, g: &Ghost, admin: bool) -> (C, u64) {
    match kind {
        MinterKind::Base => ((0, mul_bps(g.public.1, g.fee_bps)), 10_000),
        MinterKind::TokenMerge => {
            if admin {
                (g.air, g.air_bps)
            } else {
                ((0, 0), 0)
            }
        }
        _ => {
            if admin {
                (g.air, g.air_bps)
            } else {
                match g.stage_now() {
                    Some((_, st)) => (st.price, g.fee_bps),
                    None => (g.discount.unwrap_or(g.public), g.fee_bps),
                }
            }
        }
    }
}
fn price_kind(kind: MinterKind, g: &Ghost, admin: bool) -> &'static str {
    match kind {
        MinterKind::Base => "base",
        MinterKind::TokenMerge => {
            if admin {
                "airdrop"
            } else {
                "merge"
            }
        }
        _ => {
            if admin {
                "airdrop"
            } else if g.stage_now().is_some() {
                "whitelist"
            } else if g.discount.is_some() {
                "discount"
            } else {
                "public"
            }
        }
    }
}

/// one bank effect of the minter's response, from the real sg1 functions
#[derive(Clone, Debug, PartialEq)]
enum Flow {
    Send(u64, u64, u128),
    Burn(u64, u128),
}
fn flows_of(res: &Response) -> Vec<Flow> {
    res.messages
        .iter()
        .filter_map(|m| {
            let r = render_msg(&m.msg);
            let f: Vec<&str> = r.split(':').collect();
            match f.as_slice() {
                ["send", a, d, n] => Some(Flow::Send(a.parse().ok()?, d.parse().ok()?, n.parse().ok()?)),
                ["burn", d, n] => Some(Flow::Burn(d.parse().ok()?, n.parse().ok()?)),
                ["pool", _, d, n] => Some(Flow::Send(ID_FAIRBURN_POOL, d.parse().ok()?, n.parse().ok()?)),
                _ => None,
            }
        })
        .collect()
}
/// "according to the fee schedule": what the real `sg1::distribute_mint_fees` does with this fee, flag and developer
fn oracle_distribute(fee: C, featured: bool, dev: Option<u64>) -> Vec<Flow> {
    catch(|| {
        let mut res = Response::new();
        let _ = sg1::distribute_mint_fees(coin_of(fee.0, fee.1), &mut res, featured, dev.map(|d| Addr::unchecked(addr(d))));
        flows_of(&res)
    })
    .unwrap_or_default()
}
fn oracle_fair_burn(minter: &str, fee: u128) -> Vec<Flow> {
    let m = minter.to_string();
    catch(move || {
        let mut res = Response::new();
        sg1::fair_burn(m, fee, None, &mut res);
        flows_of(&res)
    })
    .unwrap_or_default()
}

/// what a successful mint must do to every account, from ghost state + the fee-schedule oracle
#[derive(Clone, Debug, Default)]
struct Expect {
    price: C,
    fee: u128,
    seller: u64,
    delta: BTreeMap<(u64, u64), i128>,
    burned: BTreeMap<u64, u128>,
    fee_recips: Vec<u64>,
}

#[derive(Clone, Debug)]
struct Last {
    line: String,
    ok: bool,
    before: Sheet,
    after: Sheet,
    sup_before: Vec<u128>,
    sup_after: Vec<u128>,
    /// ghost state when the op was executed
    g: Ghost,
}

struct S {
    w: Option<World>,
    sc: Option<Sc>,
    factory: String,
    minter: String,
    coll: String,
    wl_a: Option<String>,
    wl_b: Option<String>,
    src_coll: Option<String>,
    /// corpus only: the source "collection" forwards funds
    fwd: bool,
    accts: Vec<u64>,
    fee_accts: Vec<u64>,
    last: Option<Last>,
    g: Option<Ghost>,
    err_kinds: BTreeMap<String, u64>,
    /// diagnostics that never decide anything (ghost vs the contracts' own answers)
    diag: BTreeMap<String, u64>,
    diag_first: BTreeMap<String, String>,
}

fn jcoin_to_c(v: &Value) -> Option<C> {
    Some((denom_id(v.get("denom")?.as_str()?), v.get("amount")?.as_str()?.parse().ok()?))
}
fn jnanos(v: &Value) -> Option<u64> {
    v.as_str()?.parse().ok()
}

/// DIAGNOSTIC ONLY (drift part `why=`, evidence notes): does the error text look like a payment / price / bank error?
/// Nothing that decides agreement or a monitor depends on error texts.
fn payment_owned(err: &str) -> bool {
    const PAT: [&str; 13] = [
        "Cannot transfer empty coins amount",
        "IncorrectPaymentAmount",
        "Must send reserve token",
        "Received unsupported denom",
        "Sent more than one denomination",
        "No funds sent",
        "Insufficient fee",
        "InvalidMintPrice",
        "verflow",
        "Cannot Sub",
        "non-zero airdrop price",
        "panic:",
        "nsufficient funds",
    ];
    PAT.iter().any(|p| err.contains(p))
}

fn err_kind(err: &str) -> String {
    let tail = err.rsplit(": ").next().unwrap_or(err);
    let tail: String = tail.chars().filter(|c| !c.is_ascii_digit()).take(48).collect();
    tail.replace(' ', "_")
}

fn sha(b: &[u8]) -> Vec<u8> {
    use sha2::{Digest, Sha256};
    let mut h = Sha256::new();
    h.update(b);
    h.finalize().to_vec()
}
fn blake16(b: &[u8]) -> Vec<u8> {
    blake3::hash(b).as_bytes()[..16].to_vec()
}
/// sorted-pair Merkle tree over the BUYERS' addresses: (root, proof per buyer). `whitelist-merkletree` hashes with
/// SHA-256, `tiered-whitelist-merkletree` with BLAKE3 truncated to 16 bytes.
fn buyers_tree(h: fn(&[u8]) -> Vec<u8>) -> (String, Vec<Vec<String>>) {
    let mut level: Vec<Vec<u8>> = BUYERS.iter().map(|b| h(addr(*b).as_bytes())).collect();
    let mut idx: Vec<usize> = (0..level.len()).collect();
    let mut proofs: Vec<Vec<String>> = vec![vec![]; level.len()];
    while level.len() > 1 {
        for (i, ix) in idx.iter_mut().enumerate() {
            let sib = *ix ^ 1;
            if sib < level.len() {
                proofs[i].push(hex::encode(&level[sib]));
            }
            *ix /= 2;
        }
        let mut next = vec![];
        for ch in level.chunks(2) {
            if ch.len() == 2 {
                let mut pair = [ch[0].clone(), ch[1].clone()];
                pair.sort_unstable();
                next.push(h(&pair.concat()));
            } else {
                next.push(ch[0].clone());
            }
        }
        level = next;
    }
    (hex::encode(&level[0]), proofs)
}

/// floor(x * bps / 10^4) without overflow for x < 2^114
fn mul_bps(x: u128, bps: u64) -> u128 {
    let q = x / 10_000;
    let r = x % 10_000;
    q * bps as u128 + r * bps as u128 / 10_000
}

// ------------------------------------------------------------------------------------------------ message surface
//
// The ExecuteMsg variants are enumerated at RUN TIME from the JSON schema of each minter crate, so a new message does
// not stop this file from compiling: it is reported (`unknown-variant:*`) and sent — raw JSON, minimal arguments
// derived from the schema — under the monitors ("no message strands / creates / loses coins").

fn exec_schema(kind: MinterKind) -> Value {
    use cosmwasm_schema::schema_for;
    let s = match kind {
        MinterKind::Vending => serde_json::to_value(schema_for!(vending_minter::msg::ExecuteMsg)),
        MinterKind::VendingFeatured => serde_json::to_value(schema_for!(vending_minter_featured::msg::ExecuteMsg)),
        MinterKind::VendingFlex => serde_json::to_value(schema_for!(vending_minter_wl_flex::msg::ExecuteMsg)),
        MinterKind::VendingFlexFeatured => serde_json::to_value(schema_for!(vending_minter_wl_flex_featured::msg::ExecuteMsg)),
        MinterKind::VendingMerkle => serde_json::to_value(schema_for!(vending_minter_merkle_wl::msg::ExecuteMsg)),
        MinterKind::VendingMerkleFeatured => serde_json::to_value(schema_for!(vending_minter_merkle_wl_featured::msg::ExecuteMsg)),
        MinterKind::OpenEdition => serde_json::to_value(schema_for!(open_edition_minter::msg::ExecuteMsg)),
        MinterKind::OpenEditionFlex => serde_json::to_value(schema_for!(open_edition_minter_wl_flex::msg::ExecuteMsg)),
        MinterKind::OpenEditionMerkle => serde_json::to_value(schema_for!(open_edition_minter_merkle_wl::msg::ExecuteMsg)),
        MinterKind::TokenMerge => serde_json::to_value(schema_for!(token_merge_minter::msg::ExecuteMsg)),
        MinterKind::Base => serde_json::to_value(schema_for!(base_minter::msg::ExecuteMsg)),
    };
    s.unwrap_or(Value::Null)
}

/// variants driven by the dedicated protocol ops (`mint`, `set_price`, …)
const HANDLED: [&str; 8] = ["mint", "mint_to", "mint_for", "update_mint_price", "update_discount_price", "remove_discount_price", "set_whitelist", "receive_nft"];
/// the other variants that exist today (anything else is reported as unknown — and sent all the same)
const OTHER_TODAY: [&str; 7] = ["purge", "update_start_time", "update_end_time", "update_start_trading_time", "update_per_address_limit", "shuffle", "burn_remaining"];

/// (variant name, schema node of the variant)
fn variants_of(schema: &Value) -> Vec<(String, Value)> {
    let mut out = vec![];
    for v in schema.get("oneOf").or_else(|| schema.get("anyOf")).and_then(|x| x.as_array()).cloned().unwrap_or_default() {
        if let Some(e) = v.get("enum").and_then(|e| e.as_array()) {
            for n in e {
                if let Some(n) = n.as_str() {
                    out.push((n.to_string(), Value::Null));
                }
            }
        } else if let Some(req) = v.get("required").and_then(|r| r.as_array()).and_then(|r| r.first()).and_then(|r| r.as_str()) {
            out.push((req.to_string(), v["properties"][req].clone()));
        }
    }
    out
}

/// a minimal value for a schema node: required properties only, `null` where allowed, `n` for numbers / numeric strings,
/// an account for address-like names
fn build_value(node: &Value, defs: &Value, hint: &str, n: u64, depth: u32) -> Value {
    if depth > 8 {
        return Value::Null;
    }
    if let Some(r) = node.get("$ref").and_then(|r| r.as_str()) {
        let name = r.rsplit('/').next().unwrap_or("");
        return build_value(&defs[name], defs, name, n, depth + 1);
    }
    if let Some(a) = node.get("allOf").and_then(|a| a.as_array()) {
        if let Some(f) = a.first() {
            return build_value(f, defs, hint, n, depth + 1);
        }
    }
    for key in ["anyOf", "oneOf"] {
        if let Some(a) = node.get(key).and_then(|a| a.as_array()) {
            if a.iter().any(|x| x.get("type").and_then(|t| t.as_str()) == Some("null")) {
                return Value::Null;
            }
            if let Some(f) = a.first() {
                if let Some(req) = f.get("required").and_then(|r| r.as_array()).and_then(|r| r.first()).and_then(|r| r.as_str()) {
                    let mut m = serde_json::Map::new();
                    m.insert(req.to_string(), build_value(&f["properties"][req], defs, req, n, depth + 1));
                    return Value::Object(m);
                }
                return build_value(f, defs, hint, n, depth + 1);
            }
        }
    }
    let ty = match node.get("type") {
        Some(Value::String(s)) => s.clone(),
        Some(Value::Array(a)) => {
            if a.iter().any(|x| x.as_str() == Some("null")) {
                return Value::Null;
            }
            a.first().and_then(|x| x.as_str()).unwrap_or("null").to_string()
        }
        _ => "object".to_string(),
    };
    match ty.as_str() {
        "object" => {
            let mut m = serde_json::Map::new();
            for r in node.get("required").and_then(|r| r.as_array()).cloned().unwrap_or_default() {
                if let Some(r) = r.as_str() {
                    m.insert(r.to_string(), build_value(&node["properties"][r], defs, r, n, depth + 1));
                }
            }
            Value::Object(m)
        }
        "string" => {
            let h = hint.to_ascii_lowercase();
            if ["recipient", "address", "addr", "whitelist", "sender", "contract", "collection", "owner", "admin", "to"].iter().any(|k| h.contains(k)) {
                Value::String(addr(RECIP))
            } else if h.contains("binary") || h == "msg" {
                Value::String("e30=".into())
            } else if h.contains("uri") || h.contains("url") {
                Value::String("ipfs://bafybeigi3bwpvyvsmnbj46ra4hyffcxdeaj6ntfk5jpic5mx27x6ih2qvq/1".into())
            } else {
                Value::String(n.to_string())
            }
        }
        "integer" | "number" => {
            let small = node.get("format").and_then(|f| f.as_str()).map(|f| f.contains("32") || f.contains("16") || f.contains("8")).unwrap_or(false);
            json!(if small { n % 40 + 1 } else { n })
        }
        "boolean" => json!(false),
        "array" => json!([]),
        _ => Value::Null,
    }
}

/// the JSON message for variant `name` of this minter's ExecuteMsg (None: no such variant in the schema)
fn build_variant(kind: MinterKind, name: &str, n: u64) -> Option<Value> {
    let schema = exec_schema(kind);
    let defs = schema.get("definitions").cloned().unwrap_or(Value::Null);
    let (_, node) = variants_of(&schema).into_iter().find(|(v, _)| v == name)?;
    if node.is_null() {
        return Some(Value::String(name.to_string()));
    }
    let mut m = serde_json::Map::new();
    m.insert(name.to_string(), build_value(&node, &defs, name, n, 0));
    Some(Value::Object(m))
}

// ------------------------------------------------------------------------------------------------ corpus-only helper
//
// A "collection" that FORWARDS the funds attached to it when it hands a token to the token-merge minter (a standard
// cw721 `send_nft` never does). Only used by the corpus replay `corpus/C02/merge-deposit-with-funds.json` (header
// `fwd=1`), which shows on the real contract what `C02_merge_deposit_funds_counterexample` proves on the model: the
// deposit path has no payment check, so forwarded coins stay in the minter.
fn forwarder_box() -> lp_harness::boxes::Boxed {
    use cosmwasm_std::{Binary, Deps, DepsMut, Empty, Env, MessageInfo, StdError, StdResult, WasmMsg};
    fn exec(_d: DepsMut, _e: Env, info: MessageInfo, msg: Value) -> StdResult<Response> {
        if let Some(f) = msg.get("forward") {
            let minter = f["minter"].as_str().ok_or_else(|| StdError::generic_err("minter"))?.to_string();
            let inner = to_json_binary(&json!({"deposit_token":{"recipient": null}}))?;
            let m = WasmMsg::Execute {
                contract_addr: minter,
                msg: to_json_binary(&json!({"receive_nft":{"sender": info.sender, "token_id": f["token_id"], "msg": inner}}))?,
                funds: info.funds,
            };
            return Ok(Response::new().add_message(m));
        }
        Ok(Response::new()) // `burn` and anything else: accepted, nothing to do
    }
    fn inst(_d: DepsMut, _e: Env, _i: MessageInfo, _m: Empty) -> StdResult<Response> {
        Ok(Response::new())
    }
    fn query(_d: Deps, _e: Env, _m: Empty) -> StdResult<Binary> {
        Ok(Binary::default())
    }
    Box::new(cw_multi_test::ContractWrapper::new(exec, inst, query))
}

// ------------------------------------------------------------------------------------------------ the system under test

impl S {
    fn new() -> S {
        S {
            w: None,
            sc: None,
            factory: String::new(),
            minter: String::new(),
            coll: String::new(),
            wl_a: None,
            wl_b: None,
            src_coll: None,
            fwd: false,
            accts: vec![],
            fee_accts: vec![],
            last: None,
            g: None,
            err_kinds: Default::default(),
            diag: Default::default(),
            diag_first: Default::default(),
        }
    }
    fn world(&mut self) -> &mut World {
        self.w.as_mut().expect("world")
    }
    fn kind(&self) -> MinterKind {
        self.sc.as_ref().unwrap().kind()
    }
    fn ghost(&self) -> &Ghost {
        self.g.as_ref().expect("ghost")
    }
    fn diag(&mut self, key: &str, first: String) {
        *self.diag.entry(key.to_string()).or_insert(0) += 1;
        self.diag_first.entry(key.to_string()).or_insert(first);
    }
    fn sheet(&self) -> Sheet {
        let w = self.w.as_ref().unwrap();
        let mut v = vec![];
        for a in &self.accts {
            let s = addr(*a);
            for d in DENOMS {
                v.push(((*a, d), w.balance(&s, d)));
            }
        }
        v
    }
    /// total supply per tracked denom = sum over EVERY holder known to the bank module (`World::all_balances`), so an
    /// untracked holder is seen as well
    fn supplies(&self) -> Vec<u128> {
        let w = self.w.as_ref().unwrap();
        let mut tot = vec![0u128; DENOMS.len()];
        for ((_, dn), n) in w.all_balances() {
            if let Some(i) = DENOMS.iter().position(|d| *d == denom_id(&dn)) {
                tot[i] += n;
            }
        }
        tot
    }
    /// the minter's `MintPrice {}` answer: (drift rendering public/current/discount/airdrop, current price)
    fn px(&self) -> (String, Option<C>) {
        let k = self.kind();
        if !(k.is_vending() || k.is_open_edition()) {
            return ("-".into(), None);
        }
        let w = self.w.as_ref().unwrap();
        match w.query(&self.minter, &json!({"mint_price":{}})) {
            Err(_) => ("?".into(), None),
            Ok(r) => {
                let c = |x: &Value| jcoin_to_c(x).map(|c| fmt_c(&c)).unwrap_or_else(|| "?".into());
                let oc = |x: Option<&Value>| match x {
                    Some(Value::Null) | None => "-".to_string(),
                    Some(x) => c(x),
                };
                let disc = if k.is_vending() { oc(r.get("discount_price")) } else { "-".into() };
                (
                    format!(
                        "{}/{}/{}/{}",
                        c(&r["public_price"]),
                        c(&r["current_price"]),
                        disc,
                        jcoin_to_c(&r["airdrop_price"]).map(|c| c.1.to_string()).unwrap_or_else(|| "?".into())
                    ),
                    jcoin_to_c(&r["current_price"]),
                )
            }
        }
    }
    fn obs(&mut self, sheet: &Sheet, sup: &[u128]) -> String {
        let fmt = |fee: bool, fa: &Vec<u64>| -> String {
            let v: Vec<String> = sheet.iter().filter(|((a, _), n)| *n != 0 && fa.contains(a) == fee).map(|((a, d), n)| format!("{a}:{d}:{n}")).collect();
            if v.is_empty() {
                "-".into()
            } else {
                v.join(",")
            }
        };
        let sup: Vec<String> = DENOMS.iter().zip(sup.iter()).map(|(d, n)| format!("{d}:{n}")).collect();
        let (px, cur) = self.px();
        // diagnostic: the harness's own idea of the price in force vs the minter's MintPrice answer
        if let Some(cur) = cur {
            let mine = price_in_force(self.kind(), self.ghost(), false).0;
            if mine != cur {
                let now = self.ghost().now;
                self.diag("ghost-price-vs-MintPrice-query", format!("ghost {mine:?} query {cur:?} at {now}"));
            }
        }
        format!("bal={} ## fb={} sup={} px={} why=-", fmt(false, &self.fee_accts), fmt(true, &self.fee_accts), sup.join(","), px)
    }

    fn wl_kind(kind: MinterKind, incl: bool) -> WlKind {
        match (kind.is_flex(), kind.is_merkle(), incl) {
            (true, _, true) => WlKind::TieredFlex,
            (true, _, false) => WlKind::Flex,
            (_, true, true) => WlKind::TieredMerkle,
            (_, true, false) => WlKind::Merkle,
            (_, _, true) => WlKind::Tiered,
            _ => WlKind::Plain,
        }
    }

    fn make_wl(&mut self, kind: MinterKind, spec: &Sched) -> String {
        let wk = Self::wl_kind(kind, spec.incl);
        let members: Vec<(u64, u32)> = BUYERS.iter().map(|b| (*b, 30)).collect();
        let root = if wk == WlKind::TieredMerkle { buyers_tree(blake16).0 } else { buyers_tree(sha).0 };
        let args = WlArgs {
            admin: WL_ADMIN,
            member_limit: 1000,
            admins_mutable: true,
            whale_cap: None,
            stages: spec
                .stages
                .iter()
                .map(|s| WlStage { start: s.start, end: s.end, mint_price: s.price, per_address_limit: 30, mint_count_limit: None, members: members.clone(), merkle_root: root.clone() })
                .collect(),
        };
        match self.world().new_whitelist(wk, &args) {
            Ok(a) => a,
            Err(e) => panic!("C02 generator produced an invalid whitelist ({wk:?} {}): {e}", fmt_sched(&Some(spec.clone()))),
        }
    }

    /// the whitelist contract's own stage table (the `stages=` witness of a `wl_edit` line)
    fn reread_sched(&self, which: char) -> Option<Sched> {
        let (a, incl) = match which {
            'a' => (self.wl_a.clone()?, self.sc.as_ref()?.wl.as_ref()?.incl),
            _ => (self.wl_b.clone()?, self.sc.as_ref()?.wlb.as_ref()?.incl),
        };
        let w = self.w.as_ref()?;
        if incl {
            let r = w.query(&a, &json!({"stages":{}})).ok()?;
            let stages = r["stages"]
                .as_array()?
                .iter()
                .filter_map(|e| {
                    let s = if e.get("stage").is_some() { &e["stage"] } else { e };
                    Some(St { price: jcoin_to_c(&s["mint_price"])?, start: jnanos(&s["start_time"])?, end: jnanos(&s["end_time"])? })
                })
                .collect();
            Some(Sched { incl, stages })
        } else {
            let r = w.query(&a, &json!({"config":{}})).ok()?;
            Some(Sched { incl, stages: vec![St { price: jcoin_to_c(&r["mint_price"])?, start: jnanos(&r["start_time"])?, end: jnanos(&r["end_time"])? }] })
        }
    }

    fn do_mint(&mut self, line: &str) -> Result<(), String> {
        let kind = self.kind();
        let whoid = kv_u64(line, "who").expect("who");
        let who = addr(whoid);
        let admin = kv_bool(line, "admin").expect("admin");
        let funds: Vec<(u64, u128)> = kv_pairs(line, "funds").expect("funds").into_iter().map(|(d, a)| (d as u64, a)).collect();
        let to = kv_opt_u64(line, "to").unwrap_or(None).map(addr);
        let for_id = kv_opt_u64(line, "for").unwrap_or(None);
        let direct = kv_bool(line, "direct").unwrap_or(false);
        let minter = self.minter.clone();
        let src = self.src_coll.clone();
        // the attached whitelist's kind decides which tree the proof must come from
        let tiered = self.ghost().sched().map(|s| s.incl).unwrap_or(false);
        let fwd = self.fwd;
        let w = self.world();
        let r = if admin {
            let rcp = to.unwrap_or_else(|| addr(RECIP));
            match for_id {
                Some(t) => w.exec(&who, &minter, &json!({"mint_for":{"token_id": t, "recipient": rcp}}), &funds),
                None => w.exec(&who, &minter, &json!({"mint_to":{"recipient": rcp}}), &funds),
            }
        } else {
            match kind {
                MinterKind::Base => w.exec(&who, &minter, &json!({"mint":{"token_uri":"ipfs://bafybeigi3bwpvyvsmnbj46ra4hyffcxdeaj6ntfk5jpic5mx27x6ih2qvq/1"}}), &funds),
                MinterKind::TokenMerge => {
                    let tok = kv_u64(line, "tok").unwrap_or(1).to_string();
                    let inner = to_json_binary(&json!({"deposit_token":{"recipient": null}})).unwrap();
                    if direct {
                        // a stranger pretends to be a collection
                        w.exec(&who, &minter, &json!({"receive_nft":{"sender": who, "token_id": tok, "msg": inner}}), &funds)
                    } else if fwd {
                        w.exec(&who, &src.unwrap(), &json!({"forward":{"minter": minter, "token_id": tok}}), &funds)
                    } else {
                        w.exec(&who, &src.unwrap(), &json!({"send_nft":{"contract": minter, "token_id": tok, "msg": inner}}), &funds)
                    }
                }
                k if k.is_merkle() => {
                    let proof: Vec<String> = match BUYERS.iter().position(|b| *b == whoid) {
                        Some(i) => {
                            if tiered {
                                buyers_tree(blake16).1[i].clone()
                            } else {
                                buyers_tree(sha).1[i].clone()
                            }
                        }
                        None => vec![],
                    };
                    w.exec(&who, &minter, &json!({"mint":{"proof_hashes": proof, "stage": null, "allocation": null}}), &funds)
                }
                _ => w.exec(&who, &minter, &json!({"mint":{}}), &funds),
            }
        };
        r.map(|_| ())
    }

    fn do_sudo(&mut self, line: &str) -> Result<(), String> {
        let kind = self.kind();
        let fee_bps = kv_u64(line, "fee_bps").expect("fee_bps");
        let air = parse_c(kv(line, "air").expect("air")).expect("air");
        let air_bps = kv_u64(line, "air_bps").expect("air_bps");
        let dev = kv_u64(line, "dev").expect("dev");
        // optional: move the factory's CURRENT minimum mint price (a base minter must keep charging the captured one)
        let min: Value = match kv(line, "min").and_then(parse_c) {
            Some(c) => jcoin(c),
            None => Value::Null,
        };
        let base = |ext: Value| {
            json!({"update_params": {"code_id": null, "add_sg721_code_ids": null, "rm_sg721_code_ids": null, "frozen": null,
            "creation_fee": null, "min_mint_price": min.clone(), "mint_fee_bps": fee_bps, "max_trading_offset_secs": null, "extension": ext}})
        };
        let msg = match kind.factory() {
            FactoryKind::Vending => base(json!({"max_token_limit": null, "max_per_address_limit": null, "airdrop_mint_price": jcoin(air),
                "airdrop_mint_fee_bps": air_bps, "shuffle_fee": null})),
            FactoryKind::OpenEdition => base(json!({"max_token_limit": null, "max_per_address_limit": null, "min_mint_price": null,
                "airdrop_mint_price": jcoin(air), "airdrop_mint_fee_bps": air_bps, "dev_fee_address": addr(dev)})),
            FactoryKind::TokenMerge => json!({"update_params": {"code_id": null, "add_sg721_code_ids": null, "rm_sg721_code_ids": null,
                "frozen": null, "creation_fee": null, "max_trading_offset_secs": null,
                "extension": {"max_token_limit": null, "max_per_address_limit": null, "airdrop_mint_price": jcoin(air),
                "airdrop_mint_fee_bps": air_bps, "shuffle_fee": null}}}),
            FactoryKind::Base => base(Value::Null),
        };
        let factory = self.factory.clone();
        self.world().sudo(&factory, &msg).map(|_| ())
    }

    /// `wl_edit which=<a|b> op=<start|end|price|rmstage|addstage> [k=<stage>] [t=<ns>] [e=<ns>] [p=<d:n>] [by=<account>]`
    fn do_wl_edit(&mut self, line: &str) -> Result<(), String> {
        let which = kv(line, "which").expect("which").chars().next().unwrap();
        let (a, incl) = match which {
            'a' => (self.wl_a.clone(), self.sc.as_ref().unwrap().wl.as_ref().map(|s| s.incl)),
            _ => (self.wl_b.clone(), self.sc.as_ref().unwrap().wlb.as_ref().map(|s| s.incl)),
        };
        let (Some(a), Some(incl)) = (a, incl) else { return Err("no such whitelist".into()) };
        let op = kv(line, "op").expect("op");
        let k = kv_u64(line, "k").unwrap_or(0);
        let t = kv_u64(line, "t").unwrap_or(0);
        let e = kv_u64(line, "e").unwrap_or(0);
        let p = kv(line, "p").and_then(parse_c).unwrap_or((0, 0));
        let by = addr(kv_u64(line, "by").unwrap_or(WL_ADMIN));
        let kind = self.kind();
        let msg = match (incl, op) {
            (false, "start") => json!({"update_start_time": jtime(t)}),
            (false, "end") => json!({"update_end_time": jtime(t)}),
            (true, "start") => json!({"update_stage_config": {"stage_id": k, "start_time": jtime(t)}}),
            (true, "end") => json!({"update_stage_config": {"stage_id": k, "end_time": jtime(t)}}),
            (true, "price") => json!({"update_stage_config": {"stage_id": k, "mint_price": jcoin(p)}}),
            (true, "rmstage") => json!({"remove_stage": {"stage_id": k}}),
            (true, "addstage") => {
                let mut stage = json!({"name": "added", "start_time": jtime(t), "end_time": jtime(e), "mint_price": jcoin(p), "mint_count_limit": null});
                let members: Vec<Value> = if kind.is_flex() {
                    BUYERS.iter().map(|b| json!({"address": addr(*b), "mint_count": 30})).collect()
                } else {
                    stage["per_address_limit"] = json!(30);
                    BUYERS.iter().map(|b| Value::String(addr(*b))).collect()
                };
                json!({"add_stage": {"stage": stage, "members": members}})
            }
            _ => return Err("edit not offered by this whitelist kind".into()),
        };
        self.world().exec(&by, &a, &msg, &[]).map(|_| ())
    }

    /// ghost bookkeeping of an ACCEPTED whitelist edit: exactly what was sent
    fn ghost_wl_edit(&mut self, line: &str) {
        let which = kv(line, "which").unwrap().chars().next().unwrap();
        let op = kv(line, "op").unwrap().to_string();
        let k = kv_u64(line, "k").unwrap_or(0) as usize;
        let t = kv_u64(line, "t").unwrap_or(0);
        let e = kv_u64(line, "e").unwrap_or(0);
        let p = kv(line, "p").and_then(parse_c).unwrap_or((0, 0));
        let Some(s) = self.g.as_mut().unwrap().wl_mut(which) else { return };
        match op.as_str() {
            "start" => {
                if let Some(st) = s.stages.get_mut(k) {
                    st.start = t
                }
            }
            "end" => {
                if let Some(st) = s.stages.get_mut(k) {
                    st.end = t
                }
            }
            "price" => {
                if let Some(st) = s.stages.get_mut(k) {
                    st.price = p
                }
            }
            "rmstage" => s.stages.truncate(k),
            "addstage" => s.stages.push(St { price: p, start: t, end: e }),
            _ => {}
        }
    }

    /// `other msg=<variant> who=<a> funds=<…> n=<number used for numeric / timestamp arguments>`
    fn do_other(&mut self, line: &str) -> Result<(), String> {
        let name = kv(line, "msg").expect("msg");
        let who = addr(kv_u64(line, "who").expect("who"));
        let n = kv_u64(line, "n").unwrap_or(1);
        let funds: Vec<(u64, u128)> = kv_pairs(line, "funds").expect("funds").into_iter().map(|(d, a)| (d as u64, a)).collect();
        let Some(msg) = build_variant(self.kind(), name, n) else { return Err("no such ExecuteMsg variant".into()) };
        let minter = self.minter.clone();
        self.world().exec(&who, &minter, &msg, &funds).map(|_| ())
    }

    /// what a successful mint must do, from ghost state and the fee-schedule oracle
    fn expect_mint(&self, g: &Ghost, who: u64, admin: bool) -> Expect {
        let kind = self.kind();
        let sc = self.sc.as_ref().unwrap();
        let ((pd, pn), bps) = price_in_force(kind, g, admin);
        let mut e = Expect { price: (pd, pn), ..Default::default() };
        e.seller = if kind == MinterKind::TokenMerge { ADMIN } else { sc.pay.unwrap_or(ADMIN) };
        let mut flows: Vec<Flow> = vec![];
        if kind == MinterKind::Base {
            e.fee = pn;
            flows = oracle_fair_burn(&self.minter, pn);
        } else if !(kind == MinterKind::TokenMerge && !admin) {
            e.fee = mul_bps(pn, bps);
            if e.fee > 0 {
                let dev = if kind.is_open_edition() { Some(g.dev) } else { None };
                flows = oracle_distribute((pd, e.fee), kind.is_featured(), dev);
            }
        }
        for f in &flows {
            if let Flow::Send(a, _, _) = f {
                if !e.fee_recips.contains(a) {
                    e.fee_recips.push(*a);
                }
            }
        }
        if kind != MinterKind::Base && !(kind == MinterKind::TokenMerge && !admin) && pn > e.fee {
            flows.push(Flow::Send(e.seller, pd, pn - e.fee));
        }
        if pn != 0 {
            *e.delta.entry((who, pd)).or_insert(0) -= pn as i128;
        }
        let mut out: u128 = 0;
        for f in flows {
            match f {
                Flow::Send(a, d, n) => {
                    *e.delta.entry((a, d)).or_insert(0) += n as i128;
                    out += n;
                }
                Flow::Burn(d, n) => {
                    *e.burned.entry(d).or_insert(0) += n;
                    out += n;
                }
            }
        }
        // whatever the schedule does not pass on would stay in the minter (never on the unchanged tree)
        if pn != out {
            *e.delta.entry((addr_id(&self.minter), pd)).or_insert(0) += pn as i128 - out as i128;
        }
        e
    }
}

impl Sut for S {
    fn begin(&mut self, header: &str) -> (String, String) {
        let sc = Sc::parse(header);
        let kind = sc.kind();
        let ek = std::mem::take(&mut self.err_kinds);
        let dg = std::mem::take(&mut self.diag);
        let df = std::mem::take(&mut self.diag_first);
        *self = S::new();
        self.err_kinds = ek;
        self.diag = dg;
        self.diag_first = df;
        self.sc = Some(sc.clone());
        self.fee_accts = sc.fee_accts();
        self.w = Some(World::new(sc.now));
        let mut p = self.world().default_params(kind);
        p.min_mint_price = (sc.d, sc.min);
        p.mint_fee_bps = sc.fee_bps;
        p.airdrop_mint_price = sc.air;
        p.airdrop_mint_fee_bps = sc.air_bps;
        p.dev_fee_address = sc.devs[0];
        let factory = self.world().new_factory(kind.factory(), &p).expect("factory");
        let mut extra: Vec<String> = vec![factory.clone()];
        self.world().fund(&addr(ADMIN), 0, p.creation_fee.1);
        let mut a = self.world().default_create(kind, &p);
        a.creator = ADMIN;
        a.start_time = sc.start;
        a.mint_price = (sc.d, sc.price);
        a.payment_address = sc.pay;
        a.per_address_limit = 3;
        a.num_tokens = Some(sc.ntok.unwrap_or(60) as u32);
        if kind.is_open_edition() {
            a.num_tokens = if sc.cap { Some(sc.ntok.unwrap_or(60) as u32) } else { None };
            a.end_time = Some(sc.start + 30 * DAY);
            a.per_address_limit = 5;
        }
        if let Some(p) = sc.pal {
            a.per_address_limit = p as u32;
        }
        if kind == MinterKind::TokenMerge && kv_bool(header, "fwd").unwrap_or(false) {
            // corpus only: the listed "collection" is a contract that forwards attached funds with the token
            let code = self.world().app.store_code(forwarder_box());
            let fw = self.world().instantiate(code, &addr(MERGER), &json!({}), &[], None).expect("forwarder");
            a.mint_tokens = vec![(fw.clone(), 1)];
            extra.push(fw.clone());
            self.src_coll = Some(fw);
            self.fwd = true;
        } else if kind == MinterKind::TokenMerge {
            // source collection: a base-minter collection whose creator (MERGER) mints three 1/1 tokens
            let pb = self.world().default_params(MinterKind::Base);
            let fb = self.world().new_factory(FactoryKind::Base, &pb).expect("base factory");
            let mut ab = self.world().default_create(MinterKind::Base, &pb);
            ab.creator = MERGER;
            let fee1 = mul_bps(pb.min_mint_price.1, pb.mint_fee_bps);
            self.world().fund(&addr(MERGER), 0, pb.creation_fee.1 + 3 * fee1);
            let (mb, cb) = self.world().create_minter(&fb, MinterKind::Base, &ab).expect("source base minter");
            for i in 1..=3 {
                self.world()
                    .exec(&addr(MERGER), &mb, &json!({"mint":{"token_uri": format!("ipfs://bafybeigi3bwpvyvsmnbj46ra4hyffcxdeaj6ntfk5jpic5mx27x6ih2qvq/{i}")}}), &[(0, fee1)])
                    .expect("source mint");
            }
            a.mint_tokens = vec![(cb.clone(), 1)];
            extra.extend([fb, mb, cb.clone()]);
            self.src_coll = Some(cb);
        }
        let has_wl = kind != MinterKind::TokenMerge && kind != MinterKind::Base;
        if has_wl {
            if let Some(spec) = &sc.wl {
                let wa = self.make_wl(kind, spec);
                a.whitelist = Some(wa.clone());
                extra.push(wa.clone());
                self.wl_a = Some(wa);
            }
            if let Some(spec) = &sc.wlb {
                let wb = self.make_wl(kind, spec);
                extra.push(wb.clone());
                self.wl_b = Some(wb);
            }
        }
        let (minter, coll) = match self.world().create_minter(&factory, kind, &a) {
            Ok(x) => x,
            Err(e) => panic!("C02 generator produced an invalid creation ({header}): {e}"),
        };
        extra.extend([minter.clone(), coll.clone()]);
        self.factory = factory;
        self.minter = minter;
        self.coll = coll;
        self.g = Some(Ghost {
            public: if kind == MinterKind::Base { (0, sc.min) } else { (sc.d, sc.price) },
            discount: None,
            att: if has_wl && sc.wl.is_some() { Some('a') } else { None },
            wla: if has_wl { sc.wl.clone() } else { None },
            wlb: if has_wl { sc.wlb.clone() } else { None },
            fee_bps: sc.fee_bps,
            air: sc.air,
            air_bps: sc.air_bps,
            dev: sc.devs[0],
            now: sc.now,
        });
        let xaccts: Vec<u64> = extra.iter().map(|s| addr_id(s)).collect();
        self.accts = FIXED_ACCTS.iter().copied().chain(xaccts.iter().copied()).collect();
        let sheet = self.sheet();
        let sup = self.supplies();
        let init: Vec<String> = sheet.iter().filter(|(_, n)| *n != 0).map(|((a, d), n)| format!("{a}:{d}:{n}")).collect();
        let sup0: Vec<String> = DENOMS.iter().zip(sup.iter()).map(|(d, n)| format!("{d}:{n}")).collect();
        // the model gets the whitelists only where the minter has them
        let hdr = if has_wl { header.to_string() } else { header.split(' ').map(|w| if w.starts_with("wl=") { "wl=-" } else if w.starts_with("wlb=") { "wlb=-" } else { w }).collect::<Vec<_>>().join(" ") };
        let m = format!(
            "{hdr} xaccts={} minter={} admin={} init={} sup0={}",
            fmt_list(&xaccts),
            addr_id(&self.minter),
            ADMIN,
            if init.is_empty() { "-".into() } else { init.join(",") },
            sup0.join(",")
        );
        (m, "case".into())
    }

    fn exec(&mut self, line: &str) -> (String, String) {
        let op = line.split_whitespace().next().unwrap_or("");
        let before = self.sheet();
        let sup_before = self.supplies();
        let gb = self.ghost().clone();
        let minter = self.minter.clone();
        let kind = self.kind();
        let mut wit = String::new();
        let res: Result<(), String> = match op {
            "t" => {
                let t = kv_u64(line, "at").expect("at");
                self.world().set_time(t);
                self.g.as_mut().unwrap().now = t;
                Ok(())
            }
            "fund" => {
                let a = kv_u64(line, "a").expect("a");
                for (d, n) in kv_pairs(line, "cs").expect("cs") {
                    self.world().fund(&addr(a), d as u64, n);
                }
                Ok(())
            }
            "mint" => {
                let r = self.do_mint(line);
                // the witness is the OUTCOME (not an error text): an accepted call must pass every payment rule of the
                // model; a rejected call must leave the world unchanged. `pay` is diagnostic only (drift part).
                let pay = match &r {
                    Ok(()) => false,
                    Err(e) => {
                        *self.err_kinds.entry(err_kind(e)).or_insert(0) += 1;
                        payment_owned(e)
                    }
                };
                wit = format!(" allowed={} pay={}", r.is_ok() as u8, pay as u8);
                r
            }
            "set_price" => {
                let p = kv_u128(line, "p").expect("p");
                let r = self.world().exec(&addr(ADMIN), &minter, &json!({"update_mint_price":{"price": p.to_string()}}), &[]).map(|_| ());
                if r.is_ok() {
                    let g = self.g.as_mut().unwrap();
                    g.public.1 = p;
                    if kind.is_vending() && g.discount.map(|d| d.1 > p).unwrap_or(false) {
                        g.discount = None;
                    }
                }
                wit = format!(" acc={}", r.is_ok() as u8);
                r
            }
            "set_discount" => {
                let p = kv_u128(line, "p").expect("p");
                let r = self.world().exec(&addr(ADMIN), &minter, &json!({"update_discount_price":{"price": p.to_string()}}), &[]).map(|_| ());
                if r.is_ok() {
                    let g = self.g.as_mut().unwrap();
                    g.discount = Some((g.public.0, p));
                }
                wit = format!(" acc={}", r.is_ok() as u8);
                r
            }
            "rm_discount" => {
                let r = self.world().exec(&addr(ADMIN), &minter, &json!({"remove_discount_price":{}}), &[]).map(|_| ());
                if r.is_ok() {
                    self.g.as_mut().unwrap().discount = None;
                }
                wit = format!(" acc={}", r.is_ok() as u8);
                r
            }
            "set_wl" => {
                let which = kv(line, "which").expect("which").chars().next().unwrap();
                let a = if which == 'a' { self.wl_a.clone() } else { self.wl_b.clone() };
                let r = match a {
                    Some(a) => self.world().exec(&addr(ADMIN), &minter, &json!({"set_whitelist":{"whitelist": a}}), &[]).map(|_| ()),
                    None => Err("no such whitelist in this case".into()),
                };
                if r.is_ok() {
                    self.g.as_mut().unwrap().att = Some(which);
                }
                wit = format!(" acc={}", r.is_ok() as u8);
                r
            }
            "wl_edit" => {
                let which = kv(line, "which").expect("which").chars().next().unwrap();
                let r = self.do_wl_edit(line);
                if r.is_ok() {
                    self.ghost_wl_edit(line);
                }
                let re = self.reread_sched(which);
                let gs = if which == 'a' { self.ghost().wla.clone() } else { self.ghost().wlb.clone() };
                if re.is_some() && re != gs {
                    self.diag("whitelist-table-vs-what-was-sent", format!("`{line}`: whitelist says {} harness sent {}", fmt_sched(&re), fmt_sched(&gs)));
                }
                wit = format!(" acc={} stages={}", r.is_ok() as u8, fmt_sched(&re.or(gs)));
                r
            }
            "sudo" => {
                let r = self.do_sudo(line);
                if r.is_ok() {
                    let g = self.g.as_mut().unwrap();
                    g.fee_bps = kv_u64(line, "fee_bps").unwrap();
                    g.air = parse_c(kv(line, "air").unwrap()).unwrap();
                    g.air_bps = kv_u64(line, "air_bps").unwrap();
                    g.dev = kv_u64(line, "dev").unwrap();
                }
                wit = format!(" acc={}", r.is_ok() as u8);
                r
            }
            "other" => self.do_other(line),
            _ => Err("bad-op".into()),
        };
        let after = self.sheet();
        let sup_after = self.supplies();
        if op == "other" {
            // witness: the observed net bank effect, as payments made by the caller
            let who = kv_u64(line, "who").unwrap_or(0);
            let mut mv: Vec<String> = vec![];
            for (i, ((a, d), n)) in after.iter().enumerate() {
                if *a != who && *n > before[i].1 {
                    mv.push(format!("send:{a}:{d}:{}", n - before[i].1));
                }
            }
            for (i, d) in DENOMS.iter().enumerate() {
                if sup_before[i] > sup_after[i] {
                    mv.push(format!("burn:{d}:{}", sup_before[i] - sup_after[i]));
                }
            }
            wit = format!(" acc={} moves={}", res.is_ok() as u8, if mv.is_empty() { "-".into() } else { mv.join(",") });
        }
        let out = format!("{} {}", if res.is_ok() { "ok" } else { "err" }, self.obs(&after, &sup_after));
        self.last = Some(Last { line: line.to_string(), ok: res.is_ok(), before, after, sup_before, sup_after, g: gb });
        (format!("{line}{wit}"), out)
    }

    /// Direct transcription of the property on the implementation's own balance sheets, against what the harness
    /// itself configured (ghost state) and the fee-schedule oracle.
    fn monitor(&mut self) -> Option<(String, String)> {
        let l = self.last.clone()?;
        let kind = self.kind();
        let vname = kind.name();
        let op = l.line.split_whitespace().next().unwrap_or("?").to_string();
        let minter_id = addr_id(&self.minter);
        let bad = |p: &str, w: String| Some((format!("{vname}/{op}/{p}"), format!("{w} on `{}`", l.line)));
        let delta = |a: u64, d: u64| -> i128 {
            let i = l.before.iter().position(|(k, _)| *k == (a, d)).unwrap();
            l.after[i].1 as i128 - l.before[i].1 as i128
        };
        // (1) the minter contract never holds money after any operation (mint, configuration, ANY other message)
        for d in DENOMS {
            if delta(minter_id, d) != 0 {
                return bad("minter-balance-changed", format!("minter balance in denom {d} changed by {}", delta(minter_id, d)));
            }
        }
        // (2) no coins created or lost: sum of all balance deltas = -(burned) = supply delta; nothing leaks to untracked accounts
        for (i, d) in DENOMS.iter().enumerate() {
            let sum: i128 = self.accts.iter().map(|a| delta(*a, *d)).sum();
            let ds = l.sup_after[i] as i128 - l.sup_before[i] as i128;
            if sum != ds {
                return bad("sum-deltas-vs-burned", format!("denom {d}: sum of tracked balance deltas {sum} != supply delta {ds}"));
            }
            let tot: u128 = l.after.iter().filter(|((_, dd), _)| dd == d).map(|(_, n)| *n).sum();
            if tot != l.sup_after[i] {
                return bad("untracked-holder", format!("denom {d}: tracked balances {tot} != total supply {}", l.sup_after[i]));
            }
        }
        if op == "fund" || op == "t" {
            return None;
        }
        // (3) failed calls move no funds
        if !l.ok {
            if l.before != l.after || l.sup_before != l.sup_after {
                return bad("failed-call-moved-funds", "a rejected call changed a balance or the supply".into());
            }
            return None;
        }
        if op == "other" {
            // any other message: besides (1) and (2), nobody but the caller may lose money, nothing may be created
            let who = kv_u64(&l.line, "who").unwrap_or(0);
            for a in &self.accts {
                for d in DENOMS {
                    if *a != who && delta(*a, d) < 0 {
                        return bad("third-party-debited", format!("account {a} denom {d} changed by {}", delta(*a, d)));
                    }
                }
            }
            for i in 0..DENOMS.len() {
                if l.sup_after[i] > l.sup_before[i] {
                    return bad("coins-created", format!("denom {}: supply grew", DENOMS[i]));
                }
            }
            return None;
        }
        if op != "mint" {
            if l.before != l.after || l.sup_before != l.sup_after {
                return bad("config-op-moved-funds", "a configuration update moved funds".into());
            }
            return None;
        }
        // successful mint
        let who = kv_u64(&l.line, "who").unwrap();
        let admin = kv_bool(&l.line, "admin").unwrap();
        let funds: Vec<(u64, u128)> = kv_pairs(&l.line, "funds").unwrap().into_iter().map(|(d, a)| (d as u64, a)).filter(|(_, a)| *a != 0).collect();
        let e = self.expect_mint(&l.g, who, admin);
        let (pd, pn) = e.price;
        // (4) accepted payment = price in force (nothing when zero)
        let want: Vec<(u64, u128)> = if pn == 0 { vec![] } else { vec![(pd, pn)] };
        if funds != want {
            return bad("accepted-payment-ne-price", format!("accepted funds {:?} but the price in force is {:?} ({})", funds, want, price_kind(kind, &l.g, admin)));
        }
        if e.fee > pn {
            return bad("fee-gt-price", format!("fee {} > price {pn}", e.fee));
        }
        // (5) where it went: every account's change = -(what it attached) + what the fee schedule and the payout send to it
        let exp = |a: u64, d: u64| -> i128 { e.delta.get(&(a, d)).copied().unwrap_or(0) };
        let recips: Vec<u64> = e.fee_recips.iter().copied().filter(|a| *a != who && *a != e.seller).collect();
        for (i, d) in DENOMS.iter().enumerate() {
            let burned = l.sup_before[i] as i128 - l.sup_after[i] as i128;
            let want_burn = e.burned.get(d).copied().unwrap_or(0) as i128;
            if delta(who, *d) != exp(who, *d) {
                return bad("payer-delta-ne-price", format!("denom {d}: payer delta {} != {} (price {pn}, payer's own inflows netted)", delta(who, *d), exp(who, *d)));
            }
            if e.seller != who && delta(e.seller, *d) != exp(e.seller, *d) {
                return bad("seller-ne-price-minus-fee", format!("denom {d}: seller delta {} != {} (price - fee = {}, seller's fee shares netted)", delta(e.seller, *d), exp(e.seller, *d), pn - e.fee));
            }
            let got_fee: i128 = recips.iter().map(|a| delta(*a, *d)).sum::<i128>() + burned;
            let want_fee: i128 = recips.iter().map(|a| exp(*a, *d)).sum::<i128>() + want_burn;
            if got_fee != want_fee {
                return bad("fee-routing", format!("denom {d}: fee recipients + burned got {got_fee}, the network fee routed to them is {want_fee}"));
            }
            for a in &recips {
                if delta(*a, *d) != exp(*a, *d) {
                    return bad("fee-schedule", format!("denom {d}: fee {}: recipient {a} got {} but sg1's schedule (flag/developer of this contract) gives {}", e.fee, delta(*a, *d), exp(*a, *d)));
                }
            }
            if burned != want_burn {
                let key = if kind == MinterKind::Base { "fee-schedule" } else { "unexpected-burn" };
                return bad(key, format!("denom {d}: {burned} burned by a mint, the schedule burns {want_burn}"));
            }
            for a in &self.accts {
                if *a != who && *a != e.seller && !recips.contains(a) && delta(*a, *d) != exp(*a, *d) {
                    return bad("bystander-changed", format!("account {a} denom {d} changed by {}", delta(*a, *d)));
                }
            }
        }
        None
    }
}

// ------------------------------------------------------------------------------------------------ generators

fn price_grid(rng: &mut Rng) -> u128 {
    match rng.below(10) {
        0 => 0,
        1 | 2 => *rng.pick(&[1u128, 2, 3, 4, 5, 7, 9999, 10001]),
        3 | 4 | 5 => {
            let k = rng.range(1, 30) as u32;
            let t = 10u128.pow(k);
            *rng.pick(&[t - 1, t, t + 1])
        }
        6 => 50_000_000 * rng.range(1, 5) as u128,
        _ => rng.sized_u128(100),
    }
}
fn bps_grid(rng: &mut Rng) -> u64 {
    match rng.below(20) {
        0 => 10_001,
        1 => 20_000,
        _ => *rng.pick(&[0u64, 1, 250, 5000, 9999, 10_000, 1000]),
    }
}
fn price_class(n: u128) -> &'static str {
    match n {
        0 => "zero",
        1..=9 => "tiny",
        10..=99_999 => "small",
        n if n < (1u128 << 64) => "mid",
        _ => "huge",
    }
}
fn bps_class(b: u64) -> String {
    match b {
        0 | 1 | 250 | 5000 | 9999 | 10_000 => b.to_string(),
        b if b > 10_000 => ">1e4".into(),
        _ => "other".into(),
    }
}

/// a stage table starting at `t0`: one stage for the single-stage kinds, 1–3 for the tiered kinds (contiguous or gapped)
fn gen_sched(rng: &mut Rng, tiered: bool, dd: u64, t0: u64, price: &mut dyn FnMut(&mut Rng) -> u128) -> Sched {
    let n = if tiered { 1 + rng.below(3) } else { 1 };
    let mut stages: Vec<St> = vec![];
    let mut t = t0;
    for _ in 0..n {
        let end = t + rng.range(100, 1500) * SEC;
        let mut p = price(rng);
        while stages.iter().any(|s| s.price.1 == p) {
            p += 1;
        }
        stages.push(St { price: (dd, p), start: t, end });
        t = if rng.chance(1, 2) { end } else { end + rng.range(1, 400) * SEC };
    }
    Sched { incl: tiered, stages }
}

fn gen_scenario(rng: &mut Rng, v: usize) -> Sc {
    let kind = MinterKind::from_idx(v);
    let now = GENESIS + DAY + rng.below(1000) * SEC;
    let d = if rng.chance(1, 2) { 0 } else { 7 };
    let mut price = price_grid(rng);
    let mut min = match rng.below(4) {
        0 => 0,
        1 => price,
        2 => price / 2,
        _ => price.min(1),
    };
    let fee_bps = bps_grid(rng);
    let air_bps = bps_grid(rng);
    let mut air_amt = if rng.chance(1, 4) { 0 } else { price_grid(rng) };
    let air_d = match kind.factory() {
        FactoryKind::OpenEdition => *rng.pick(&[0u64, 0, d, d, 8]),
        _ => *rng.pick(&[0u64, 0, 0, d, 8]),
    };
    let cap = rng.chance(2, 3);
    if kind.is_open_edition() && !cap {
        // factory: unlimited editions need a non-zero mint price and a non-zero airdrop price
        if price == 0 {
            price = 1;
        }
        if air_amt == 0 {
            air_amt = 1 + rng.below(5) as u128;
        }
    }
    if kind == MinterKind::Base {
        // base minter: price field = the factory min_mint_price that gets captured
        min = price;
    }
    if kind == MinterKind::TokenMerge {
        price = 0;
        min = 0;
    }
    let has_wl = kind != MinterKind::TokenMerge && kind != MinterKind::Base;
    let wl = if has_wl && rng.chance(3, 4) {
        let dd = if rng.chance(1, 12) { 9 } else { d };
        let tiered = rng.chance(1, 2);
        let t0 = now + rng.range(500, 1500) * SEC;
        Some(gen_sched(rng, tiered, dd, t0, &mut |rng: &mut Rng| if rng.chance(1, 5) { 0 } else { price_grid(rng) }))
    } else {
        None
    };
    let wlb = if has_wl && rng.chance(1, 2) {
        // SetWhitelist demands the minter's denom and at least the factory minimum
        let tiered = rng.chance(1, 2);
        let t0 = now + rng.range(400, 1600) * SEC;
        Some(gen_sched(rng, tiered, d, t0, &mut |rng: &mut Rng| min + if rng.chance(1, 3) { 0 } else { price_grid(rng) }))
    } else {
        None
    };
    let (a_s, a_e) = match &wl {
        Some(w) => (w.stages[0].start, w.stages.last().unwrap().end),
        None => {
            let s = now + rng.range(500, 1500) * SEC;
            (s, s + rng.range(100, 2000) * SEC)
        }
    };
    let start = match rng.below(4) {
        0 => a_e,                           // public opens exactly when the whitelist closes
        1 => a_s + (a_e - a_s) / 2,         // public start inside the whitelist window
        2 => a_e + rng.range(1, 500) * SEC, // gap
        _ => a_s,                           // whitelist opens at public start
    };
    // aliasing: the payment address / developer may be a fee recipient, a payer, each other
    let devs = match rng.below(12) {
        0 | 1 => [BUYERS[1], DEV_B],
        2 => [PAYADDR, DEV_A],
        _ => [DEV_A, DEV_B],
    };
    let pay = match rng.below(12) {
        0..=4 => None,
        5..=8 => Some(PAYADDR),
        9 => Some(ID_LIQUIDITY_DAO),
        10 => Some(BUYERS[0]),
        _ => Some(devs[0]),
    };
    Sc { v, d, price, pay, cap, fee_bps, air: (air_d, air_amt), air_bps, devs, min, wl, wlb, now, start, pal: None, ntok: None }
}

#[derive(Clone, Copy, Debug, PartialEq)]
enum Fault {
    Exact,
    Plus1,
    Minus1,
    WrongDenom,
    ExtraCoin,
    DupCoin,
    NoFunds,
    ZeroCoin,
    Double,
    Random,
    Broke,
    /// pay another configured price (public instead of discount, another stage's price, airdrop price…)
    AltPrice,
}

fn craft_funds(rng: &mut Rng, price: C, fault: Fault) -> Vec<C> {
    let (d, n) = price;
    let other = |rng: &mut Rng| -> u64 {
        let mut o = *rng.pick(&DENOMS);
        if o == d {
            o = if d == 9 { 0 } else { 9 };
        }
        o
    };
    let exact: Vec<C> = if n == 0 { vec![] } else { vec![(d, n)] };
    match fault {
        Fault::Exact | Fault::Broke => exact,
        Fault::Plus1 => vec![(d, n + 1)],
        Fault::Minus1 => {
            if n == 0 {
                vec![(d, 1)]
            } else {
                vec![(d, n - 1)]
            }
        }
        Fault::WrongDenom => vec![(other(rng), n.max(1))],
        Fault::ExtraCoin => {
            let mut v = if n == 0 { vec![(d, 1)] } else { exact };
            v.push((other(rng), 1 + rng.below(3) as u128));
            v.sort();
            v
        }
        Fault::DupCoin => vec![(d, n.max(1)), (d, 1)],
        Fault::NoFunds => {
            if n == 0 {
                vec![(d, 2)]
            } else {
                vec![]
            }
        }
        Fault::ZeroCoin => vec![(if rng.chance(1, 2) { d } else { other(rng) }, 0)],
        Fault::Double => vec![(d, n.max(1) * 2)],
        Fault::Random => vec![(d, rng.sized_u128(100))],
        Fault::AltPrice => exact, // replaced by the caller
    }
}

/// every configured price other than the one in force (what a confused or cheating payer might attach instead)
fn alt_prices(g: &Ghost, price: C) -> Vec<C> {
    let mut alts: Vec<C> = vec![g.public, g.air];
    alts.extend(g.discount);
    for s in [&g.wla, &g.wlb].into_iter().flatten() {
        alts.extend(s.stages.iter().map(|st| st.price));
    }
    alts.retain(|c| *c != price && c.1 != 0);
    alts.sort();
    alts.dedup();
    alts
}

/// the interesting instants of the case as the harness configured it: public start and every stage edge, each -1/0/+1 ns
fn instants(g: &Ghost, sc: &Sc) -> Vec<u64> {
    let mut v: Vec<u64> = vec![sc.start - 1, sc.start, sc.start + 1, sc.start + 13 * 3600 * SEC];
    for w in [&g.wla, &g.wlb].into_iter().flatten() {
        for s in &w.stages {
            v.extend([s.start.saturating_sub(1), s.start, s.start + 1, s.end.saturating_sub(1), s.end, s.end + 1]);
        }
    }
    v.sort();
    v.dedup();
    v
}

/// Boundary triple in ONE block by ONE sender: one unit too little (or nothing), one unit too much, then exactly the price
/// in force as the harness knows it. `eeo` (zero price: `eo`) = both wrong amounts rejected while the gates were demonstrably
/// open (the exact payment went through right after). Returns (pattern, price kind).
fn triple(ses: &mut Session, sut: &mut S, who: u64, admin: bool, extra: &str) -> (String, &'static str) {
    let kind = sut.kind();
    let g = sut.ghost().clone();
    let ((d, n), bps) = price_in_force(kind, &g, admin);
    let pk = price_kind(kind, &g, admin);
    let tries: Vec<Vec<C>> = if n == 0 {
        vec![vec![(d, 1)], vec![]]
    } else if n == 1 {
        vec![vec![], vec![(d, 2)], vec![(d, 1)]]
    } else {
        vec![vec![(d, n - 1)], vec![(d, n + 1)], vec![(d, n)]]
    };
    let mut pat = String::new();
    for f in &tries {
        let out = ses.step(sut, &format!("mint who={who} admin={}{extra} funds={}", admin as u8, fmt_pairs(f)));
        pat.push(if out.starts_with("ok") { 'o' } else { 'e' });
    }
    let good = pat == "eeo" || (n == 0 && pat == "eo");
    if good {
        ses.mark(format!("triple-ok:{}:{pk}:{}:bps{}", kind.name(), price_class(n), bps_class(bps)));
        ses.mark(format!("paid:{}:{pk}:{}:bps{}:native{}", kind.name(), price_class(n), bps_class(bps), (d == 0) as u8));
    } else {
        ses.mark(format!("triple-other:{}:{pk}:{pat}", kind.name()));
    }
    ses.count(&format!("triple:{pk}:{pat}"));
    (pat, pk)
}

fn mint_extra(kind: MinterKind, admin: bool) -> String {
    if admin {
        format!(" to={RECIP}")
    } else if kind == MinterKind::TokenMerge {
        " tok=1".into()
    } else {
        String::new()
    }
}

/// the deterministic price grid of the property text: 0, 1..5, 7, 9999, 10001, 10^k - 1, 10^k, 10^k + 1 (k = 1..30)
fn full_price_grid() -> Vec<u128> {
    let mut v: Vec<u128> = vec![0, 1, 2, 3, 4, 5, 7, 9999, 10001];
    for k in 1..=30u32 {
        let t = 10u128.pow(k);
        v.extend([t - 1, t, t + 1]);
    }
    v.sort();
    v.dedup();
    v
}
const BPS_GRID: [u64; 6] = [0, 1, 250, 5000, 9999, 10_000];

fn base_sc(v: usize, now: u64) -> Sc {
    Sc {
        v,
        d: 0,
        price: 100_000_000,
        pay: Some(PAYADDR),
        cap: true,
        fee_bps: 1000,
        air: (0, 0),
        air_bps: 10_000,
        devs: [DEV_A, DEV_B],
        min: 0,
        wl: None,
        wlb: None,
        now,
        start: now + 1000 * SEC,
        pal: None,
        ntok: None,
    }
}

fn big_funds() -> String {
    let big: u128 = 1u128 << 108;
    let all: Vec<C> = DENOMS.iter().map(|d| (*d, big)).collect();
    fmt_pairs(&all)
}

const WL_KINDS: [usize; 9] = [0, 1, 2, 3, 4, 5, 6, 7, 8];
const STAGE_PRICES: [u128; 6] = [1_000, 9_999, 10_001, 1_000_001, 123_456_789, (1u128 << 64) + 5];

/// Stage hand-over scenarios: every (minter with whitelists) x {tiered, single-stage} pairing; at every stage edge -1/0/+1 ns
/// a boundary triple, another stage's price (must be rejected), a same-block repeat; then (second case) a whitelist-side edit
/// between two mints of one block.
fn stage_cases(ses: &mut Session, sut: &mut S, rng: &mut Rng) {
    let now = GENESIS + DAY;
    for (ki, v) in WL_KINDS.iter().enumerate() {
        let kind = MinterKind::from_idx(*v);
        for tiered in [true, false] {
            let d = if (ki + tiered as usize) % 2 == 0 { 0 } else { 7 };
            let mut ps: Vec<u128> = STAGE_PRICES.to_vec();
            rng.shuffle(&mut ps);
            let t1 = now + rng.range(500, 900) * SEC;
            let t2 = t1 + rng.range(50, 300) * SEC;
            let t3 = t2 + rng.range(50, 300) * SEC;
            let g3 = t3 + rng.range(2, 200) * SEC;
            let t4 = g3 + rng.range(50, 300) * SEC;
            let sched = if tiered {
                // stage 2 starts in the instant stage 1 ends (contiguous), stage 3 after a gap
                Sched { incl: true, stages: vec![St { price: (d, ps[0]), start: t1, end: t2 }, St { price: (d, ps[1]), start: t2, end: t3 }, St { price: (d, ps[2]), start: g3, end: t4 }] }
            } else {
                Sched { incl: false, stages: vec![St { price: (d, ps[0]), start: t1, end: t2 }] }
            };
            let mut sc = base_sc(*v, now);
            sc.d = d;
            sc.price = ps[3];
            sc.fee_bps = *rng.pick(&[0u64, 250, 1000, 5000, 10_000]);
            sc.pay = if rng.chance(1, 2) { Some(PAYADDR) } else { None };
            sc.air = (0, 1);
            sc.wl = Some(sched.clone());
            sc.start = t1; // the public sale is open whenever no stage is
            sc.pal = Some(5); // 150 tokens allow at most 5 per address; the buyers rotate
            sc.ntok = Some(150);
            let tag = if tiered { "i" } else { "x" };
            // ---- case 1: all edges
            ses.begin_case(sut, &sc.header());
            for b in BUYERS {
                ses.step(sut, &format!("fund a={b} cs={}", big_funds()));
            }
            let mut pts: Vec<(u64, String)> = vec![];
            for (si, s) in sched.stages.iter().enumerate() {
                for (nm, t) in [("start", s.start), ("end", s.end)] {
                    for (off, lab) in [(-1i64, "-1"), (0, "+0"), (1, "+1")] {
                        pts.push(((t as i64 + off) as u64, format!("s{}.{nm}{lab}", si + 1)));
                    }
                }
            }
            pts.sort();
            let mut bi = 0usize;
            for (t, lab) in pts {
                if sut.ghost().now != t {
                    ses.step(sut, &format!("t at={t}"));
                }
                let who = BUYERS[bi % BUYERS.len()];
                bi += 1;
                let g = sut.ghost().clone();
                let stage = g.stage_now().map(|(i, _)| i.to_string()).unwrap_or_else(|| "-".into());
                let (pat, pk) = triple(ses, sut, who, false, "");
                if pat == "eeo" {
                    ses.mark(format!("edge:{}:{tag}:{lab}:{pk}:{stage}", kind.name()));
                }
                // another stage's / the public price in this instant: must be rejected
                let (cur, _) = price_in_force(kind, &g, false);
                for alt in alt_prices(&g, cur) {
                    let out = ses.step(sut, &format!("mint who={who} admin=0 funds={}", fmt_c(&alt)));
                    ses.mark(format!("edge-alt:{}:{tag}:{}", kind.name(), &out[..2]));
                }
                // same block, same sender, again
                let out = ses.step(sut, &format!("mint who={who} admin=0 funds={}", fmt_c(&cur)));
                if pat == "eeo" {
                    ses.mark(format!("repeat:{}:{}", kind.name(), &out[..2]));
                }
            }
            ses.end_case();
            // ---- case 2: a whitelist-side edit between two mints of one block
            ses.begin_case(sut, &sc.header());
            for b in BUYERS {
                ses.step(sut, &format!("fund a={b} cs={}", big_funds()));
            }
            let who = BUYERS[ki % BUYERS.len()];
            let mut pat = String::new();
            if tiered {
                let t = t2 + (t3 - t2) / 2;
                ses.step(sut, &format!("t at={t}"));
                let old = sched.stages[1].price;
                let newp = (d, ps[4]);
                pat.push_str(&ses.step(sut, &format!("mint who={who} admin=0 funds={}", fmt_c(&old)))[..1]);
                ses.step(sut, &format!("wl_edit which=a op=price k=1 p={}", fmt_c(&newp)));
                pat.push_str(&ses.step(sut, &format!("mint who={who} admin=0 funds={}", fmt_c(&old)))[..1]);
                pat.push_str(&ses.step(sut, &format!("mint who={who} admin=0 funds={}", fmt_c(&newp)))[..1]);
                // the stage is cut short: this instant becomes the last one of stage 2 (inclusive), the next ns is public
                ses.step(sut, &format!("wl_edit which=a op=end k=1 t={t}"));
                let (p2, _) = triple(ses, sut, who, false, "");
                ses.step(sut, &format!("t at={}", t + 1));
                let (p3, k3) = triple(ses, sut, who, false, "");
                ses.mark(format!("edit-end:{}:i:{p2}:{p3}:{k3}", kind.name()));
                // a later stage is pulled forward / removed / re-added by the whitelist admin
                ses.step(sut, &format!("wl_edit which=a op=start k=2 t={}", t + 10));
                ses.step(sut, &format!("t at={}", t + 10));
                let (p4, k4) = triple(ses, sut, who, false, "");
                ses.mark(format!("edit-start:{}:i:{p4}:{k4}", kind.name()));
                ses.step(sut, &format!("wl_edit which=a op=rmstage k=2"));
                ses.step(sut, &format!("wl_edit which=a op=addstage t={} e={} p={}", t4 + 10, t4 + 500, fmt_c(&(d, ps[5]))));
                ses.step(sut, &format!("wl_edit which=a op=price k=0 p={} by={}", fmt_c(&(d, 5)), BUYERS[0]));
                ses.step(sut, &format!("t at={}", t4 + 10));
                let (p5, k5) = triple(ses, sut, who, false, "");
                ses.mark(format!("edit-restage:{}:i:{p5}:{k5}", kind.name()));
            } else {
                let t = t1 + (t2 - t1) / 2;
                ses.step(sut, &format!("t at={t}"));
                let old = sched.stages[0].price;
                let public = (d, sc.price);
                pat.push_str(&ses.step(sut, &format!("mint who={who} admin=0 funds={}", fmt_c(&old)))[..1]);
                // the window is cut to end NOW: end-exclusive, so the whitelist is no longer active in this very block
                ses.step(sut, &format!("wl_edit which=a op=end t={t}"));
                pat.push_str(&ses.step(sut, &format!("mint who={who} admin=0 funds={}", fmt_c(&old)))[..1]);
                pat.push_str(&ses.step(sut, &format!("mint who={who} admin=0 funds={}", fmt_c(&public)))[..1]);
                ses.step(sut, &format!("wl_edit which=a op=end t={} by={}", t + 50, BUYERS[0]));
                ses.step(sut, &format!("wl_edit which=a op=start t={}", t + 5));
            }
            ses.mark(format!("edit-between:{}:{tag}:{pat}", kind.name()));
            ses.end_case();
            // ---- case 3 (vending family): a discount set WHILE a whitelist stage is active (the public sale opened inside the
            // whitelist window). The stage price stays the price in force for as long as a stage is active; the standing discount
            // is charged only once no stage is (seeded C02-7: a discount that shadows the whitelist price).
            if kind.is_vending() {
                ses.begin_case(sut, &sc.header());
                for b in BUYERS {
                    ses.step(sut, &format!("fund a={b} cs={}", big_funds()));
                }
                let who = BUYERS[(ki + 1) % BUYERS.len()];
                let dp = (d, sc.price / 2 + 1); // below the public price, no stage's price
                ses.step(sut, &format!("t at={}", t1 + (t2 - t1) / 2));
                let o1 = ses.step(sut, &format!("set_discount p={}", dp.1))[..2].to_string();
                let (p1, k1) = triple(ses, sut, who, false, "");
                let a1 = ses.step(sut, &format!("mint who={who} admin=0 funds={}", fmt_c(&dp)))[..1].to_string();
                // tiered: the next stage (end instants are inclusive, so one ns later); single: the window is over, the discount applies
                ses.step(sut, &format!("t at={}", if tiered { t2 + 1 } else { t2 }));
                let (p2, k2) = triple(ses, sut, who, false, "");
                let a2 = ses.step(sut, &format!("mint who={who} admin=0 funds={}", fmt_c(&dp)))[..1].to_string();
                ses.mark(format!("disc-in-wl:{}:{tag}:{o1}:{p1}:{k1}:{a1}:{p2}:{k2}:{a2}", kind.name()));
                ses.end_case();
            }
        }
    }
}

/// Aliased parties (the payment address / the developer / the payer coincide with each other or with a protocol fee
/// recipient), and the base minter's captured price after the factory minimum moved.
fn alias_cases(ses: &mut Session, sut: &mut S) {
    let now = GENESIS + DAY;
    let table: [(&str, usize, Option<u64>, [u64; 2], u64); 6] = [
        ("seller-is-liquidity-dao", 6, Some(ID_LIQUIDITY_DAO), [DEV_A, DEV_B], BUYERS[2]),
        ("seller-is-launchpad-dao", 1, Some(ID_LAUNCHPAD_DAO), [DEV_A, DEV_B], BUYERS[2]),
        ("payer-is-seller", 0, Some(BUYERS[0]), [DEV_A, DEV_B], BUYERS[0]),
        ("payer-is-developer", 7, Some(PAYADDR), [BUYERS[1], DEV_B], BUYERS[1]),
        ("seller-is-developer", 8, Some(DEV_A), [DEV_A, DEV_B], BUYERS[3]),
        ("payer-is-seller-is-developer", 6, Some(BUYERS[4]), [BUYERS[4], DEV_B], BUYERS[4]),
    ];
    for (name, v, pay, devs, who) in table {
        let mut sc = base_sc(v, now);
        sc.pay = pay;
        sc.devs = devs;
        sc.price = 1_000_003;
        sc.air = (0, 77_777);
        sc.air_bps = 2_500;
        ses.begin_case(sut, &sc.header());
        ses.step(sut, &format!("fund a={who} cs={}", big_funds()));
        ses.step(sut, &format!("fund a={ADMIN} cs={}", big_funds()));
        ses.step(sut, &format!("t at={}", sc.start));
        let (pat, _) = triple(ses, sut, who, false, "");
        ses.mark(format!("alias:{name}:public:{pat}"));
        let (pat, _) = triple(ses, sut, ADMIN, true, &format!(" to={RECIP}"));
        ses.mark(format!("alias:{name}:airdrop:{pat}"));
        ses.end_case();
    }
    // base minter: the price is derived from the min_mint_price CAPTURED at instantiation, not from the factory's current one
    let mut sc = base_sc(10, now);
    sc.price = 100_000_000;
    sc.min = 100_000_000;
    ses.begin_case(sut, &sc.header());
    ses.step(sut, &format!("fund a={ADMIN} cs={}", big_funds()));
    let (p0, _) = triple(ses, sut, ADMIN, false, "");
    ses.step(sut, &format!("sudo fee_bps=1000 air=0:0 air_bps=0 dev={DEV_A} min=0:300000000"));
    let (p1, _) = triple(ses, sut, ADMIN, false, "");
    let out = ses.step(sut, &format!("mint who={ADMIN} admin=0 funds=0:30000000"));
    ses.step(sut, &format!("sudo fee_bps=250 air=0:0 air_bps=0 dev={DEV_A} min=0:1"));
    let (p2, _) = triple(ses, sut, ADMIN, false, "");
    ses.mark(format!("base-captured:{p0}:{p1}:{}:{p2}", &out[..1]));
    ses.end_case();
}

/// Every ExecuteMsg variant the schema of each minter crate lists and that no dedicated op drives, sent as raw JSON by a
/// stranger with stray funds, by the admin with the shuffle fee and by the admin without funds, before and after the start.
fn other_cases(ses: &mut Session, sut: &mut S) {
    let now = GENESIS + DAY;
    for v in 0..11usize {
        let kind = MinterKind::from_idx(v);
        let schema = exec_schema(kind);
        let mut names: Vec<String> = variants_of(&schema).into_iter().map(|(n, _)| n).collect();
        for h in HANDLED {
            if names.iter().any(|n| n == h) {
                ses.mark(format!("variant:{}:{h}", kind.name()));
            }
        }
        names.retain(|n| !HANDLED.contains(&n.as_str()));
        for n in &names {
            if !OTHER_TODAY.contains(&n.as_str()) {
                ses.mark(format!("unknown-variant:{}:{n}", kind.name()));
                ses.note(format!("ExecuteMsg variant `{n}` of {} is not known to the C02 harness: sent with schema-derived arguments under the monitors", kind.name()));
            }
        }
        // sale-ending messages last
        names.sort_by_key(|n| (n == "purge") as u8 * 2 + (n == "burn_remaining") as u8);
        let mut sc = base_sc(v, now);
        sc.air = (0, 1_000);
        sc.air_bps = 5000;
        if kind == MinterKind::Base {
            sc.min = sc.price;
        }
        ses.begin_case(sut, &sc.header());
        for a in [ADMIN, BUYERS[0], BUYERS[1], MERGER] {
            ses.step(sut, &format!("fund a={a} cs={}", big_funds()));
        }
        let mut sent = 0usize;
        for (phase, t) in [(0, sc.now + 10 * SEC), (1, sc.start + 5 * SEC)] {
            ses.step(sut, &format!("t at={t}"));
            if phase == 1 {
                // some sale state to act on
                let admin = kind == MinterKind::TokenMerge;
                let who = if kind == MinterKind::Base || admin { ADMIN } else { BUYERS[0] };
                triple(ses, sut, who, admin, &mint_extra(kind, admin));
            }
            for n in &names {
                let ending = n == "purge" || n == "burn_remaining";
                if ending && phase == 0 {
                    continue;
                }
                let arg = if n.contains("time") { sc.start + 500 * SEC + phase * 7 } else { 2 + phase };
                for (who, funds) in [(BUYERS[1], "7:5".to_string()), (ADMIN, format!("0:{SHUFFLE_FEE}")), (ADMIN, "-".to_string()), (BUYERS[1], format!("0:{SHUFFLE_FEE}"))] {
                    let out = ses.step(sut, &format!("other msg={n} who={who} funds={funds} n={arg}"));
                    ses.mark(format!("other:{}:{n}:{}:{}", kind.name(), if funds == "-" { "nofunds" } else { "funds" }, &out[..2]));
                }
                if phase == 1 {
                    sent += 1;
                    // the sale goes on: a mint right after the other message
                    if !ending {
                        let admin = kind == MinterKind::TokenMerge;
                        let who = if kind == MinterKind::Base || admin { ADMIN } else { BUYERS[0] };
                        let (pat, _) = triple(ses, sut, who, admin, &mint_extra(kind, admin));
                        ses.mark(format!("mint-after-other:{}:{n}:{pat}", kind.name()));
                    }
                }
            }
        }
        if sent == names.len() {
            ses.mark(format!("other-all-sent:{}:{}", kind.name(), names.len()));
        }
        ses.end_case();
    }
}

/// Deterministic cases run before the random ones: the F-C02 reproduction on every minter that had it, and exhaustive
/// price-grid x bps-grid sweeps (airdrop price via sudo, public price by lowering it step by step, base price via bps).
fn fixed_cases(ses: &mut Session, sut: &mut S, rng: &mut Rng) {
    let all = big_funds();
    let now = GENESIS + DAY;
    let thorough = ses.tier() != Tier::Quick;
    // 1. F-C02 (fixed by e08eaf1): airdrop price 100, airdrop fee 50 % => the other 50 must reach the seller, not stay in the minter
    for v in [0usize, 1, 2, 3, 4, 5, 9] {
        for pay in [None, Some(PAYADDR)] {
            let mut sc = base_sc(v, now);
            sc.air = (0, 100);
            sc.air_bps = 5000;
            sc.pay = pay;
            ses.begin_case(sut, &sc.header());
            ses.step(sut, &format!("fund a={ADMIN} cs={all}"));
            let out = ses.step(sut, &format!("mint who={ADMIN} admin=1 to={RECIP} funds=0:100"));
            ses.mark(format!("corpus:F-C02:{}:{}", MinterKind::from_idx(v).name(), &out[..2]));
            ses.end_case();
        }
    }
    // 2. airdrop sweeps: every grid price x every grid bps
    let grid = full_price_grid();
    let mut combos: Vec<(u128, u64)> = vec![];
    for p in &grid {
        for b in BPS_GRID {
            combos.push((*p, b));
        }
    }
    // open edition uncapped (dev fee recipient, unlimited tokens): all non-zero prices, alternating denoms 0 / 8
    for (v, d) in [(6usize, 0u64), (7, 8), (8, 7)] {
        if !thorough && v != 6 {
            continue;
        }
        let mut sc = base_sc(v, now);
        sc.cap = false;
        sc.air = (d, 1);
        ses.begin_case(sut, &sc.header());
        ses.step(sut, &format!("fund a={ADMIN} cs={all}"));
        for (i, (p, b)) in combos.iter().enumerate() {
            if *p == 0 {
                continue;
            }
            let dev = if i % 2 == 0 { DEV_A } else { DEV_B };
            ses.step(sut, &format!("sudo fee_bps=1000 air={d}:{p} air_bps={b} dev={dev}"));
            let out = ses.step(sut, &format!("mint who={ADMIN} admin=1 to={RECIP} funds={d}:{p}"));
            ses.mark(format!("sweep:oe-airdrop:{}:bps{}:{}", price_class(*p), b, &out[..2]));
            ses.count(&format!("sweep:oe-airdrop:{}", &out[..2]));
        }
        ses.end_case();
    }
    // vending / token-merge: 60 tokens per collection => chunks of 55 combos
    let chunked: Vec<usize> = if thorough { vec![0, 1, 2, 3, 4, 5, 9] } else { vec![1, 9] };
    for v in chunked {
        let mut todo: Vec<(u128, u64)> = combos.clone();
        if !thorough {
            rng.shuffle(&mut todo);
            todo.truncate(110);
        }
        for chunk in todo.chunks(55) {
            let sc = base_sc(v, now);
            ses.begin_case(sut, &sc.header());
            ses.step(sut, &format!("fund a={ADMIN} cs={all}"));
            for (p, b) in chunk {
                ses.step(sut, &format!("sudo fee_bps=1000 air=0:{p} air_bps={b} dev={DEV_A}"));
                let funds = if *p == 0 { "-".to_string() } else { format!("0:{p}") };
                let out = ses.step(sut, &format!("mint who={ADMIN} admin=1 to={RECIP} funds={funds}"));
                ses.mark(format!("sweep:{}-airdrop:{}:bps{}:{}", MinterKind::from_idx(v).name(), price_class(*p), b, &out[..2]));
            }
            ses.end_case();
        }
    }
    // 3. public price sweep on an uncapped open edition with per-address limit 50: start at the top of the grid and
    //    lower the price step by step (only lowering is allowed after the start), cycling the fee bps
    {
        let mut sc = base_sc(6, now);
        sc.cap = false;
        sc.air = (0, 1);
        sc.price = 10u128.pow(30) + 2;
        sc.pal = Some(50);
        ses.begin_case(sut, &sc.header());
        for b in BUYERS {
            ses.step(sut, &format!("fund a={b} cs={all}"));
        }
        ses.step(sut, &format!("t at={}", sc.start));
        let mut desc = grid.clone();
        desc.reverse();
        for (i, p) in desc.iter().enumerate() {
            if *p == 0 {
                continue; // an uncapped open edition cannot be free
            }
            let b = BPS_GRID[i % BPS_GRID.len()];
            ses.step(sut, &format!("sudo fee_bps={b} air=0:1 air_bps=10000 dev={DEV_A}"));
            ses.step(sut, &format!("set_price p={p}"));
            let who = BUYERS[i % BUYERS.len()];
            let out = ses.step(sut, &format!("mint who={who} admin=0 funds=0:{p}"));
            ses.mark(format!("sweep:oe-public:{}:bps{}:{}", price_class(*p), b, &out[..2]));
            ses.count(&format!("sweep:oe-public:{}", &out[..2]));
            // and one unit off, which must be rejected
            let off = if i % 2 == 0 { p + 1 } else { p - 1 };
            if off != 0 {
                let out = ses.step(sut, &format!("mint who={who} admin=0 funds=0:{off}"));
                ses.mark(format!("sweep:oe-public-off:{}", &out[..2]));
                ses.count(&format!("sweep:oe-public-off:{}", &out[..2]));
            }
        }
        ses.end_case();
    }
    // 4. base minter: price = floor(min_mint_price x bps / 10^4) for grid minimum prices x all bps (incl. non-multiples of the divisor)
    let mins: Vec<u128> = if thorough { grid.clone() } else { grid.iter().copied().step_by(6).collect() };
    for m in &mins {
        let mut sc = base_sc(10, now);
        sc.price = *m;
        sc.min = *m;
        ses.begin_case(sut, &sc.header());
        ses.step(sut, &format!("fund a={ADMIN} cs={all}"));
        for b in [1u64, 250, 5000, 9999, 10_000, 3] {
            ses.step(sut, &format!("sudo fee_bps={b} air=0:0 air_bps=0 dev={DEV_A}"));
            let fee = mul_bps(*m, b);
            let funds = if fee == 0 { "-".to_string() } else { format!("0:{fee}") };
            let out = ses.step(sut, &format!("mint who={ADMIN} admin=0 funds={funds}"));
            ses.mark(format!("sweep:base:{}:bps{}:{}", price_class(fee), b, &out[..2]));
            ses.count(&format!("sweep:base:{}", &out[..2]));
            let out = ses.step(sut, &format!("mint who={ADMIN} admin=0 funds=0:{}", fee + 1));
            ses.mark(format!("sweep:base-off:{}", &out[..2]));
            ses.count(&format!("sweep:base-off:{}", &out[..2]));
        }
        ses.end_case();
    }
}

fn random_case(ses: &mut Session, sut: &mut S, rng: &mut Rng, v: usize) {
    let kind = MinterKind::from_idx(v);
    let big: u128 = 1u128 << 104;
    let sc = gen_scenario(rng, v);
    ses.begin_case(sut, &sc.header());
    ses.count(&format!("case:{}", kind.name()));
    let wtag = |w: &Option<Sched>| match w {
        None => "none".to_string(),
        Some(s) => format!("{}{}", if s.incl { "tiered" } else { "single" }, s.stages.len()),
    };
    ses.mark(format!("setup:{}:{}:pay{}:wl-{}:denom{}", kind.name(), if sc.cap { "cap" } else { "nocap" }, sc.pay.is_some() as u8, wtag(&sc.wl), sc.d));
    // funding (tracked by the model as well)
    let mut payers: Vec<u64> = vec![ADMIN];
    if kind == MinterKind::TokenMerge {
        payers.push(MERGER);
    }
    payers.extend(BUYERS);
    let all: Vec<C> = DENOMS.iter().map(|d| (*d, big)).collect();
    for p in &payers {
        ses.step(sut, &format!("fund a={p} cs={}", fmt_pairs(&all)));
    }
    ses.step(sut, &format!("fund a={OUTSIDER} cs={}:{}", sc.d, 1 + rng.below(3)));
    let mut now = sc.now;
    let mut next_tok = 1u64;
    let n_ops = 18 + rng.below(14);
    // phase: 20% start before everything, 30% at the whitelist opening, 50% at the public opening
    let ph = rng.below(10);
    let jump: Option<u64> = if ph < 2 {
        None
    } else if ph < 5 {
        Some(sc.wl.as_ref().map(|w| w.stages[0].start + rng.below(3)).unwrap_or(sc.start))
    } else {
        Some(sc.start.max(sc.wl.as_ref().map(|w| w.stages.last().unwrap().end).unwrap_or(0)) + rng.below(2))
    };
    if let Some(t) = jump {
        now = t;
        ses.step(sut, &format!("t at={t}"));
    }
    for _opi in 0..n_ops {
        let roll = rng.below(100);
        let g = sut.ghost().clone();
        if roll < 14 {
            // clock: next interesting instant (as configured NOW, after any whitelist edit), or a random step
            let ins = instants(&g, &sc);
            let t = match ins.iter().find(|t| **t > now) {
                Some(t) if rng.chance(3, 4) => *t,
                _ => now + rng.range(1, 4000) * SEC,
            };
            now = t;
            ses.step(sut, &format!("t at={t}"));
            continue;
        }
        if roll < 23 {
            // governance: fee rates / airdrop price / dev address (/ the factory's current minimum price)
            let fb = bps_grid(rng);
            let ab = bps_grid(rng);
            let amt = if rng.chance(1, 5) { 0 } else { price_grid(rng) };
            let ad = match kind.factory() {
                FactoryKind::OpenEdition => *rng.pick(&[0u64, sc.d, 8]),
                _ => {
                    if rng.chance(1, 8) {
                        7
                    } else {
                        0
                    }
                }
            };
            let dev = if rng.chance(1, 2) { sc.devs[0] } else { sc.devs[1] };
            let mut line = format!("sudo fee_bps={fb} air={ad}:{amt} air_bps={ab} dev={dev}");
            if kind == MinterKind::Base && rng.chance(1, 2) {
                line.push_str(&format!(" min={}:{}", sc.d, price_grid(rng)));
            }
            let out = ses.step(sut, &line);
            ses.mark(format!("sudo:{}:{}", kind.name(), &out[..2]));
            continue;
        }
        if roll < 36 && (kind.is_vending() || kind.is_open_edition()) {
            // price history: update price / discount / whitelist
            let cur = g.public.1;
            let which = rng.below(if kind.is_vending() { 5 } else { 2 });
            let line = match which {
                0 => {
                    let p = match rng.below(4) {
                        0 => price_grid(rng),
                        1 => cur.saturating_sub(1 + rng.below(3) as u128).max(sc.min),
                        2 => sc.min,
                        _ => cur / 2 + sc.min / 2,
                    };
                    format!("set_price p={p}")
                }
                1 => {
                    let pick_b = rng.chance(1, 2);
                    match (if pick_b { &sc.wlb } else { &sc.wl }, pick_b) {
                        (Some(_), b) => format!("set_wl which={}", if b { "b" } else { "a" }),
                        _ => format!("set_price p={}", cur),
                    }
                }
                2 | 3 => {
                    let p = match rng.below(3) {
                        0 => sc.min,
                        1 => cur,
                        _ => sc.min + (cur.saturating_sub(sc.min)) / 2,
                    };
                    format!("set_discount p={p}")
                }
                _ => "rm_discount".to_string(),
            };
            let out = ses.step(sut, &line);
            ses.mark(format!("cfg:{}:{}:{}", kind.name(), line.split_whitespace().next().unwrap(), &out[..2]));
            continue;
        }
        if roll < 43 && (g.wla.is_some() || g.wlb.is_some()) {
            // whitelist-side history: the whitelist admin moves a window or changes a stage price
            let which = if g.wlb.is_none() || (g.wla.is_some() && rng.chance(2, 3)) { 'a' } else { 'b' };
            let s = if which == 'a' { g.wla.clone().unwrap() } else { g.wlb.clone().unwrap() };
            let k = if s.stages.is_empty() { 0 } else { rng.below(s.stages.len() as u64) as usize };
            let near = |rng: &mut Rng, t: u64| -> u64 {
                match rng.below(5) {
                    0 => now,
                    1 => now + 1,
                    2 => t.saturating_sub(rng.range(1, 50) * SEC).max(GENESIS),
                    3 => t + rng.range(1, 200) * SEC,
                    _ => now + rng.range(1, 300) * SEC,
                }
            };
            let st = s.stages.get(k).cloned().unwrap_or(St { price: (sc.d, 1), start: now + SEC, end: now + 100 * SEC });
            let by = if rng.chance(1, 10) { format!(" by={}", BUYERS[0]) } else { String::new() };
            let line = if !s.incl {
                if rng.chance(1, 2) {
                    format!("wl_edit which={which} op=end t={}{by}", near(rng, st.end))
                } else {
                    format!("wl_edit which={which} op=start t={}{by}", near(rng, st.start))
                }
            } else {
                match rng.below(if kind.is_merkle() { 6 } else { 8 }) {
                    0 | 1 => format!("wl_edit which={which} op=end k={k} t={}{by}", near(rng, st.end)),
                    2 => format!("wl_edit which={which} op=start k={k} t={}{by}", near(rng, st.start)),
                    3 | 4 | 5 => {
                        let p = if rng.chance(1, 4) { sc.min } else { sc.min + price_grid(rng) };
                        format!("wl_edit which={which} op=price k={k} p={}:{p}{by}", st.price.0)
                    }
                    6 => format!("wl_edit which={which} op=rmstage k={k}{by}"),
                    _ => {
                        let last = s.stages.last().map(|x| x.end).unwrap_or(now).max(now);
                        let t = last + rng.below(3) * SEC;
                        format!("wl_edit which={which} op=addstage t={t} e={} p={}:{}{by}", t + rng.range(50, 500) * SEC, st.price.0, sc.min + price_grid(rng))
                    }
                }
            };
            let out = ses.step(sut, &line);
            let attached = g.att == Some(which);
            ses.mark(format!("wl-edit:{}:{}:{}:att{}:{}", kind.name(), if s.incl { "tiered" } else { "single" }, kv(&line, "op").unwrap(), attached as u8, &out[..2]));
            continue;
        }
        if roll < 46 {
            // some other message of the minter (the sale-ending ones are left to `other_cases`)
            let names: Vec<&str> = OTHER_TODAY.iter().copied().filter(|n| *n != "purge" && *n != "burn_remaining" && build_variant(kind, n, 1).is_some()).collect();
            if !names.is_empty() {
                let n = *rng.pick(&names);
                let who = if rng.chance(1, 2) { ADMIN } else { *rng.pick(&BUYERS) };
                let funds = match rng.below(3) {
                    0 => "-".to_string(),
                    1 => format!("0:{SHUFFLE_FEE}"),
                    _ => format!("{}:{}", rng.pick(&DENOMS), 1 + rng.below(9)),
                };
                let arg = if n.contains("time") { now + rng.range(1, 3000) * SEC } else { 1 + rng.below(40) };
                let out = ses.step(sut, &format!("other msg={n} who={who} funds={funds} n={arg}"));
                ses.mark(format!("other-rand:{}:{n}:{}", kind.name(), &out[..2]));
                continue;
            }
        }
        // a mint
        let admin = kind != MinterKind::Base && rng.chance(if kind == MinterKind::TokenMerge { 2 } else { 1 }, 3);
        let (price, bps) = price_in_force(kind, &g, admin);
        let pkind0 = price_kind(kind, &g, admin);
        if rng.chance(1, 6) && !(kind == MinterKind::TokenMerge && !admin) {
            let who = if admin || kind == MinterKind::Base { ADMIN } else { *rng.pick(&BUYERS) };
            triple(ses, sut, who, admin, &mint_extra(kind, admin));
            continue;
        }
        let fault = match rng.below(100) {
            0..=58 => Fault::Exact,
            59..=63 => Fault::AltPrice,
            64..=66 => Fault::Plus1,
            67..=71 => Fault::Minus1,
            72..=76 => Fault::WrongDenom,
            77..=81 => Fault::ExtraCoin,
            82..=83 => Fault::DupCoin,
            84..=87 => Fault::NoFunds,
            88..=90 => Fault::ZeroCoin,
            91..=93 => Fault::Double,
            94..=95 => Fault::Random,
            96 => Fault::AltPrice,
            _ => Fault::Broke,
        };
        let mut who = if admin {
            if rng.chance(1, 14) {
                *rng.pick(&BUYERS)
            } else {
                ADMIN
            }
        } else {
            match kind {
                MinterKind::Base => {
                    if rng.chance(1, 10) {
                        *rng.pick(&BUYERS)
                    } else {
                        ADMIN
                    }
                }
                MinterKind::TokenMerge => MERGER,
                _ => *rng.pick(&BUYERS),
            }
        };
        if fault == Fault::Broke && !admin && kind != MinterKind::TokenMerge && kind != MinterKind::Base {
            who = OUTSIDER;
        }
        let mut line = format!("mint who={who} admin={}", admin as u8);
        let mut funds = craft_funds(rng, price, fault);
        let mut fault = fault;
        if fault == Fault::AltPrice {
            let alts = alt_prices(&g, price);
            if alts.is_empty() {
                fault = Fault::Plus1;
                funds = craft_funds(rng, price, fault);
            } else {
                funds = vec![*rng.pick(&alts)];
            }
        }
        let mut pkind = pkind0;
        if admin {
            let to = if rng.chance(1, 2) { RECIP } else { *rng.pick(&BUYERS) };
            line.push_str(&format!(" to={to}"));
            if (kind.is_vending() || kind == MinterKind::TokenMerge) && rng.chance(1, 3) {
                line.push_str(&format!(" for={}", rng.range(1, 60)));
            }
        } else if kind == MinterKind::TokenMerge {
            pkind = "merge";
            if rng.chance(1, 5) {
                // a stranger calls ReceiveNft directly (with or without funds): not a listed collection
                line = format!("mint who={} admin=0 direct=1 tok=9", *rng.pick(&BUYERS));
            } else {
                funds = vec![]; // cw721 send_nft never forwards funds
                fault = Fault::Exact;
                line.push_str(&format!(" tok={next_tok}"));
                next_tok = (next_tok % 4) + 1;
            }
        }
        line.push_str(&format!(" funds={}", fmt_pairs(&funds)));
        let out = ses.step(sut, &line);
        let okerr = &out[..2];
        ses.count(&format!("mint:{pkind}:{:?}:{okerr}", fault));
        ses.count(&format!("kind:{}:{pkind}:{okerr}", kind.name()));
        ses.mark(format!("mint:{}:{pkind}:{:?}:{okerr}", kind.name(), fault));
        ses.mark(format!("price:{pkind}:{}:bps{}:d{}:{okerr}", price_class(price.1), bps_class(bps), price.0));
        if okerr == "ok" {
            ses.mark(format!("paid:{}:{pkind}:{}:bps{}:native{}:pay{}", kind.name(), price_class(price.1), bps_class(bps), (price.0 == 0) as u8, sc.pay.is_some() as u8));
            if pkind == "whitelist" {
                let s = g.sched().unwrap();
                ses.mark(format!("paid-stage:{}:{}:stage{}", kind.name(), if s.incl { "tiered" } else { "single" }, g.stage_now().map(|x| x.0).unwrap_or(9)));
            }
            if sc.pay.map(|p| sc.fee_accts().contains(&p) || p == who).unwrap_or(false) || sc.fee_accts().contains(&who) {
                ses.mark(format!("paid-aliased:{}:{pkind}", kind.name()));
            }
        }
    }
    ses.end_case();
}

fn main() {
    let mut ses = Session::new("C02");
    let mut sut = S::new();
    if ses.maybe_replay(&mut sut) {
        ses.finish(&mut sut);
    }
    let mut rng = ses.rng.fork();
    let per_kind = ses.scale(34, 900);

    // coverage floor: without these the run would be vacuous in exactly the places the property speaks about
    for k in ALL_MINTERS {
        // wrong amounts rejected and the exact price accepted in one block by one sender, on every minter
        ses.require(format!("triple-ok:{}:", k.name()));
        // every ExecuteMsg variant outside the dedicated ops was sent
        ses.require(format!("other-all-sent:{}:", k.name()));
    }
    for k in WL_KINDS.map(MinterKind::from_idx) {
        let n = k.name();
        // tiered: the end instant still belongs to the stage (and, contiguous, to the EARLIER stage); one ns later the next
        // stage / the public price; single-stage: end-exclusive
        ses.require(format!("edge:{n}:i:s1.end+0:whitelist:0"));
        ses.require(format!("edge:{n}:i:s1.end+1:whitelist:1"));
        ses.require(format!("edge:{n}:i:s2.end+0:whitelist:1"));
        ses.require(format!("edge:{n}:i:s2.end+1:public"));
        ses.require(format!("edge:{n}:i:s3.start-1:public"));
        ses.require(format!("edge:{n}:i:s3.start+0:whitelist:2"));
        ses.require(format!("edge:{n}:x:s1.end-1:whitelist:0"));
        ses.require(format!("edge:{n}:x:s1.end+0:public"));
        ses.require(format!("edge:{n}:x:s1.start+0:whitelist:0"));
        ses.require(format!("edge-alt:{n}:i:er"));
        ses.require(format!("repeat:{n}:ok"));
        // a whitelist-side edit between two mints of one block changes the price in force
        if n.starts_with("vending") {
            // a standing discount never shadows an active stage's price; it is charged once no stage is active
            ses.require(format!("disc-in-wl:{n}:i:ok:eeo:whitelist:e:eeo:whitelist:e"));
            ses.require(format!("disc-in-wl:{n}:x:ok:eeo:whitelist:e:eeo:discount:o"));
        }
        ses.require(format!("edit-between:{n}:i:oeo"));
        ses.require(format!("edit-between:{n}:x:oeo"));
    }
    for a in ["seller-is-liquidity-dao", "seller-is-launchpad-dao", "payer-is-seller", "payer-is-developer", "seller-is-developer", "payer-is-seller-is-developer"] {
        ses.require(format!("alias:{a}:public:eeo"));
        ses.require(format!("alias:{a}:airdrop:eeo"));
    }
    ses.require("base-captured:eeo:eeo:e:eeo");
    ses.require("corpus:F-C02:");

    fixed_cases(&mut ses, &mut sut, &mut rng);
    alias_cases(&mut ses, &mut sut);
    other_cases(&mut ses, &mut sut);
    let rounds = ses.scale(1, 12);
    for _ in 0..rounds {
        stage_cases(&mut ses, &mut sut, &mut rng);
    }
    for _round in 0..per_kind {
        for v in 0..11usize {
            random_case(&mut ses, &mut sut, &mut rng, v);
        }
    }
    let ek: Vec<String> = sut.err_kinds.iter().map(|(k, n)| format!("{k}={n}")).collect();
    ses.note(format!("mint rejection texts seen on the implementation (evidence only, nothing depends on them): {}", ek.join("; ")));
    if sut.diag.is_empty() {
        ses.note("ghost state vs the contracts' own answers (MintPrice query, whitelist tables): no difference".to_string());
    }
    for (k, n) in sut.diag.clone() {
        ses.note(format!("DIAGNOSTIC {k}: {n} times; first: {}", sut.diag_first.get(&k).cloned().unwrap_or_default()));
        ses.count(&format!("diag:{k}"));
    }
    ses.note("values < 2^100; funding 2^104 per payer and denom; denoms: 0=ustars, 7/8/9 = non-native (factory min_mint_price / airdrop price denoms set at factory instantiation)".to_string());
    ses.finish(&mut sut);
}
